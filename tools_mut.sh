#!/bin/bash
# usage: tools_mut.sh <patchfile|-e 'sed expr' file> -- <check args...>   : run a check against a mutated scratch worktree of /repo
set -e
WT=/tmp/wt-mut-$$
git -C /repo worktree add -q --detach $WT HEAD
trap "git -C /repo worktree remove --force $WT; rm -rf /tmp/verif-scratch-out" EXIT
if [ "$1" = "-e" ]; then sed -i "$2" $WT/$3; shift 3; else git -C $WT apply "$1"; shift; fi
[ "$1" = "--" ] && shift
git -C $WT diff --stat | cat
VERIF_REPO=$WT /verif/check "$@" 2>&1 | grep -v conda | cut -c1-300 | tail -8

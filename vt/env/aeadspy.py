"""AEAD spy: wraps the cipher objects the library uses and logs (direction, key, nonce, ok, ciphertext hash).
Installed from outside by replacing module attributes; nothing in /repo changes."""
from __future__ import annotations

import contextlib
import hashlib


class SpyLog:
    def __init__(self):
        self.events = []  # (op, key, nonce, ok, ct_digest)

    def enc(self, key, nonce, ct):
        self.events.append(("enc", bytes(key), bytes(nonce), True, hashlib.blake2b(bytes(ct), digest_size=8).digest()))

    def dec(self, key, nonce, ct, ok):
        self.events.append(("dec", bytes(key), bytes(nonce), ok, hashlib.blake2b(bytes(ct), digest_size=8).digest()))

    # ---- oracle helpers
    def nonce_reuse(self):
        seen = {}
        for op, key, nonce, ok, ct in self.events:
            if op == "enc" and ok:
                k = (key, nonce)
                if k in seen and seen[k] != ct:
                    return dict(key=key[:4], nonce=nonce, first=seen[k], second=ct)
                if k in seen:
                    # identical plaintext under identical key+nonce is still nonce reuse
                    return dict(key=key[:4], nonce=nonce, identical_plaintext=True)
                seen[k] = ct
        return None

    def accepted(self):
        """list of (key, nonce, ct_digest) for successful decrypts, in order."""
        return [(k, n, c) for op, k, n, ok, c in self.events if op == "dec" and ok]


def digest(ct: bytes) -> bytes:
    return hashlib.blake2b(bytes(ct), digest_size=8).digest()


@contextlib.contextmanager
def spy_reusable(log: SpyLog):
    """Spy on ChaCha20Poly1305Reusable as used by aiohomekit.crypto.chacha20poly1305 (IP session, BLE keys, pair-verify)."""
    import aiohomekit.crypto.chacha20poly1305 as mod
    from cryptography.exceptions import InvalidTag

    Real = mod.ChaCha20Poly1305Reusable

    class Spy:
        def __init__(self, key):
            self._k = bytes(key)
            self._r = Real(key)

        def encrypt(self, nonce, data, aad):
            out = self._r.encrypt(nonce, data, aad)
            log.enc(self._k, nonce, out)
            return out

        def decrypt(self, nonce, data, aad):
            try:
                out = self._r.decrypt(nonce, data, aad)
            except InvalidTag:
                log.dec(self._k, nonce, data, False)
                raise
            log.dec(self._k, nonce, data, True)
            return out

    mod.ChaCha20Poly1305Reusable = Spy
    try:
        yield
    finally:
        mod.ChaCha20Poly1305Reusable = Real


class SpyCtx:
    """Spy for the cryptography ChaCha20Poly1305 context objects CoAP's EncryptionContext receives."""

    def __init__(self, log: SpyLog, key: bytes):
        from cryptography.hazmat.primitives.ciphers.aead import ChaCha20Poly1305

        self._k = bytes(key)
        self._r = ChaCha20Poly1305(key)
        self._log = log

    def encrypt(self, nonce, data, aad):
        out = self._r.encrypt(nonce, data, aad)
        self._log.enc(self._k, nonce, out)
        return out

    def decrypt(self, nonce, data, aad):
        from cryptography.exceptions import InvalidTag

        try:
            out = self._r.decrypt(nonce, data, aad)
        except InvalidTag:
            self._log.dec(self._k, nonce, data, False)
            raise
        self._log.dec(self._k, nonce, data, True)
        return out

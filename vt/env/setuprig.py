"""Pair-setup through the public discovery API (async_start_pairing / finish_pairing) of each transport, against the reference
accessories' SetupService.  One uniform little interface: start(), finish(pin), arm_drop(k), svc (the accessory's pair-setup log), close()."""
from __future__ import annotations

import asyncio

from vt import vloop
from vt.env import pairdrv
from vt.env.iprig import StubController, std_handler
from vt.ref import bleacc, coapacc, ipacc


class _Base:
    transport = "?"

    def __init__(self, seed):
        self.seed = seed
        self.finish_fn = None
        self.drop_at = None  # drop the link at the n-th transport operation from now
        self.ops = 0
        self.dropped = 0

    def _tick(self):
        """Called by the transport fake for every operation; True when this one is to be lost."""
        self.ops += 1
        if self.drop_at is not None and self.ops == self.drop_at:
            self.drop_at = None
            self.dropped += 1
            return True
        return False

    def arm_drop(self, k):
        self.ops, self.drop_at = 0, k

    def _call(self, coro):
        try:
            return self.loop.run_coro(coro, 600.0), None
        except Exception as e:  # noqa: BLE001
            return None, e

    def reset_accessory(self):
        """The accessory is factory-reset: a new long-term key, nobody paired, the same address and advertisement.  The discovery object the
        application holds stays the same."""
        self.n_resets = getattr(self, "n_resets", 0) + 1
        self._drop_links()  # (a reset accessory reboots: whatever link was up is gone)
        self._new_accessory(self.seed + 100 * self.n_resets)
        self.finish_fn = None
        self.loop.run_until_idle()

    def _drop_links(self):
        pass

    def start(self):
        fn, exc = self._call(self.disc.async_start_pairing("alias"))
        if exc is None:
            self.finish_fn = fn
        return exc

    def finish(self, pin):
        return self._call(self.finish_fn(pin))


class IpSetupRig(_Base):
    transport = "ip"

    def __init__(self, seed=0, host="10.0.0.1"):
        super().__init__(seed)
        from vt.env.reconn import mk_description

        self.loop = vloop.VirtualLoop().install()
        self.net = vloop.SimNet(self.loop)
        self._cms = [vloop.patched_network(self.net), pairdrv.pinned_keys(f"setuprig|{seed}"), pairdrv.pinned_srp(int.from_bytes(b"setuprig-srp-a!!", "big") + seed)]
        for cm in self._cms:
            cm.__enter__()
        from aiohomekit.controller.ip.discovery import IpDiscovery

        self._new_accessory(seed)
        self.net.auto = lambda att: ("ok", att["hosts"][0])
        orig = self.net.accept
        rig = self

        def accept(att, h=None):
            c = orig(att, h)
            sess = rig.acc.new_session()
            c.session = sess

            def handler(cc, data):
                if rig._tick():
                    rig.loop.call_soon(cc.peer_close)
                    return
                for o in sess.feed(data):
                    rig.loop.call_soon(cc.send, o)

            c.handler = handler
            return c

        self.net.accept = accept
        self.controller = StubController()
        self.disc = IpDiscovery(self.controller, mk_description([host]))

    def _drop_links(self):
        for c in self.net.open_conns():
            c.peer_close()

    def _new_accessory(self, seed):
        self.acc = ipacc.Accessory(seed)
        self.acc.handler = std_handler()
        self.acc.setup_log = []

    @property
    def log(self):
        return self.acc.setup_log

    @property
    def ident(self):
        return self.acc.ident

    @property
    def controllers(self):
        return self.acc.controllers

    def open_links(self):
        return len(self.net.open_conns())

    def close(self):
        try:
            self._call(self.disc.close())
            self.loop.shutdown()
        finally:
            for cm in reversed(self._cms):
                cm.__exit__(None, None, None)


class BleSetupRig(_Base):
    transport = "ble"

    def __init__(self, seed=0, mtu=158):
        super().__init__(seed)
        from vt.env.blerig import FakeBleClient

        import aiohomekit.controller.ble.discovery as disc_mod
        from aiohomekit.characteristic_cache import CharacteristicCacheMemory
        from aiohomekit.controller.ble.controller import BleController
        from aiohomekit.controller.ble.manufacturer_data import HomeKitAdvertisement
        from bleak.backends.device import BLEDevice

        self.mtu = mtu
        self.loop = vloop.VirtualLoop().install()
        self._cms = [pairdrv.pinned_keys(f"setuprig|{seed}"), pairdrv.pinned_srp(int.from_bytes(b"setuprig-srp-a!!", "big") + seed)]
        for cm in self._cms:
            cm.__enter__()
        self._new_accessory(seed)
        self.clients, self.links_closed, self.notify, self.gated, self.waiting = [], 0, {}, False, []
        rig = self

        class Client(FakeBleClient):
            async def write_gatt_char(self, handle, data, response):
                if rig._tick():
                    self.peer_disconnect()
                return await super().write_gatt_char(handle, data, response)

            async def read_gatt_char(self, handle):
                if rig._tick():
                    self.peer_disconnect()
                return await super().read_gatt_char(handle)

        async def establish(device, name, disconnected_callback, **kw):
            await asyncio.sleep(0)
            rig.acc.reset_link()
            c = Client(rig, disconnected_callback)
            rig.clients.append(c)
            return c

        self._mod, self._orig = disc_mod, disc_mod.establish_connection
        disc_mod.establish_connection = establish
        self.controller = BleController(CharacteristicCacheMemory())
        device = BLEDevice("00:11:22:33:44:55", "Acc", {})
        desc = HomeKitAdvertisement.from_cache("00:11:22:33:44:55", "aa:bb:cc:dd:ee:ff", 1, 1)
        self.disc = disc_mod.BleDiscovery(self.controller, device, desc, None)

    async def gate(self, kind, iid, data):
        await asyncio.sleep(0)
        return None

    def _drop_links(self):
        for c in self.clients:
            if c.is_connected:
                c.peer_disconnect()

    def _new_accessory(self, seed):
        self.acc = bleacc.BleAccessory(seed)

    @property
    def log(self):
        return self.acc.setup.log

    @property
    def ident(self):
        return self.acc.ident

    @property
    def controllers(self):
        return self.acc.controllers

    def open_links(self):
        return sum(1 for c in self.clients if c.is_connected)

    def close(self):
        try:
            self.loop.shutdown()
        finally:
            self._mod.establish_connection = self._orig
            for cm in reversed(self._cms):
                cm.__exit__(None, None, None)


class CoapSetupRig(_Base):
    transport = "coap"

    def __init__(self, seed=0):
        super().__init__(seed)
        import aiohomekit.controller.coap.connection as conn_mod
        from aiohomekit.controller.coap.discovery import CoAPDiscovery
        from vt.env.coaprig import FakeContext
        from vt.env.reconn import mk_description

        self.loop = vloop.VirtualLoop().install()
        self._cms = [pairdrv.pinned_keys(f"setuprig|{seed}"), pairdrv.pinned_srp(int.from_bytes(b"setuprig-srp-a!!", "big") + seed)]
        for cm in self._cms:
            cm.__enter__()
        self._new_accessory(seed)
        self.contexts = []
        rig = self

        class LossyContext(FakeContext):
            def request(self, msg):
                if rig._tick():
                    # the datagram (or its answer) is lost for good: the caller's own timeout has to end the wait
                    from vt.env.coaprig import _Req

                    self.requests.append(("lost", bytes(msg.payload)))
                    return _Req(rig.loop.create_future())
                return super().request(msg)

        class Ctx:
            @staticmethod
            async def create_server_context(root, bind=None):
                c = LossyContext(rig, root)
                rig.contexts.append(c)
                return c

            @staticmethod
            async def create_client_context():
                c = LossyContext(rig)
                rig.contexts.append(c)
                return c

        self._mod, self._orig = conn_mod, conn_mod.Context
        conn_mod.Context = Ctx
        self.controller = StubController()
        self.disc = CoAPDiscovery(self.controller, mk_description(["fd00::5"], port=5683))

    @property
    def log(self):
        return self.acc.setup.log

    @property
    def ident(self):
        return self.acc.ident

    @property
    def controllers(self):
        return self.acc.controllers

    def _new_accessory(self, seed):
        self.acc = coapacc.CoapAccessory(seed)

    def open_links(self):
        return sum(1 for c in self.contexts if not c.shut)

    def close(self):
        try:
            self.loop.shutdown()
        finally:
            self._mod.Context = self._orig
            for cm in reversed(self._cms):
                cm.__exit__(None, None, None)


RIGS = {"ip": IpSetupRig, "ble": BleSetupRig, "coap": CoapSetupRig}

"""Drive the library's pairing generators the way each transport does, with deterministic key material."""
from __future__ import annotations

import contextlib
import types

from vt.ref import crypto as C
from vt.ref import tlv8

STYLES = ("ip", "ble")


def decode_style(body: bytes, expected, style: str):
    """ip/coap: TLV.decode_bytes(body, expected=<list the generator yielded>) (list of pairs);
    ble: dict(TLV.decode_bytes(body)) (unfiltered)."""
    from aiohomekit.protocol.tlv import TLV

    if style == "ip":
        return TLV.decode_bytes(body, expected=expected)
    return dict(TLV.decode_bytes(body))


def req_dict(request):
    """Request items as yielded by a generator -> wire bytes (library encoder) -> reference-decoded dict."""
    from aiohomekit.protocol.tlv import TLV

    wire = bytes(TLV.encode_list(request))
    return dict(tlv8.decode(wire)), wire


class _Seq:
    def __init__(self, seed, label):
        self.seed, self.label, self.i = seed, label, 0

    def next(self, n=32):
        self.i += 1
        return C.det_bytes(self.seed, f"{self.label}|{self.i}", n)


@contextlib.contextmanager
def pinned_keys(seed):
    """Replace X25519PrivateKey.generate / Ed25519PrivateKey.generate *as seen by aiohomekit.protocol* with
    deterministic sequences (successive calls give distinct keys).  Nothing global is touched."""
    import aiohomekit.protocol as proto
    from cryptography.hazmat.primitives.asymmetric import ed25519, x25519

    xs, es = _Seq(seed, "x25519"), _Seq(seed, "ed25519")

    class X:
        @staticmethod
        def generate():
            return x25519.X25519PrivateKey.from_private_bytes(xs.next())

        from_private_bytes = staticmethod(x25519.X25519PrivateKey.from_private_bytes)

    class E:
        @staticmethod
        def generate():
            return ed25519.Ed25519PrivateKey.from_private_bytes(es.next())

        from_private_bytes = staticmethod(ed25519.Ed25519PrivateKey.from_private_bytes)

    ox, oe = proto.x25519, proto.ed25519
    proto.x25519 = types.SimpleNamespace(X25519PrivateKey=X, X25519PublicKey=x25519.X25519PublicKey)
    proto.ed25519 = types.SimpleNamespace(Ed25519PrivateKey=E, Ed25519PublicKey=ed25519.Ed25519PublicKey)
    try:
        yield
    finally:
        proto.x25519, proto.ed25519 = ox, oe


@contextlib.contextmanager
def pinned_srp(a: int):
    from aiohomekit.crypto import srp as lib

    orig = lib.Srp.__dict__["generate_private_key"]  # the descriptor itself (a staticmethod): what getattr returns would come back as an instance method
    lib.Srp.generate_private_key = staticmethod(lambda: a)
    try:
        yield
    finally:
        lib.Srp.generate_private_key = orig


class Step:
    """Outcome of sending one reply into a generator."""

    def __init__(self, kind, value=None, exc=None):
        self.kind, self.value, self.exc = kind, value, exc  # kind: 'request' | 'return' | 'raise'

    @property
    def label(self):
        if self.kind == "raise":
            return f"raise:{type(self.exc).__name__}"
        return self.kind


def send(gen, body, expected, style) -> Step:
    """Decode `body` like the transport and send it into the generator."""
    try:
        decoded = decode_style(body, expected, style) if body is not None else None
        nxt = gen.send(decoded)
        return Step("request", nxt)
    except StopIteration as s:
        return Step("return", s.value)
    except Exception as e:  # noqa: BLE001
        return Step("raise", exc=e)

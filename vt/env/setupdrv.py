"""One pair-setup run of the real generators against the reference accessory, step by step."""
from __future__ import annotations

from vt.env import pairdrv
from vt.ref import crypto as C
from vt.ref import hap, tlv8


class SetupRun:
    def __init__(self, seed, style, code="111-22-333", acc_code=None, ios_id="decc6fa3-de3e-41c9-adba-ef7409821bfc", acc_id=b"AA:BB:CC:DD:EE:FF", with_auth=True, srp=None):
        self.seed, self.style, self.code, self.ios_id = seed, style, code, ios_id
        self.ident = hap.Identity(seed, "acc", acc_id)
        self.other = hap.Identity(seed, "other", b"11:22:33:44:55:66")
        salt = C.det_bytes(seed, "salt", 16)
        b = int.from_bytes(C.det_bytes(seed, "srp-b", 32), "big")
        self.a = int.from_bytes(C.det_bytes(seed, "srp-a", 16), "big")
        if srp:  # directed SRP inputs (e.g. a mined exchange whose K / S / A / B starts with 0x00)
            salt, self.a, b = bytes.fromhex(srp["salt"]), int(srp["a"], 16), int(srp["b"], 16)
        self.acc = hap.SetupAccessory(self.ident, acc_code or code, salt, b)
        self.with_auth = with_auth
        self.gen1 = self.gen2 = None
        self.exp = None

    # -- part 1
    def start(self):
        from aiohomekit.protocol import perform_pair_setup_part1

        self.gen1 = perform_pair_setup_part1(self.with_auth)
        st = pairdrv.send(self.gen1, None, None, self.style)
        if st.kind == "request":
            self.exp = st.value[1]
            self.m1, _ = pairdrv.req_dict(st.value[0])
        return st

    def feed_m2(self, wire):
        return pairdrv.send(self.gen1, wire, self.exp, self.style)

    # -- part 2
    def start_part2(self, salt, pk):
        from aiohomekit.protocol import perform_pair_setup_part2

        with pairdrv.pinned_srp(self.a), pairdrv.pinned_keys(self.seed):
            self.gen2 = perform_pair_setup_part2(self.code, self.ios_id, salt, pk)
            st = pairdrv.send(self.gen2, None, None, self.style)
        if st.kind == "request":
            self.exp = st.value[1]
            self.m3, _ = pairdrv.req_dict(st.value[0])
        return st

    def feed(self, wire):
        with pairdrv.pinned_keys(self.seed):
            st = pairdrv.send(self.gen2, wire, self.exp, self.style)
        if st.kind == "request":
            self.exp = st.value[1]
            self.last_req, _ = pairdrv.req_dict(st.value[0])
        return st

    # -- convenience: honest run up to (and including) the request named
    def honest_until(self, upto):
        """upto in {'m1','m3','m5'}: returns the Step that yielded that request (or the failing Step)."""
        st = self.start()
        if upto == "m1" or st.kind != "request":
            return st
        st = self.feed_m2(tlv8.encode(self.acc.m2()))
        if st.kind != "return":
            return st
        salt, pk = st.value
        st = self.start_part2(salt, pk)
        if upto == "m3" or st.kind != "request":
            return st
        self.m4_items = self.acc.handle_m3(self.m3)
        st = self.feed(tlv8.encode(self.m4_items))
        if st.kind == "request":
            self.m5 = self.last_req
        return st

"""CoAP test rig: a real CoAPPairing / CoAPHomeKitConnection on the virtual loop talking to the reference CoAP accessory
through a fake aiocoap Context (replaced from outside as the module attribute the connection code looks up)."""
from __future__ import annotations

from vt import vloop
from vt.env import pairdrv
from vt.env.iprig import StubController
from vt.ref import coapacc


class _Resp:
    def __init__(self, code, payload):
        from aiocoap.numbers.codes import Code

        self.code = {"changed": Code.CHANGED, "notfound": Code.NOT_FOUND, "badreq": Code.BAD_REQUEST, "unauth": Code.UNAUTHORIZED, "unavail": Code.SERVICE_UNAVAILABLE}[code]
        self.payload = payload


class _Req:
    def __init__(self, fut):
        self.response = fut


class FakeContext:
    def __init__(self, rig, root=None):
        self.rig, self.root = rig, root
        self.shut = False
        self.requests = []

    def request(self, msg):
        fut = self.rig.loop.create_future()
        uri = msg.opt.uri_path
        path = "/" + "/".join(uri)
        self.requests.append((path, bytes(msg.payload)))
        code, payload = self.rig.acc.post(path, bytes(msg.payload))
        done = lambda: fut.done() or fut.set_result(_Resp(code, payload))  # noqa: E731
        if getattr(self.rig, "hold", False):
            self.rig.held.append(done)  # the answer is on its way: the harness decides when it arrives
        else:
            self.rig.loop.call_soon(done)
        return _Req(fut)

    async def shutdown(self):
        self.shut = True


class CoapRig:
    def __init__(self, seed=0, db=None):
        import aiohomekit.controller.coap.connection as conn_mod
        from aiohomekit.controller.coap.pairing import CoAPPairing

        self.loop = vloop.VirtualLoop().install()
        self._pin = pairdrv.pinned_keys(f"coaprig|{seed}")
        self._pin.__enter__()
        import random as _random

        self._rnd = _random.getstate()
        _random.seed(f"coaprig|{seed}")
        self.acc = coapacc.CoapAccessory(seed, db=db)
        self.contexts = []
        self.hold, self.held = False, []
        rig = self

        class Ctx:
            @staticmethod
            async def create_server_context(root, bind=None):
                c = FakeContext(rig, root)
                rig.contexts.append(c)
                return c

            @staticmethod
            async def create_client_context():
                c = FakeContext(rig)
                rig.contexts.append(c)
                return c

        self._mod, self._orig = conn_mod, conn_mod.Context
        conn_mod.Context = Ctx
        self.controller = StubController()
        self.pairing = CoAPPairing(self.controller, self.acc.pairing_data())
        self.closed = False

    def run(self, coro, horizon=600.0):
        return self.loop.run_coro(coro, horizon)

    def deliver_event(self, items):
        """Encrypted event PUT to the controller's event resource -> response code name."""
        from aiocoap.numbers.codes import Code

        res = self.contexts[-1].root._resources[()] if hasattr(self.contexts[-1].root, "_resources") else None
        if res is None:
            raise RuntimeError("event resource not registered")

        class R:
            payload = self.acc.event(items)

        m = self.run(res.render_put(R()))
        return m.code

    def close(self):
        if self.closed:
            return
        self.closed = True
        import random as _random

        try:
            self.loop.shutdown()
        finally:
            self._mod.Context = self._orig
            self._pin.__exit__(None, None, None)
            _random.setstate(self._rnd)

"""BLE test rig: a real BlePairing (loaded with a cached accessory database so that no GATT database fetch is needed)
talking to the reference BLE accessory through a duck-typed GATT client; establish_connection is replaced from outside."""
from __future__ import annotations

import asyncio

from vt import vloop
from vt.env import pairdrv
from vt.ref import bleacc


class Handle:
    def __init__(self, ch):
        self.iid = ch.iid
        self.uuid = ch.type
        self.handle = ch.iid
        self.properties = ["read", "write"]
        self.max_write_without_response_size = None

    def __hash__(self):
        return hash(self.iid)

    def __eq__(self, o):
        return isinstance(o, Handle) and o.iid == self.iid


class FakeBleClient:
    """Duck-typed AIOHomeKitBleakClient.  Every GATT operation passes through rig.gate() so that a harness can suspend,
    fail or alter it."""

    def __init__(self, rig, disconnected_callback):
        self.rig = rig
        self.acc = rig.acc
        self.is_connected = True
        self.address = "00:11:22:33:44:55"
        self._cb = disconnected_callback
        self.mtu = rig.mtu
        self.ops = []
        self.notifying = {}  # iid -> callback: characteristics this GATT connection has notifications enabled for

    async def get_characteristic(self, service_type, char_type, iid=None):
        for ch in self.acc.chars.values():
            if ch.type.lower() == char_type.lower() and (iid is None or ch.iid == iid or (ch.type == bleacc.CH_SVC_SIG and ch.svc_iid == iid)):
                return Handle(ch)  # (the service-signature characteristic is addressed by the instance id of its service)
        from aiohomekit.controller.ble.bleak import BleakCharacteristicMissing

        raise BleakCharacteristicMissing(f"{char_type} not found")

    async def get_characteristic_iid(self, handle):
        return handle.iid

    def determine_fragment_size(self, overhead, handle):
        return self.mtu - 3 - overhead

    async def write_gatt_char(self, handle, data, response):
        how = await self.rig.gate("write", handle.iid, bytes(data))
        if not self.is_connected:
            from bleak.exc import BleakError

            raise BleakError("Not connected")
        self.ops.append(("write", handle.iid, len(data)))
        self.acc.gatt_write(handle.iid, bytes(data))
        if how == "ack-lost":
            # the write reached the accessory, its acknowledgement did not reach us: the stack reports a failure while the link stays up
            from bleak.exc import BleakError

            raise BleakError("Write acknowledgement not received")

    async def read_gatt_char(self, handle):
        iid = handle.iid if isinstance(handle, Handle) else handle
        override = await self.rig.gate("read", iid, None)
        if isinstance(override, str) and override == "then-drop":
            # the read completes with the accessory's data and the accessory hangs up right after it
            data = self.acc.gatt_read(iid)
            self.ops.append(("read", iid, len(data)))
            self.peer_disconnect()
            return bytearray(data)
        if not self.is_connected:
            from bleak.exc import BleakError

            raise BleakError("Not connected")
        data = self.acc.gatt_read(iid) if override is None else override
        self.ops.append(("read", iid, len(data)))
        return bytearray(data)

    async def start_notify(self, handle, cb):
        await self.rig.gate("start_notify", handle.iid, None)
        fail = getattr(self.rig, "start_notify_fail", None)
        if fail and handle.iid in fail:
            raise fail.pop(handle.iid)  # this one CCCD write fails (the link stays up)
        if not self.is_connected:
            from bleak.exc import BleakError

            raise BleakError("Not connected")
        self.rig.notify[handle.iid] = cb
        self.notifying[handle.iid] = cb

    async def clear_cache(self):
        pass

    async def disconnect(self):
        if self.is_connected and getattr(self.rig, "gate_disconnect", False):
            await self.rig.gate("disconnect", 0, None)  # the GATT disconnect takes its time too: other operations may complete first
        if self.is_connected:
            self.is_connected = False
            self.rig.links_closed += 1
            self.acc.reset_link()
            self._cb(self)

    def peer_disconnect(self):
        """The accessory / radio drops the link."""
        if self.is_connected:
            self.is_connected = False
            self.rig.links_closed += 1
            self.acc.reset_link()
            self._cb(self)


class BleRig:
    def __init__(self, seed=0, mtu=158, gated=False, chars=None, load=True, bkey=None, gsn=None, acc_id=None, ev_flags=()):
        from aiohomekit.characteristic_cache import CharacteristicCacheMemory
        from aiohomekit.controller.ble import pairing as ble_pairing
        from aiohomekit.controller.ble.controller import BleController

        self.seed = seed
        self.mtu = mtu
        self.loop = vloop.VirtualLoop().install()
        self._pin = pairdrv.pinned_keys(f"blerig|{seed}")
        self._pin.__enter__()
        self.acc = bleacc.BleAccessory(seed, chars=chars, **({"acc_id": acc_id} if acc_id else {}))
        if gsn is not None:
            self.acc.gsn = gsn
        self.clients = []
        self.links_closed = 0
        self.notify = {}
        self.gated = gated
        self.waiting = []  # (future, kind, iid, data) GATT operations suspended at the gate
        self.connect_fail = None
        self._mod = ble_pairing
        self._orig = ble_pairing.establish_connection
        ble_pairing.establish_connection = self._establish
        import random as _random

        self._rnd_state = _random.getstate()
        _random.seed(f"blerig|{seed}")
        cache = CharacteristicCacheMemory()
        pd = self.acc.pairing_data()
        if load:
            amap = bleacc.accessories_json(self.acc.chars.values())
            for svc in amap[0]["services"]:
                for ch in svc["characteristics"]:
                    if ch["iid"] in ev_flags:
                        # the cached entity map knows (from the characteristic signature read at pairing time) that the accessory reports
                        # changes of this one by broadcast and while disconnected: a catch-up poll reads it and tells the listeners
                        ch["broadcast_events"] = ch["disconnected_events"] = True
            cache.async_create_or_update_map(pd["AccessoryPairingID"], self.acc.cn, amap, bkey.hex() if bkey else None, self.acc.gsn)
        self.controller = BleController(cache)
        self.pairing = self.controller.load_pairing("alias", pd)
        from bleak.backends.device import BLEDevice

        self.pairing.device = BLEDevice("00:11:22:33:44:55", "Acc", {})
        self.closed = False

    async def _establish(self, device, name, disconnected_callback, **kw):
        await asyncio.sleep(0)
        if getattr(self, "hold_connect", False):
            # the connection attempt takes its time: the harness decides when (and how) it ends
            fut = self.loop.create_future()
            self.connecting = getattr(self, "connecting", []) + [fut]
            await fut
        if self.connect_fail:
            raise self.connect_fail
        self.acc.reset_link()
        c = FakeBleClient(self, disconnected_callback)
        self.clients.append(c)
        return c

    async def gate(self, kind, iid, data):
        if not self.gated:
            await asyncio.sleep(0)
            return None
        fut = self.loop.create_future()
        self.waiting.append((fut, kind, iid, data))
        return await fut

    def release(self, override=None, exc=None):
        fut, kind, iid, data = self.waiting.pop(0)
        if fut.done():
            return kind
        if exc is not None:
            fut.set_exception(exc)
        else:
            fut.set_result(override)
        return kind

    def run(self, coro, horizon=600.0):
        return self.loop.run_coro(coro, horizon)

    @property
    def client(self):
        return self.clients[-1] if self.clients else None

    def close(self):
        if self.closed:
            return
        self.closed = True
        import random as _random

        try:
            self.loop.shutdown()
        finally:
            self._mod.establish_connection = self._orig
            self._pin.__exit__(None, None, None)
            _random.setstate(self._rnd_state)

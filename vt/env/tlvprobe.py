"""Synthetic structured-TLV8 message types for C16: one field of every type the codec supports (the package's own
message types never use u64, and only fixed-size items inside lists), built on the *library's* TLVStruct/tlv_entry so
that the library's per-type serializers are the code under test.

NOTE: no `from __future__ import annotations` here — the library reads dataclass field types as objects.
"""
import enum
from collections.abc import Sequence
from dataclasses import dataclass

from aiohomekit.tlv8 import TLVStruct, bu16, tlv_entry, u8, u16, u32, u64, u128


class ProbeEnum(enum.IntEnum):
    ZERO = 0
    ONE = 1
    MID = 128
    LAST = 255


@dataclass
class ProbeLeaf(TLVStruct):
    blob: bytes = tlv_entry(1)
    n: u8 = tlv_entry(2)
    text: str = tlv_entry(3)


@dataclass
class ProbeAll(TLVStruct):
    a8: u8 = tlv_entry(1)
    a16: u16 = tlv_entry(2)
    b16: bu16 = tlv_entry(3)
    a32: u32 = tlv_entry(4)
    a64: u64 = tlv_entry(5)
    a128: u128 = tlv_entry(6)
    text: str = tlv_entry(7)
    blob: bytes = tlv_entry(8)
    choice: ProbeEnum = tlv_entry(9)
    leaf: ProbeLeaf = tlv_entry(10)
    leaves: Sequence[ProbeLeaf] = tlv_entry(11)
    more: Sequence[ProbeLeaf] = tlv_entry(12)
    tail: u8 = tlv_entry(13)


@dataclass
class ProbeOuter(TLVStruct):
    items: Sequence[ProbeAll] = tlv_entry(1)
    tail: bytes = tlv_entry(2)


PROBES = [ProbeLeaf, ProbeAll, ProbeOuter]

"""Synthetic structured-TLV8 message types for C16: one field of every type the codec supports (the package's own
message types never use u64, and only fixed-size items inside lists), built on the *library's* TLVStruct/tlv_entry so
that the library's per-type serializers are the code under test.

NOTE: no `from __future__ import annotations` here — the library reads dataclass field types as objects.
"""
import enum
import typing
from collections.abc import Sequence
from dataclasses import dataclass

from aiohomekit.tlv8 import TLVStruct, bu16, tlv_entry, u8, u16, u32, u64, u128


class ProbeEnum(enum.IntEnum):
    ZERO = 0
    ONE = 1
    MID = 128
    LAST = 255


@dataclass
class ProbeLeaf(TLVStruct):
    blob: bytes = tlv_entry(1)
    n: u8 = tlv_entry(2)
    text: str = tlv_entry(3)


@dataclass
class ProbeAll(TLVStruct):
    a8: u8 = tlv_entry(1)
    a16: u16 = tlv_entry(2)
    b16: bu16 = tlv_entry(3)
    a32: u32 = tlv_entry(4)
    a64: u64 = tlv_entry(5)
    a128: u128 = tlv_entry(6)
    text: str = tlv_entry(7)
    blob: bytes = tlv_entry(8)
    choice: ProbeEnum = tlv_entry(9)
    leaf: ProbeLeaf = tlv_entry(10)
    leaves: Sequence[ProbeLeaf] = tlv_entry(11)
    more: Sequence[ProbeLeaf] = tlv_entry(12)
    tail: u8 = tlv_entry(13)


@dataclass
class ProbeOuter(TLVStruct):
    items: Sequence[ProbeAll] = tlv_entry(1)
    tail: bytes = tlv_entry(2)


@dataclass
class ProbeTypingSeq(TLVStruct):
    """the list field spelled with typing.Sequence[...] (what older code and other packages write); the codec documents both spellings"""

    head: u8 = tlv_entry(1)
    leaves: typing.Sequence[ProbeLeaf] = tlv_entry(2)  # noqa: UP006
    tail: bytes = tlv_entry(3)


@dataclass
class ProbeDerived(ProbeLeaf):
    """a message type that extends another one by a field (a request extended with a TTL, say)"""

    ttl: u16 = tlv_entry(4)
    note: str = tlv_entry(5)


def fresh_family():
    """-> (Base, Derived, Sibling): brand-new classes on every call (nothing the codec memoised about earlier ones can apply), so that a
    history 'which of them was used first' starts from scratch each time."""

    @dataclass
    class FamBase(TLVStruct):
        blob: bytes = tlv_entry(1)
        n: u8 = tlv_entry(2)

    @dataclass
    class FamDerived(FamBase):
        ttl: u16 = tlv_entry(3)
        text: str = tlv_entry(4)

    @dataclass
    class FamSibling(FamBase):
        # the same field ids as FamDerived, other types
        flag: u8 = tlv_entry(3)
        more: bytes = tlv_entry(4)

    return FamBase, FamDerived, FamSibling


PROBES = [ProbeLeaf, ProbeAll, ProbeOuter, ProbeTypingSeq, ProbeDerived]

"""IP test rig: a real IpPairing / SecureHomeKitConnection on a VirtualLoop talking to the reference accessory
through the simulated network."""
from __future__ import annotations

from vt import vloop
from vt.env import pairdrv
from vt.ref import ipacc


class StubController:
    def __init__(self):
        from aiohomekit.characteristic_cache import CharacteristicCacheMemory

        self._char_cache = CharacteristicCacheMemory()
        self.pairings = {}
        self.aliases = {}
        self.discoveries = {}


ACCESSORIES_JSON = {
    "accessories": [
        {
            "aid": 1,
            "services": [
                {"iid": 1, "type": "3E", "characteristics": [
                    {"iid": 2, "type": "23", "perms": ["pr"], "format": "string", "value": "Acc"},
                    {"iid": 3, "type": "14", "perms": ["pw"], "format": "bool"},
                ]},
                {"iid": 8, "type": "43", "characteristics": [
                    {"iid": 9, "type": "25", "perms": ["pr", "pw", "ev"], "format": "bool", "value": False},
                    {"iid": 10, "type": "8", "perms": ["pr", "pw", "ev"], "format": "int", "value": 50, "minValue": 0, "maxValue": 100, "minStep": 1},
                    {"iid": 11, "type": "13", "perms": ["pw", "tw"], "format": "float", "minValue": 0, "maxValue": 360},
                    {"iid": 12, "type": "2F", "perms": ["pw"], "format": "int"},
                ]},
            ],
        },
        {
            "aid": 2,
            "services": [
                {"iid": 1, "type": "3E", "characteristics": [{"iid": 2, "type": "23", "perms": ["pr"], "format": "string", "value": "Sub"}]},
                {"iid": 8, "type": "43", "characteristics": [
                    {"iid": 9, "type": "25", "perms": ["pr", "pw", "ev"], "format": "bool", "value": True},
                    {"iid": 10, "type": "8", "perms": ["pr", "pw", "ev"], "format": "int", "value": 5},
                ]},
            ],
        },
    ]
}


class IpRig:
    def __init__(self, seed=0, hosts=("127.0.0.1",), port=51826, auto=True, secure_cls=None, env=None):
        """env: environment dimensions every oracle must be indifferent to: dict(delivery=None|'bytes'|'3/4'|'head1' (how a delivery is cut into
        reads), frames=[sizes] (the accessory's encrypted block sizes), http=<ipacc.HTTP_STYLES member> (legal spelling of its HTTP messages))."""
        self.seed = seed
        self.loop = vloop.VirtualLoop().install()
        self.net = vloop.SimNet(self.loop)
        env = env or {}
        self.net.delivery = env.get("delivery")
        self._patch = vloop.patched_network(self.net)
        self._patch.__enter__()
        self._pin = pairdrv.pinned_keys(f"rig|{seed}")
        self._pin.__enter__()
        self.acc = ipacc.Accessory(seed)
        if env.get("frames"):
            self.acc.frame_sizes = list(env["frames"])
        if env.get("http"):
            self.acc.http_style = env["http"]
        self.sessions = {}
        self.auto_deliver = auto
        self.outbox = []  # (conn, wire) when not auto-delivering
        self.delivered = []
        orig_accept = self.net.accept

        def accept(att, host=None):
            conn = orig_accept(att, host)
            self.wire(conn)
            return conn

        self.net.accept = accept
        if auto:
            self.net.auto = lambda att: ("ok", att["hosts"][0])
        from aiohomekit.controller.ip.pairing import IpPairing

        self.controller = StubController()
        self.pairing = IpPairing(self.controller, self.acc.pairing_data(hosts, port))
        self.conn = self.pairing.connection
        self.events = []
        self.closed = False

    def wire(self, conn):
        sess = self.acc.new_session()
        self.sessions[conn.cid] = sess
        conn.session = sess

        def handler(c, data):
            for out in sess.feed(data):
                if self.auto_deliver:
                    self.loop.call_soon(self._deliver, c, out)
                else:
                    self.outbox.append((c, out))

        conn.handler = handler

    def _deliver(self, conn, data):
        self.delivered.append((conn.cid, len(data)))
        conn.send(data)

    def run(self, coro, horizon=600.0):
        return self.loop.run_coro(coro, horizon)

    def connect(self):
        self.run(self.pairing._ensure_connected())
        return self.net.conns[-1]

    def close(self):
        if self.closed:
            return
        self.closed = True
        try:
            self.loop.shutdown()
        finally:
            self._pin.__exit__(None, None, None)
            self._patch.__exit__(None, None, None)


def std_handler(script=None):
    """Application handler serving /accessories and scripted /characteristics replies."""
    import json

    script = script or {}

    def handler(sess, method, target, headers, body):
        if target == "/accessories":
            return 200, json.dumps(ACCESSORIES_JSON, separators=(",", ":")).encode(), "application/hap+json"
        key = (method, target.split("?")[0])
        if key in script:
            r = script[key]
            return r(sess, method, target, headers, body) if callable(r) else r
        if key == ("PUT", "/characteristics"):
            return 204, b"", None
        if key == ("GET", "/characteristics"):
            ids = target.split("id=")[1].split(",")
            return 200, json.dumps({"characteristics": [{"aid": int(i.split(".")[0]), "iid": int(i.split(".")[1]), "value": 1} for i in ids]}).encode(), "application/hap+json"
        return 404, b"", "application/hap+json"

    return handler

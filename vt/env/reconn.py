"""Shared E1 harness for C10 (reconnection discipline) and C11 (one connection, no leaks): a real IpPairing +
SecureHomeKitConnection against the simulated network; every connection round's outcome, every trigger and every
timer firing is an explorer choice.  Deviation-bounded: index 0 is always the default (refuse / fire next timer)."""
from __future__ import annotations

import asyncio

from vt import explore
from vt.env.iprig import IpRig, std_handler

BEHAVIOURS = ["ok", "close-m1", "http-400", "wrong-id", "bad-sig", "auth-error", "garbage", "m4-auth-error", "close-m3", "busy-error", "http-470", "ok-bad-subscribe-reply", "ok-close-on-subscribe", "ok-reset-on-subscribe", "ok+slow-close"]  # "mute" / "mute-m3" (a silent accessory) exist too but are named explicitly by the configurations that want them: the retry-gap oracle measures between attempt STARTS and an attempt against a silent accessory lasts 30 s


def mk_description(hosts, port=51826, c=1, s=1, acc_id="aa:bb:cc:dd:ee:ff"):
    from aiohomekit.model import Categories
    from aiohomekit.model.feature_flags import FeatureFlags
    from aiohomekit.model.status_flags import StatusFlags
    from aiohomekit.zeroconf import HomeKitService

    return HomeKitService(
        name="Acc", id=acc_id, model="m", feature_flags=FeatureFlags(0), status_flags=StatusFlags(0), config_num=c, state_num=s,
        category=Categories(1), protocol_version="1.0", type="_hap._tcp.local.", address=hosts[0], addresses=list(hosts), port=port,
    )


class ReconnH(explore.Harness):
    def __init__(self, p):
        self.p = p
        self.hosts = list(p["hosts"])
        self.rig = IpRig(seed=p.get("seed", 0), hosts=self.hosts, auto=False, env=p.get("env"))
        self.rig.auto_deliver = True
        self.loop, self.net, self.pairing, self.conn = self.rig.loop, self.rig.net, self.rig.pairing, self.rig.conn
        def _bad_sub(sess, method, target, headers, body):
            if getattr(sess, "bad_subscribe", False):
                return 207, b'{"characteristics":[{"aid":1,"iid":9}]}', "application/hap+json"
            unsub = getattr(sess, "on_unsubscribe", None)
            if unsub and b'"ev":false' in body.replace(b" ", b""):
                # a request that turns events OFF (what a tidy close might send first) meets a peer that resets / closes / stays silent
                conn = next(c for c in self.net.conns if getattr(c, "session", None) is sess)
                if unsub != "mute":
                    self.loop.call_soon(conn.peer_reset if unsub == "reset" else conn.peer_close)
                return None
            if getattr(sess, "close_on_subscribe", False):
                # the peer goes away instead of answering the re-subscription that connection_made(True) sends
                conn = next(c for c in self.net.conns if getattr(c, "session", None) is sess)
                self.loop.call_soon(conn.peer_reset if sess.close_on_subscribe == "reset" else conn.peer_close)
                return None
            if getattr(self, "mute_app", False) and b'"ev"' not in body:
                return None  # the accessory is busy / hung: application writes get no answer (for now)
            if self.garble_next and b'"ev"' not in body:
                # a 2xx reply whose body is not what it claims to be (not JSON / not UTF-8): the controller gives the connection up
                kind, self.garble_next = self.garble_next, None
                return 200, {"not-json": b"<html>busy</html>", "not-utf8": b"\xff\xfe{}", "truncated-json": b'{"characteristics":[{"aid":1,'}[kind], "application/hap+json"
            return 204, b"", None

        self.garble_next = None
        self.app_tasks = []
        self.cur_port = 51826
        self.port_changed_at = None
        def _acc_list(sess, method, target, headers, body):
            if getattr(self, "mute_list", False):
                return None  # (a big bridge takes its time rendering the database)
            return std_handler()(sess, method, target, headers, body)

        inner = std_handler({("PUT", "/characteristics"): _bad_sub})
        self.rig.acc.handler = lambda sess, method, target, headers, body: _acc_list(sess, method, target, headers, body) if target == "/accessories" else inner(sess, method, target, headers, body)
        self.alphabet = p.get("behaviours", BEHAVIOURS)
        self.triggers = p.get("triggers", ["zc-same", "zc-changed", "ensure", "ensure-t3", "cancel-ensure", "close", "shutdown", "drop", "drop-old", "late-lost"])
        self.max_attempts = p.get("rounds", 16)
        self.max_time = p.get("max_time", 400.0)
        self.deviations = 0
        self.idles = 0
        self.env_marks = []
        self.model_excluded = set()
        self.model_excluded_lazy = set()
        self.lazy_clear_pending = False
        self.prev_hosts = []
        self.n_closes = 0
        self.round_open = False
        self.viol = []
        self.callers = []  # dict(task, t0, kind)
        self.trigger_times = []
        self.closed_at = None
        self.shutdown_at = None
        self.close_tasks = []
        self.alt_hosts = list(p.get("alt_hosts", ["10.9.9.1", "10.9.9.2"]))
        self.cur_hosts = list(self.hosts)
        if p.get("with_description", True):
            self.pairing.description = mk_description(self.hosts)
        if p.get("subscriptions"):
            self.pairing.subscriptions.update({(1, 9)})
        if p.get("damage"):
            # the stored pairing record is damaged (a truncated / non-hex long-term key, a field missing): every secure-session setup fails on
            # the controller's side, whatever the accessory answers
            field, how = p["damage"]
            pd = self.pairing.pairing_data
            if how == "missing":
                pd.pop(field, None)
            else:
                pd[field] = {"odd": pd[field][:-1], "nonhex": "zz" + pd[field][2:], "short": pd[field][:20], "empty": ""}[how]
        self.connector_ids = []
        self.events = []  # (time, kind, info) harness-side log of rounds
        self.auth_failed_at = None
        self._start_ensure("ensure")
        self.loop.run_until_idle()
        self._observe()
        # prelude: start the exploration from a non-initial state (labels, not counted as deviations)
        for label in p.get("prelude", []):
            m = self.menu()
            if label not in m and not (label.startswith("ok|") and self._pending_att()):
                raise RuntimeError(f"prelude step {label!r} not enabled: {m}")
            self.take_label(label, deviation=False)
        self.deviations = 0
        self.max_attempts += len(self.net.attempts)

    # ---------------------------------------------------------------- helpers
    def _start_ensure(self, kind):
        async def call():
            if kind == "ensure-t3":
                async with asyncio.timeout(3):
                    await self.pairing._ensure_connected()
            else:
                await self.pairing._ensure_connected()

        self.callers.append(dict(task=self.loop.create_task(call()), t0=self.loop.time(), kind=kind, cancelled_by_harness=False))

    def _pending_att(self):
        return [a for a in self.net.pending() if not a.get("hang")]

    def _wire_fault(self, conn, beh):
        sess = conn.session
        if beh.endswith("+slow-close"):
            conn.slow_close = True  # when the controller closes this connection, connection_lost arrives late (explorer decides when)
            beh = beh[: -len("+slow-close")]
        if beh in ("wrong-id", "bad-sig", "auth-error", "garbage", "m4-auth-error", "busy-error", "http-400", "http-470", "bad-tag", "short-key"):
            sess.fault = beh
        elif beh == "ok-close-on-subscribe":
            sess.close_on_subscribe = True
        elif beh == "ok-reset-on-subscribe":
            sess.close_on_subscribe = "reset"  # connection reset (no EOF first): connection_lost(exc) is the first the protocol hears of it
        elif beh in ("ok-reset-on-unsubscribe", "ok-close-on-unsubscribe", "ok-mute-on-unsubscribe"):
            sess.on_unsubscribe = beh.split("-")[1]
        elif beh == "ok-bad-subscribe-reply":
            # secure session is fine, but the reply to the re-subscription is malformed (a 207 whose entry has no status): whatever
            # connection_made(True) does with it, the connection must not be leaked
            sess.bad_subscribe = True
        elif beh in ("mute", "mute-m3"):
            # the accessory accepts the connection and then says nothing (crashed, rebooting): the request of the secure-session setup stays in
            # flight until its 30 s timer, a close(), or a reset ends it
            n_ok = 0 if beh == "mute" else 1
            orig = conn.handler

            def handler(c, data, orig=orig, n_ok=n_ok):
                sess.nreq += 1
                if sess.nreq > n_ok:
                    return
                orig(c, data)

            conn.handler = handler
        elif beh in ("close-m1", "close-m3"):
            n_needed = 1 if beh == "close-m1" else 2
            orig = conn.handler

            def handler(c, data, orig=orig, n_needed=n_needed):
                sess.nreq += 1
                if sess.nreq >= n_needed:
                    self.loop.call_soon(c.peer_close)
                    return
                orig(c, data)

            conn.handler = handler
        conn.behaviour = beh

    def menu(self):
        if len(self.net.attempts) >= self.max_attempts or self.loop.time() > self.max_time:
            return []
        m = []
        pend = self._pending_att()
        if pend:
            att = pend[0]
            m.append("refuse")
            m.append("hang")
            for h in att["hosts"]:
                for b in self.alphabet:
                    m.append(f"ok|{h}|{b}")
            if "accept+close" in self.triggers and self.n_closes == 0:
                # the attempt succeeds and the application closes the pairing k loop iterations later: while the secure session is being set
                # up, just when the connector finishes, before / after the waiting caller is resumed
                for what in ("close", "shutdown"):
                    for k_ in range(1, self.p.get("accept_close_span", 40) + 1):
                        m.append(f"accept+{what}@{k_}")
        else:
            if self.loop.next_timer() is None:
                # nothing will ever happen on defaults; triggers only (two idle periods of 50 s, then the execution ends)
                if self.idles >= 2:
                    return []
                m.append("idle")
            else:
                m.append("timer")
        for t in self.triggers:
            if t == "drop":
                if self._current_conn() is not None:
                    m.append("drop")
            elif t == "drop-old":
                cur = self._current_conn()
                for c in self.net.conns:
                    if c is not cur and c.peer_open and c.transport is not None:
                        m.append(f"drop-old|{c.cid}")
            elif t == "late-lost":
                for c in self.net.conns:
                    if c.transport is not None and getattr(c.transport, "_lost_pending", False):
                        m.append(f"late-lost|{c.cid}")
            elif t == "cancel-ensure":
                if any(not c["task"].done() for c in self.callers):
                    m.append("cancel-ensure")
            elif t in ("close", "shutdown"):
                if self.n_closes < 2:  # closing twice (application close, then controller shutdown) is ordinary use
                    m.append(t)
                    if self.n_closes == 0 and self.p.get("preemptive_triggers", True):
                        # a trigger that lands while close()/shutdown() is still running (k loop iterations after it started)
                        for trig in ("zc-same", "ensure"):
                            for k in (1, 2):
                                m.append(f"{t}+{trig}@{k}")
            elif t in ("close+rst", "shutdown+rst"):
                # close()/shutdown() while the peer's RST for the connection in use (or being set up) sits in the kernel, not yet seen by the loop
                if self.n_closes == 0 and any(c.client_open and c.peer_open and c.transport is not None for c in self.net.conns):
                    m.append(t)
            elif t == "drop+close":
                # the peer closes / resets the connection in use and the application closes the pairing k loop iterations later (code that
                # reacts to the same disconnect, a task that was already runnable)
                if self.n_closes == 0 and self._current_conn() is not None:
                    for how in ("drop", "reset"):
                        for what in ("close", "shutdown"):
                            for k in (0, 1, 2, 3):
                                m.append(f"{how}+{what}@{k}")
            elif t == "double-nudge":
                # two reconnect nudges k loop iterations apart (two announcements in a burst, an announcement racing a caller)
                for second in ("zc-same", "ensure"):
                    for k in (0, 1, 2):
                        m.append(f"zc-same+{second}@{k}")
            elif t == "list-req":
                # the application (or the library's own configuration-change task) lists the accessory database; the answer takes its time
                if self.pairing.is_connected and len(self.app_tasks) < 1:
                    m.append(t)
            elif t == "app-req":
                # an application write that the accessory leaves unanswered: it sits on the wire (or queues behind the one that does)
                if self.pairing.is_connected and len(self.app_tasks) < 2:
                    m.append(t)
            elif t.startswith("put-garbled"):
                # an application write on the idle, connected session that the accessory answers with a garbled 2xx reply
                if self._current_conn() is not None and self.pairing.is_connected and not self.garble_next and len(self.app_tasks) < 2:
                    m.append(t)
            elif t == "zc-changed-last":
                if len(self.cur_hosts) > 1:
                    m.append(t)  # the LAST advertised address is replaced: the new set overlaps the old one in a different member
            elif t == "accept+close":
                pass  # (offered next to the outcomes of a pending attempt, above)
            else:
                m.append(t)
        return m

    def is_deviation(self, i, label):
        return i != 0

    def _current_conn(self):
        tr = self.conn.transport
        if tr is None:
            return None
        for c in self.net.conns:
            if c.transport is tr:
                return c
        return None

    def take(self, i):
        m = self.menu()
        self.take_label(m[i], deviation=i != 0)

    def take_label(self, label, deviation=True):
        if deviation:
            self.deviations += 1
        parts = label.split("|")
        k = parts[0]
        now = self.loop.time()
        if k == "refuse":
            self.net.refuse(self._pending_att()[0])
        elif k == "hang":
            self._pending_att()[0]["hang"] = True
        elif k == "ok":
            att = self._pending_att()[0]
            conn = self.net.accept(att, parts[1])
            self._wire_fault(conn, parts[2])
            self.round_open = False
            if parts[2] == "wrong-id":
                # two admissible models of when an address change clears the exclusions: at once (eager) or when the next round
                # starts (lazy, what the code does); only what BOTH models call eligible is demanded
                for m_ in (self.model_excluded, self.model_excluded_lazy):
                    m_.add(parts[1])
                    if m_ >= set(self.cur_hosts):
                        m_.clear()  # every advertised address excluded: the next round must try the full list
        elif k.startswith("accept+"):
            what, _, n = k[len("accept+"):].partition("@")
            att = self._pending_att()[0]
            conn = self.net.accept(att, att["hosts"][0])
            self._wire_fault(conn, "ok")
            self.round_open = False
            for _ in range(int(n)):
                if self.loop.has_ready():
                    self.loop.run_batch()
            self.n_closes += 1
            self.closed_at = now
            if what == "shutdown":
                self.shutdown_at = now
            self.close_tasks.append(self.loop.create_task(self.pairing.shutdown() if what == "shutdown" else self.pairing.close()))
        elif k == "timer":
            self.loop.fire_next_timer()
        elif k == "idle":
            self.idles += 1
            self.loop._vtime += 50.0
        elif k == "zc-port":
            # the accessory (a software bridge) restarted on another port of the same addresses
            self.cur_port += 1
            self.port_changed_at = (len(self.net.attempts), now)
            self.trigger_times.append((now, "zc-port"))
            self.pairing._async_description_update(mk_description(self.cur_hosts, port=self.cur_port, s=len(self.trigger_times) + 1))
        elif k in ("zc-same", "zc-changed", "zc-changed-last"):
            if k != "zc-same":
                if self.alt_hosts:
                    self.prev_hosts = list(self.cur_hosts)
                    self.cur_hosts = ([self.alt_hosts.pop(0)] + self.cur_hosts[1:]) if k == "zc-changed" else (self.cur_hosts[:-1] + [self.alt_hosts.pop(0)])
                    self.model_excluded.clear()  # a changed address set makes every advertised address eligible again (eager model)
                    self.lazy_clear_pending = True
                    self.hosts_changed_at = len(self.net.attempts)
            self.trigger_times.append((now, k))
            self.pairing._async_description_update(mk_description(self.cur_hosts, port=self.cur_port, s=len(self.trigger_times) + 1))
        elif k in ("ensure", "ensure-t3"):
            self.trigger_times.append((now, k))
            self._start_ensure(k)
        elif k == "cancel-ensure":
            c = next(c for c in self.callers if not c["task"].done())
            c["cancelled_by_harness"] = True
            c["task"].cancel()
        elif k.startswith("drop+") or k.startswith("reset+"):
            how, _, rest = k.partition("+")
            what, _, n = rest.partition("@")
            c = self._current_conn()
            self.env_marks.append((now, "drop"))
            (c.peer_close if how == "drop" else c.peer_reset)()
            for _ in range(int(n)):
                if self.loop.has_ready():
                    self.loop.run_batch()
            self.n_closes += 1
            self.closed_at = now
            if what == "shutdown":
                self.shutdown_at = now
            self.close_tasks.append(self.loop.create_task(self.pairing.shutdown() if what == "shutdown" else self.pairing.close()))
        elif k in ("close+rst", "shutdown+rst"):
            c = [c for c in self.net.conns if c.client_open and c.peer_open and c.transport is not None][-1]
            c.peer_reset_arrives()
            self.env_marks.append((now, "drop"))
            self.n_closes += 1
            self.closed_at = now
            if k.startswith("shutdown"):
                self.shutdown_at = now
            self.close_tasks.append(self.loop.create_task(self.pairing.shutdown() if k.startswith("shutdown") else self.pairing.close()))
            for _ in range(2):
                if self.loop.has_ready():
                    self.loop.run_batch()
            c.peer_reset()  # the loop's next poll sees the reset
        elif k.startswith("close") or k.startswith("shutdown"):
            base, _, rest = k.partition("+")
            self.n_closes += 1
            self.closed_at = now
            if base == "shutdown":
                self.shutdown_at = now
            self.close_tasks.append(self.loop.create_task(self.pairing.shutdown() if base == "shutdown" else self.pairing.close()))
            if rest:
                trig, _, n = rest.partition("@")
                for _ in range(int(n)):
                    if self.loop.has_ready():
                        self.loop.run_batch()
                # the trigger arrives while the close is in progress; it is issued *after* the close call, so for the property it is
                # "after close": with shutdown() nothing may start any more, with close() it counts as a later explicit trigger
                self.trigger_times.append((now, trig))
                self.trigger_after_close = True
                if trig == "zc-same":
                    self.pairing._async_description_update(mk_description(self.cur_hosts, port=self.cur_port, s=len(self.trigger_times) + 1))
                else:
                    self._start_ensure("ensure")
        elif k.startswith("zc-same+"):
            second, _, n = k.partition("+")[2].partition("@")
            self.trigger_times.append((now, "zc-same"))
            self.pairing._async_description_update(mk_description(self.cur_hosts, port=self.cur_port, s=len(self.trigger_times) + 1))
            for _ in range(int(n)):
                if self.loop.has_ready():
                    self.loop.run_batch()
            self.trigger_times.append((now, second))
            if second == "zc-same":
                self.pairing._async_description_update(mk_description(self.cur_hosts, port=self.cur_port, s=len(self.trigger_times) + 1))
            else:
                self._start_ensure("ensure")
        elif k == "list-req":
            self.mute_list = True
            self.app_tasks.append(self.loop.create_task(self.pairing.list_accessories_and_characteristics()))
        elif k == "app-req":
            self.mute_app = True
            self.trigger_times.append((now, "app-req"))
            cc = self._current_conn()
            self.app_req_conns = getattr(self, "app_req_conns", []) + [(cc.cid if cc else None, len(self.net.attempts))]
            self.app_tasks.append(self.loop.create_task(self.pairing.put_characteristics([(1, 9, True)])))
        elif k.startswith("put-garbled"):
            self.garble_next = k.partition(":")[2] or "not-json"
            self.env_marks.append((now, "drop"))  # for the schedule oracle this is a loss of the connection at this instant
            self.app_tasks.append(self.loop.create_task(self.pairing.put_characteristics([(1, 9, True)])))
        elif k == "drop":
            self.env_marks.append((now, "drop"))
            self._current_conn().peer_close()
        elif k == "late-lost":
            c = self.net.conns[int(parts[1])]
            self.env_marks.append((now, "late-lost"))
            before = (bool(self.pairing.is_connected), self.conn.transport)
            c.transport.complete_close()
            self.loop.run_until_idle()
            after = (bool(self.pairing.is_connected), self.conn.transport)
            if before[0] != after[0] or before[1] is not after[1]:
                self.viol.append(("c11:loss-of-abandoned-connection-disturbs-current", {"cid": c.cid, "before_connected": before[0], "after_connected": after[0], "late": True, "t": now}))
        elif k == "drop-old":
            c = self.net.conns[int(parts[1])]
            self.env_marks.append((now, "drop-old"))
            before = (self.pairing.is_connected, self.conn.transport)
            c.peer_close()
            self.loop.run_until_idle()
            after = (self.pairing.is_connected, self.conn.transport)
            if bool(before[0]) != bool(after[0]) or before[1] is not after[1]:
                self.viol.append(("c11:loss-of-abandoned-connection-disturbs-current", {"cid": c.cid, "before_connected": bool(before[0]), "after_connected": bool(after[0]), "t": now}))
        self.loop.run_until_idle()
        self._observe()

    # ---------------------------------------------------------------- invariants checked after every step (quiescent states)
    def _observe(self):
        now = self.loop.time()
        if self.conn._connector is not None and (not self.connector_ids or self.connector_ids[-1][0] is not self.conn._connector):
            self.connector_ids.append((self.conn._connector, now, len(self.net.attempts)))
        # C10: at most one connector / one pending attempt
        recon = [t for t in asyncio.all_tasks(self.loop) if not t.done() and getattr(t.get_coro(), "__qualname__", "").endswith("_reconnect")]
        if len(recon) > 1:
            self.viol.append(("c10:more-than-one-connector-task", {"n": len(recon), "t": now}))
        if len(self.net.pending()) > 1:
            self.viol.append(("c10:more-than-one-connection-attempt-in-progress", {"n": len(self.net.pending()), "t": now}))
        # C11: at most one open connection; if connected it is the current one
        opened = self.net.open_conns()
        cur = self._current_conn()
        if len(opened) > 1:
            self.viol.append(("c11:more-than-one-open-connection", {"open": [(c.cid, getattr(c, "behaviour", "?")) for c in opened], "t": now}))
        if self.pairing.is_connected and opened and (cur is None or opened[0] is not cur):
            self.viol.append(("c11:connected-but-open-connection-is-not-the-current-one", {"open": [c.cid for c in opened], "t": now}))
        # "connected" means: a session the accessory has verified.  A pairing that reports connected while the accessory on the current connection
        # has not (yet) accepted a pair-verify M3 lets callers send their requests in the clear on an unauthenticated connection
        sess_cur = getattr(cur, "session", None) if cur is not None else None
        if self.pairing.is_connected and sess_cur is not None and not sess_cur.verified:
            self.viol.append(("c01:reports-connected-on-a-connection-whose-pair-verify-has-not-completed", {"cid": cur.cid, "behaviour": getattr(cur, "behaviour", "?"), "t": now}))
        for c in self.net.conns:
            sess = getattr(c, "session", None)
            if sess is None or getattr(c, "plain_checked", 0) == len(sess.requests):
                continue
            for r in sess.requests[getattr(c, "plain_checked", 0):]:
                if not r[0] and r[2] not in ("/pair-verify", "/pair-setup", "/identify"):
                    self.viol.append(("c01:application-request-sent-in-the-clear", {"cid": c.cid, "target": r[2], "t": now}))
            c.plain_checked = len(sess.requests)
        # a connection the peer has closed (its FIN has been handed to the protocol) is not a connection any more: the pairing must not go on
        # reporting it as connected (nothing would ever reconnect)
        if self.pairing.is_connected and cur is not None and not cur.peer_open and not getattr(cur.transport, "_lost_pending", False):
            self.viol.append(("c10:still-reports-connected-on-a-connection-the-peer-closed", {"cid": cur.cid, "t": now, "client_side_open": cur.client_open}))
        # quiescent => no secure-session setup is in flight: an open connection while the pairing is not connected is a leak
        setting_up = cur is not None and opened and opened[0] is cur and self.conn._connector is not None and not self.conn._connector.done()  # a silent accessory: the setup request is still in flight
        if opened and not self.pairing.is_connected and not self._pending_att() and not setting_up:
            self.viol.append(("c11:connection-open-while-pairing-not-connected:" + getattr(opened[0], "behaviour", "?"), {"open": [c.cid for c in opened], "t": now, "closed": self.closed_at is not None}))
        # connection whose secure setup failed / superseded must be closed by the controller (quiescent => setup finished)
        if not self.net.pending() or all(a.get("hang") for a in self.net.pending()):
            for c in opened:
                if c is not cur:
                    self.viol.append(("c11:abandoned-connection-left-open:" + getattr(c, "behaviour", "?"), {"cid": c.cid, "t": now}))
        for t in list(self.close_tasks):
            if t.done() and t.cancelled():
                self.viol.append(("c11:close-raises:CancelledError", {"t": now}))  # nobody cancelled the caller: close() itself raised it
                self.close_tasks.remove(t)
            elif t.done() and t.exception() is not None:
                self.viol.append(("c11:close-raises:" + type(t.exception()).__name__, {"t": now}))
                self.close_tasks.remove(t)
        if self.closed_at is not None and all(t.done() for t in self.close_tasks) and self.close_tasks and self._no_trigger_since(self.closed_at):
            if opened:
                self.viol.append(("c11:connection-open-after-close", {"open": [c.cid for c in opened], "t": now}))
        if self.shutdown_at is not None and all(t.done() for t in self.close_tasks) and opened and not self._pending_att():
            # shutdown() is final: whatever arrives afterwards (announcements, callers), the pairing holds no connection any more
            self.viol.append(("c11:connection-open-after-shutdown", {"open": [c.cid for c in opened], "t": now, "shutdown_at": self.shutdown_at}))
        # C10: which addresses a round starts with (no advertised address is excluded for good)
        for idx, a in enumerate(self.net.attempts):
            if a.get("elig_checked"):
                continue
            a["elig_checked"] = True
            prev = self.net.attempts[idx - 1] if idx else None
            port_check = self.port_changed_at is not None and idx >= self.port_changed_at[0] and a["t"] > self.port_changed_at[1] + 1e-9 and a["port"] != self.cur_port
            if self.lazy_clear_pending and any(h not in self.prev_hosts for h in a["hosts"]):
                # the first attempt that lists a newly advertised address: the code has adopted the new address set (and cleared its exclusions)
                self.model_excluded_lazy.clear()
                self.lazy_clear_pending = False
            first_of_round = prev is None or prev["outcome"] is None or (prev["outcome"] and prev["outcome"][0] == "ok") or (prev["end"] is not None and a["t"] > prev["end"] + 1e-9) \
                or any(abs(t - a["t"]) < 1e-9 for t, _ in self.trigger_times + self.env_marks)
            if first_of_round and port_check and prev is not None and prev["end"] is not None and a["t"] > prev["end"] + 1e-9:
                # a round that starts (after a back-off) later than the announcement goes to the port that is advertised now
                self.viol.append(("c10:attempt-to-a-port-that-is-no-longer-advertised", {"attempt_port": a["port"], "advertised_port": self.cur_port, "t": a["t"], "announced_at": self.port_changed_at[1]}))
            # "an immediate retry happens only to move on to another advertised address": the attempt that follows a wrong-pairing-id answer without
            # any delay must not list the address that has just answered as another accessory
            if prev is not None and prev["outcome"] and prev["outcome"][0] == "ok" and prev["end"] is not None and not any(abs(t - a["t"]) < 1e-9 for t, _ in self.trigger_times + self.env_marks):
                pc = self.net.conns[prev["outcome"][2]]
                if getattr(pc, "behaviour", None) == "wrong-id" and prev["outcome"][1] in a["hosts"] and len(a["hosts"]) > 1 \
                        and a["t"] - prev["end"] < 0.1 - 1e-9 and set(a["hosts"]) == set(prev["hosts"]):  # (a changed address set clears the exclusions)
                    self.viol.append(("c10:immediate-retry-returns-to-the-address-that-just-answered-as-another-accessory", {"address": prev["outcome"][1], "attempt_hosts": a["hosts"], "t": a["t"]}))
            if not first_of_round or not self.p.get("with_description", True):
                continue
            if set(a["hosts"]) <= set(self.cur_hosts):  # (an attempt already in flight when the addresses changed is not judged)
                eligible = [h for h in self.cur_hosts if h not in self.model_excluded and h not in self.model_excluded_lazy]
                if not eligible:
                    continue  # the two models disagree about everything that is left: nothing is demanded beyond a non-empty list
                missing = set(eligible) - set(a["hosts"])
                if missing and not (prev is not None and prev["end"] is not None and abs(a["t"] - prev["end"]) < 1e-9 and prev["outcome"] and prev["outcome"][0] != "ok"):
                    self.viol.append(("c10:eligible-address-not-tried-at-start-of-round", {"attempt_hosts": a["hosts"], "eligible": eligible, "excluded_model": sorted(self.model_excluded), "t": a["t"]}))
        # authentication failure observed?
        if self.auth_failed_at is None:
            from aiohomekit.exceptions import AuthenticationError

            if isinstance(self.conn._last_connector_error, AuthenticationError) and self.conn._connector is not None and self.conn._connector.done():
                self.auth_failed_at = now
                # the model's own idea of an authentication failure: the accessory SAID so (error item 0x02 in M2 / M4).  A reply that is merely
                # damaged, of another identity, or badly signed is a failed attempt like any other and is followed by further attempts
                last = self.net.conns[-1] if self.net.conns else None
                beh = getattr(last, "behaviour", None)
                if beh is not None and "auth-error" not in beh and not self.p.get("damage"):
                    self.viol.append((f"c10:retries-ended-as-an-authentication-failure-though-the-accessory-reported-none:{beh}", {"error": repr(self.conn._last_connector_error)[:120], "t": now}))
        self._check_callers()

    def _no_trigger_since(self, t):
        if getattr(self, "trigger_after_close", False):
            return False
        return not any(tt > t or (tt == t and k not in ("close", "shutdown")) for tt, k in self.trigger_times if tt >= t)

    def _check_callers(self):
        from aiohomekit.exceptions import AccessoryDisconnectedError, AuthenticationError

        now = self.loop.time()
        for c in self.callers:
            t = c["task"]
            if c.get("judged"):
                continue
            if t.done():
                c["judged"] = True
                dur = now - c["t0"]
                if t.cancelled():
                    # a caller still waiting when close()/shutdown() is called: outcome not judged (only that it finishes)
                    if not c["cancelled_by_harness"] and not (self.closed_at is not None and self.closed_at >= c["t0"]):
                        self.viol.append(("c10:waiting-caller-cancelled-by-library", {"kind": c["kind"], "t": now}))
                    continue
                exc = t.exception()
                if exc is None:
                    continue
                ok = isinstance(exc, (AccessoryDisconnectedError, AuthenticationError)) or (c["kind"] == "ensure-t3" and isinstance(exc, TimeoutError))
                if not ok:
                    self.viol.append((f"c10:waiting-caller-gets-{type(exc).__name__}", {"kind": c["kind"], "err": str(exc)[:160], "t": now}))
            elif now - c["t0"] > 10.0 + 1e-3:
                c["judged"] = True
                self.viol.append(("c10:waiting-caller-not-released-after-10s", {"kind": c["kind"], "waited": now - c["t0"]}))

    def violations(self):
        v, self.viol = self.viol, []
        return v

    # ---------------------------------------------------------------- end-of-execution oracle
    def rounds(self):
        """[(start, end, hosts, outcome)] for every decided attempt."""
        out = []
        for a in self.net.attempts:
            out.append((a["t"], a["end"], tuple(a["hosts"]), a["outcome"]))
        return out

    def finish(self):
        out = []
        # continue on defaults: refuse everything, fire timers, for 130 virtual seconds
        t_end = self.loop.time() + 130.0
        n_before = len(self.net.attempts)
        last_activity = self.loop.time()
        guard = 0
        while self.loop.time() < t_end and guard < 2000:
            guard += 1
            pend = self._pending_att()
            if pend:
                self.net.refuse(pend[0])
            else:
                nt = self.loop.next_timer()
                if nt is None or nt > t_end:
                    break
                self.loop.fire_next_timer()
            self.loop.run_until_idle()
            self._observe()
            if len(self.net.attempts) - n_before > 60:
                break
        out += self.violations()
        out += self._judge_schedule()
        # bounded liveness / termination
        open_state = self.closed_at is None and self.shutdown_at is None
        tail_attempts = [a for a in self.net.attempts[n_before:]]
        if open_state and not self.pairing.is_connected and self.auth_failed_at is None:
            if not tail_attempts:
                out.append(("c10:no-further-connection-attempt-within-130s", {"t": self.loop.time(), "last_error": repr(self.conn._last_connector_error)[:120], "connector_done": self.conn._connector.done() if self.conn._connector else None}))
        if self.shutdown_at is not None:
            late = [a for a in self.net.attempts if a["t"] > self.shutdown_at + 1e-9]
            if late:
                out.append(("c10:connection-attempt-after-shutdown", {"at": [a["t"] for a in late][:3], "shutdown_at": self.shutdown_at}))
        elif self.closed_at is not None and self._no_trigger_since(self.closed_at):
            late = [a for a in self.net.attempts if a["t"] > self.closed_at + 1e-9]
            if late:
                out.append(("c10:connection-attempt-after-close-without-trigger", {"at": [a["t"] for a in late][:3], "closed_at": self.closed_at}))
        if self.auth_failed_at is not None and not any(tt >= self.auth_failed_at for tt, _ in self.trigger_times + self.env_marks) and self.closed_at is None:
            late = [a for a in self.net.attempts if a["t"] > self.auth_failed_at + 1e-9]
            if late:
                out.append(("c10:connection-attempt-after-authentication-failure-without-trigger", {"at": [a["t"] for a in late][:3]}))
        self._check_callers()
        out += self.violations()
        for c in self.callers:
            if not c["task"].done():
                out.append(("c10:waiting-caller-pending-at-horizon", {"kind": c["kind"]}))
        # a request that got no answer for 30 s is the only way to notice a peer that vanished without FIN or RST: the connection it was sent on
        # is given up (and, the pairing being open, attempts follow) - it is not kept as if nothing had happened
        cur_ = self._current_conn()
        for (cid, natt), t in zip(getattr(self, "app_req_conns", []), self.app_tasks):
            if t.done() and not t.cancelled() and t.exception() is not None and cid is not None and cur_ is not None and cur_.cid == cid and self.pairing.is_connected \
                    and len(self.net.attempts) == natt and self.closed_at is None:
                out.append(("c10:connection-kept-after-its-request-went-unanswered-no-further-attempt", {"cid": cid, "err": type(t.exception()).__name__, "t": self.loop.time()}))
                break
        if any(not t.done() for t in self.app_tasks):
            # 130 s after the last event: longer than every timer of the library (30 s per request, 10 s per wait for the connection)
            out.append(("c10:application-request-pending-at-horizon", {"pending": sum(1 for t in self.app_tasks if not t.done()), "t": self.loop.time()}))
        # "closing a pairing completes": 130 s of virtual time (every timer of the library is shorter) after the last event, a close() / shutdown()
        # that is still pending will never return
        for t in self.close_tasks:
            if not t.done():
                out.append(("c11:close-or-shutdown-does-not-complete", {"t": self.loop.time(), "closed_at": self.closed_at, "attempts_since": len([a for a in self.net.attempts if a["t"] > (self.closed_at or 0)])}))
                break
        return out

    def _judge_schedule(self):
        out = []
        atts = self.net.attempts
        nh = max(len(self.hosts), len(self.cur_hosts))
        # empty host list never
        for a in atts:
            if not a["hosts"]:
                out.append(("c10:attempt-with-empty-host-list", {"t": a["t"]}))
        # calls per instant
        from collections import Counter

        # (per connector run: a peer drop / trigger legitimately starts a fresh run at the same virtual instant)
        trig_instants = {round(t, 9) for t, _ in self.trigger_times + self.env_marks}
        groups, g_ = [], []
        for a_ in atts:
            if g_ and a_.get("task") != g_[-1].get("task"):
                groups.append(g_)
                g_ = []
            g_.append(a_)
        if g_:
            groups.append(g_)
        for grp in groups:
            per = Counter(round(a["t"], 9) for a in grp)
            for t, n in per.items():
                if n > 2 * nh and t not in trig_instants:
                    out.append(("c10:busy-loop-connection-calls-at-one-instant", {"t": t, "calls": n, "hosts": nh}))
                    break
        # gaps between end of a failed attempt and the next start, per connector run, untriggered only
        trig = sorted(t for t, _ in self.trigger_times)
        # (a caller asking for the connection is no reason to hurry: only announcements, drops and close excuse a gap from the back-off rule)
        marks = sorted([m for m in self.trigger_times if not m[1].startswith(("ensure", "cancel-ensure", "app-req"))] + self.env_marks + ([(self.closed_at, "close")] if self.closed_at is not None else []))
        # one connector run = the consecutive attempts made by one connector task
        runs, cur_ = [], []
        for a_ in atts:
            if cur_ and a_.get("task") != cur_[-1].get("task"):
                runs.append(cur_)
                cur_ = []
            cur_.append(a_)
        if cur_:
            runs.append(cur_)
        for run in runs:
            gaps = []
            for x, y in zip(run, run[1:]):
                if x["end"] is None:
                    continue
                g = y["t"] - x["end"]
                ocx = x["outcome"]
                if ocx and ocx[0] == "ok" and getattr(getattr(self.net.conns[ocx[2]], "session", None), "verified", False):
                    gaps.append(None)  # that attempt SUCCEEDED: however long the session lived, what follows its end is not a retry delay
                    continue
                if any(x["end"] - 1e-9 <= t <= y["t"] + 1e-9 for t, _ in marks):
                    gaps.append(None)  # a trigger fell into (or at the edges of) this gap: not judged
                    continue
                if g > 1e-9:
                    gaps.append(g)
            # "an immediate retry happens only to move on to another advertised address": within one connector run, an attempt that follows a
            # failed one without any delay needs a reason - the address that answered as another accessory, an announcement, a drop
            for x, y in zip(run, run[1:]):
                if x["end"] is None or y["t"] - x["end"] >= 0.1 - 1e-9:
                    continue
                if any(x["end"] - 1e-9 <= t <= y["t"] + 1e-9 for t, _ in marks):
                    continue
                oc = x["outcome"]
                if oc and oc[0] == "ok" and getattr(self.net.conns[oc[2]], "behaviour", None) == "wrong-id":
                    continue
                if any(x["end"] - 1e-9 <= c[1] <= y["t"] + 1e-9 for c in self.connector_ids[1:]):
                    continue  # (a new connector was started in between - by a caller after an authentication failure, say: its first attempt is not a retry)
                if oc == "cancelled" or set(y["hosts"]) < set(x["hosts"]):
                    continue  # (the same round moving on through the addresses it has not tried yet)
                out.append(("c10:immediate-retry-without-a-reason", {"after": repr(oc), "failed_at": x["end"], "next_attempt_at": y["t"], "hosts": y["hosts"]}))
                break
            real = [g for g in gaps if g is not None]
            for g in real:
                if g < 0.1 - 1e-9:
                    out.append(("c10:retry-gap-below-100ms", {"gap": g}))
                    break
                if g > 60 + 1e-6:
                    out.append(("c10:retry-gap-above-60s", {"gap": g}))
                    break
            prev = None
            for g in gaps:
                if g is None:
                    continue
                if prev is not None and g < prev - 1e-6:
                    out.append(("c10:retry-gap-decreases", {"prev": prev, "gap": g}))
                    break
                prev = g
            if len(real) >= 6 and max(real) - min(real) < 1e-6 and min(real) < 60 - 1e-6:
                out.append(("c10:retry-gap-constant", {"gap": real[0], "n": len(real)}))
        return out

    def canon(self):
        from vt.canon import tasks_sig as _tasks_sig

        c = self.conn
        timers = tuple(sorted(round(h._when - self.loop.time(), 6) for h in self.loop._scheduled if not h._cancelled))
        interval = None
        if c._connector is not None and not c._connector.done():
            fr = c._connector.get_coro().cr_frame
            if fr is not None:
                interval = fr.f_locals.get("interval")
        return (
            timers, interval, c.closing, c.closed, c.is_secure, c.transport is None, tuple(sorted(c._pair_verify_failed_hosts)), tuple(c.hosts),
            type(c._last_connector_error).__name__, c._connector.done() if c._connector else None,
            tuple((x.client_open, x.peer_open) for x in self.net.conns if x.client_open or x.peer_open),
            tuple(a.get("hang", False) for a in self.net.pending()), tuple((k["task"].done(), round(self.loop.time() - k["t0"], 6)) for k in self.callers if not k["task"].done()),
            self.pairing._shutdown, self.closed_at is not None, tuple(self.cur_hosts), self.pairing.supports_subscribe, _tasks_sig(self.loop),
        )

    def outcome(self):
        return f"connected={bool(self.pairing.is_connected)},closed={self.closed_at is not None},auth={self.auth_failed_at is not None},rounds={min(len(self.net.attempts), 20)}"

    def close(self):
        try:
            self.rig.close()
        except Exception:  # noqa: BLE001
            pass

"""C13, BLE leg: get/put_characteristics of a real BlePairing against the reference GATT accessory with scripted
per-characteristic PDU statuses."""
from __future__ import annotations

import itertools

from vt.ref import bleacc

PDU_STATUSES = [0, 1, 2, 3, 4, 5, 6]
READ_SETS = [[9], [10], [9, 10], [2, 9, 10]]
WRITE_SETS = [[9], [12], [11], [9, 10], [9, 12], [9, 11, 10], [2], [2, 9], [9, 2], [2, 9, 10], [9, 2, 10], [2, 12, 9], [10, 9]]  # 2 is read-only: refused locally, wherever it stands in the batch
READABLE = {2, 9, 10}
WRITABLE = {3, 9, 10, 11, 12}
VALS = {9: True, 10: 7, 11: 2.5, 12: 3, 2: "x", 3: True}


def case_ble_read(p):
    from vt.env.blerig import BleRig

    ids = p["ids"]
    out = []
    n = 0
    rig = BleRig(seed=p.get("seed", 0))
    try:
        for vec in p["vectors"]:
            n += 1
            rig.acc.script = {(bleacc.OP_READ, i): s for i, s in zip(ids, vec)}
            det = {"transport": "ble", "ids": ids, "statuses": list(vec)}
            try:
                res = rig.run(rig.pairing.get_characteristics([(1, i) for i in ids]))
            except Exception as e:  # noqa: BLE001
                out.append((f"ble:read-raises:{type(e).__name__}", dict(det, err=str(e)[:200])))
                break
            for i, s in zip(ids, vec):
                r = res.get((1, i))
                if s == 0:
                    ch = rig.acc.chars[i]
                    if r is None or r.get("value") != ch.value:
                        out.append(("ble:read-value-wrong-or-missing", dict(det, key=i, got=r)))
                else:
                    if r is not None and "value" in r:
                        out.append(("ble:rejected-read-reported-as-value", dict(det, key=i, got=r)))
                    elif r is None or r.get("status") in (None, 0):
                        out.append(("ble:read-error-status-not-reported", dict(det, key=i, got=r)))
            if len(out) > 40 or any(s != "ble:read-error-status-not-reported" for s, _ in out):
                break  # (the recorded known finding must not stop the sweep and mask anything else)
    finally:
        rig.close()
    p["_n"] = n
    return out


def case_ble_write(p):
    from vt.env.blerig import BleRig

    ids = p["ids"]
    out = []
    n = 0
    rig = BleRig(seed=p.get("seed", 0))
    try:
        notes = []
        rig.pairing.dispatcher_connect(lambda ev: notes.append(dict(ev)))
        for vec in p["vectors"]:
            n += 1
            rig.acc.script = {}
            for i, s in zip(ids, vec):
                rig.acc.script[(bleacc.OP_WRITE, i)] = s
                rig.acc.script[(bleacc.OP_TIMED_WRITE, i)] = s
            del notes[:]
            before = len(rig.acc.writes)
            det = {"transport": "ble", "ids": ids, "statuses": list(vec)}
            try:
                res, exc = rig.run(rig.pairing.put_characteristics([(1, i, VALS[i]) for i in ids])), None
            except Exception as e:  # noqa: BLE001
                res, exc = {}, e
            accepted = {i for i, _ in rig.acc.writes[before:]}
            notified = set()
            for ev in notes:
                notified |= {k[1] for k in ev}
            rejected = [i for i, s in zip(ids, vec) if s != 0 and i in WRITABLE]
            if exc is None:
                for i in rejected:
                    r = res.get((1, i))
                    if r is None or r.get("status") in (None, 0):
                        out.append(("ble:rejected-write-not-reported", dict(det, key=i, result={str(k): str(v) for k, v in res.items()})))
                for i in ids:
                    if i not in WRITABLE:
                        r = res.get((1, i))
                        if r is None or not r.get("status"):
                            out.append(("ble:write-to-read-only-characteristic-not-reported", dict(det, key=i)))
            elif not rejected:
                out.append((f"ble:write-raises-though-nothing-rejected:{type(exc).__name__}", dict(det, err=str(exc)[:200])))
            for i in accepted:
                r = res.get((1, i))
                if r is not None and r.get("status"):
                    out.append(("ble:accepted-write-reported-non-zero", dict(det, key=i)))
            want = accepted & READABLE
            if notified != want:
                out.append(("ble:listener-notifications-differ-from-accepted-and-readable", dict(det, notified=sorted(notified), want=sorted(want))))
            if out:
                break
    finally:
        rig.close()
    p["_n"] = n
    return out


def case_ble_write_hangup(p):
    """The accessory answers a write (or the execute step of a timed write) and hangs up right after the data of its answer.  Whatever the
    library makes of the lost link: an item the accessory REJECTED is not presented as written and listeners are not told its value."""
    from vt.env.blerig import BleRig

    ids, vec = p["ids"], p["vec"]
    out = []
    sub = p.get("pre") == "subscribed"
    rig = BleRig(seed=p.get("seed", 0), ev_flags=(9, 10) if sub else ())
    try:
        rig.run(rig.pairing.get_characteristics([(1, 9)]))  # (session up, un-gated)
        if sub:
            # the pairing holds subscriptions (characteristics that also report by broadcast) and the link was lost since: the write is the
            # first operation on a new link, and what was subscribed is restored around it
            rig.run(rig.pairing.subscribe({(1, 9), (1, 10)}))
            for _ in range(3):
                if not rig.loop.fire_next_timer():
                    break
                rig.loop.run_until_idle()
            rig.client.peer_disconnect()
            rig.loop.run_until_idle()
        notes = []
        rig.pairing.dispatcher_connect(lambda ev: notes.append(dict(ev)))
        rig.acc.script = {}
        for i, s_ in zip(ids, vec):
            rig.acc.script[(bleacc.OP_WRITE, i)] = s_
            rig.acc.script[(bleacc.OP_EXEC_WRITE, i)] = s_
        rig.gated = True
        task = rig.loop.create_task(rig.pairing.put_characteristics([(1, i, VALS[i]) for i in ids]))
        hung = False
        for _ in range(400):
            rig.loop.run_until_idle()
            if task.done():
                break
            live = [w for w in rig.waiting if not w[0].done()]
            rig.waiting[:] = live
            if not live:
                if not rig.loop.fire_next_timer():
                    break
                continue
            w = live[0]
            target = ids[p["at"]]
            if p.get("hang") == "restore":
                # the accessory answers every item and hangs up at the first request that follows the answer to the last one (whatever the
                # library sends then: restoring subscriptions, a protocol-configuration read)
                answered = getattr(rig, "_answered", set())
                if w[1] == "read" and w[2] in ids and len(rig.acc.out.get(w[2], [])) == 1:
                    answered.add(w[2])
                    rig._answered = answered
                    rig.release()
                elif not hung and answered >= set(i for i in ids if i in WRITABLE) and w[2] not in ids:
                    hung = True
                    rig.release(override="then-drop")
                else:
                    rig.release()
            elif not hung and w[1] == "read" and w[2] == target and len(rig.acc.out.get(target, [])) == 1:
                hung = True
                rig.release(override="then-drop")  # the last fragment of the answer for this item, then the link is gone
            else:
                rig.release()
        rig.gated = False
        det = {"transport": "ble", "ids": ids, "statuses": list(vec), "hangs_up_after_item": p["at"], "history": p.get("pre"), "hangs_up": p.get("hang", "after-answer"), "hung_up": hung}
        if not task.done():
            task.cancel()
            return [("ble:write-never-completes-after-the-accessory-hung-up", det)]
        returned = not task.cancelled() and task.exception() is None
        res = task.result() if returned else None
        if returned and not isinstance(res, dict):
            # the call came back - with nothing: every rejected item goes unreported
            res = {}
            if not any(s_ != 0 and i in WRITABLE for i, s_ in zip(ids, vec)):
                res = None
        told = set()
        for ev in notes:
            told |= {k[1] for k in ev}
        rejected = [i for i, s_ in zip(ids, vec) if s_ != 0 and i in WRITABLE]
        for i in rejected:
            if i in told:
                out.append(("ble:listener-notified-of-rejected-write:accessory-hung-up-after-its-answer", dict(det, key=i)))
            if res is not None and (res.get((1, i)) is None or res[(1, i)].get("status") in (None, 0)):
                out.append(("ble:rejected-write-not-reported:accessory-hung-up-after-its-answer", dict(det, key=i, result={str(k): str(v) for k, v in res.items()})))
    finally:
        rig.close()
    return out


CASES = {"ble_read": case_ble_read, "ble_write": case_ble_write, "ble_write_hangup": case_ble_write_hangup}


def plan(tier):
    work = []
    for ids in ([9], [11], [9, 10], [10, 9, 12]):
        for vec in itertools.product([0, 2, 6], repeat=len(ids)):
            for at in range(len(ids)):
                work.append(("ble_write_hangup", {"ids": ids, "replies": [None], "vec": list(vec), "at": at}))
                work.append(("ble_write_hangup", {"ids": ids, "replies": [None], "vec": list(vec), "at": at, "pre": "subscribed"}))
            work.append(("ble_write_hangup", {"ids": ids, "replies": [None], "vec": list(vec), "at": 0, "pre": "subscribed", "hang": "restore"}))
            work.append(("ble_write_hangup", {"ids": ids, "replies": [None], "vec": list(vec), "at": 0, "hang": "restore"}))
    for ids in READ_SETS:
        alph = PDU_STATUSES if len(ids) <= (2 if tier == "quick" else 3) else [0, 4, 6]
        vecs = list(itertools.product(alph, repeat=len(ids)))
        work.append(("ble_read", {"ids": ids, "replies": vecs[:1], "vectors": vecs}))
    for ids in ([9, 9, 10], [9, 10, 9], [10, 2, 2]):
        vecs = [v for v in itertools.product([0, 4, 6], repeat=len(ids)) if all(v[a] == v[b] for a in range(len(ids)) for b in range(len(ids)) if ids[a] == ids[b])]
        work.append(("ble_read", {"ids": ids, "replies": vecs[:1], "vectors": vecs}))
    for ids in WRITE_SETS:
        alph = PDU_STATUSES if len(ids) <= (2 if tier == "quick" else 3) else [0, 3, 6]
        vecs = list(itertools.product(alph, repeat=len(ids)))
        work.append(("ble_write", {"ids": ids, "replies": vecs[:1], "vectors": vecs}))
    return work

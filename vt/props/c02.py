"""C02 SRP interoperability: SrpClient public API vs the independent reference SRP-6a on a finite input corpus
(directed leading-zero cases for every quantity + boundary salts/secrets + seeded fill), all proof bit flips,
full wrong-code matrix."""
from __future__ import annotations

import json
import os

from vt import core
from vt.ref import srp
from vt.ref.crypto import det_bytes

META = dict(
    level="exploration",
    technique="bounded-exhaustive enumeration of a declared input corpus (directed boundary cases x codes x salts x secrets, every proof bit flip, wrong-code matrix) on the real SrpClient against an independent reference SRP-6a",
    text="for every exchange of the corpus the controller's A, M1 and K are compared byte-for-byte with a reference "
    "SRP-6a/3072/SHA-512 implementation (validated against RFC 5054 app. B), the reference accessory must accept M1, "
    "the controller must accept M2 and reject each of its 512 single-bit flips, and a controller with code i is rejected "
    "by an accessory with code j != i; the corpus contains mined inputs whose A, B, S, K, M1, M2, u, x or inner credentials hash H(I:P) start with 0x00; every mined exchange is also run through the real pair-setup generators M1..M6 against the reference accessory (the byte-level *use* of K) Also: every order / repetition of the two SRP setters; the proofs a non-conformant accessory computes (leading zeros of A / M1 / K dropped) must be rejected. Also: ephemeral secrets of full width and wider (N-5, N-1, N, N+k, 2^3072-1, 2^4000+7) on both sides; every order of the getters for S, K, M1 and the verdict on the accessory's proof.",
    note="for-all over 2^128 secrets is not enumerable: coverage is the corpus (every boundary the code or the spec "
    "distinguishes); reference SRP and hashlib trusted; PAD convention as stated in the property anchors",
    design_ref="DESIGN.md §4 C02",
    debug_pass="thorough",
    rule="a case = one exchange (code, salt, a, b) or one (exchange, flipped bit) or one (code_i, code_j) pair; distinct = distinct inputs; "
    "non-trivial = reference accepts the honest exchange",
    assumptions=["reference SRP (vt/ref/srp.py) is correct: validated against RFC 5054 appendix B in selftest", "hashlib SHA-512 correct"],
)

G = srp.HOMEKIT
USER = "Pair-Setup"


def _client(code, salt, a, B_pad, order="salt,B"):
    from aiohomekit.crypto import srp as lib

    orig = lib.Srp.__dict__["generate_private_key"]  # the descriptor itself (a staticmethod): what getattr returns would come back as an instance method
    lib.Srp.generate_private_key = staticmethod(lambda: a)
    try:
        c = lib.SrpClient(USER, code)
    finally:
        lib.Srp.generate_private_key = orig
    # the two values the accessory sends may be handed over in either order, and again (a transport that re-reads M2): the exchange is a
    # function of (code, salt, a, B), not of the order of the setter calls
    for step in order.split(","):
        if step == "salt":
            c.set_salt(bytearray(salt))
        else:
            c.set_server_public_key(bytearray(B_pad))
    return c


def case_exchange(p):
    """p: code, salt(bytes), a(int as hex str), b, flips(bool), expect_zero (target or None)"""
    code, salt = p["code"], bytes(p["salt"])
    a, b = int(p["a"], 16), int(p["b"], 16)
    ex = srp.Exchange(G, USER, code, salt, a, b)
    out = []
    tgt = p.get("target")
    if tgt:
        lead = {
            "A": ex.A_pad[:1], "A00": ex.A_pad[:2], "B": ex.B_pad[:1], "S": G.pad(ex.S_client)[:1], "K": ex.K_client[:1],
            "M1": ex.M1_client[:1], "M2": ex.M2_server[:1], "u": G.H(ex.A_pad, ex.B_pad)[:1], "salt": salt[:1],
            "HIP": G.H(f"{USER}:{code}".encode())[:1], "HIP00": G.H(f"{USER}:{code}".encode())[:2], "x": G.H(salt, G.H(f"{USER}:{code}".encode()))[:1],
        }[tgt]
        if any(lead):
            raise core.HarnessError(f"stale SRP corpus: {tgt} has no leading zero for {p}")
    d = {"code": code, "salt": salt, "a": p["a"], "b": p["b"], "target": tgt}
    try:
        c = _client(code, salt, a, ex.B_pad)
        A_b = bytes(c.get_public_key_bytes())
        M1 = bytes(c.get_proof_bytes())
        K = bytes(c.get_session_key_bytes())
    except Exception as e:  # noqa: BLE001
        return [(f"client-raises:{type(e).__name__}", d)]
    if A_b != ex.A_pad:
        out.append(("public-key-differs", {**d, "got_len": len(A_b), "got_head": A_b[:4], "want_head": ex.A_pad[:4]}))
    if K != ex.K_client:
        out.append(("session-key-differs", {**d, "got": K[:8], "want": ex.K_client[:8]}))
    if M1 != ex.M1_client:
        out.append(("proof-differs", {**d, "got": M1[:8], "want": ex.M1_client[:8]}))
    if not ex.server_accepts(A_b, M1):
        out.append(("accessory-rejects-controller-proof", d))
    for order in ("B,salt", "salt,B,salt", "B,salt,B", "salt,salt,B"):
        try:
            c2 = _client(code, salt, a, ex.B_pad, order)
            got = (bytes(c2.get_public_key_bytes()), bytes(c2.get_proof_bytes()), bytes(c2.get_session_key_bytes()), c2.verify_servers_proof_bytes(ex.M2_server))
        except Exception as e:  # noqa: BLE001
            out.append((f"client-raises:{type(e).__name__}:setter-order", {**d, "order": order}))
            break
        if got != (ex.A_pad, ex.M1_client, ex.K_client, True):
            out.append(("values-depend-on-the-order-of-the-setter-calls", {**d, "order": order, "differs": [n for n, g, w in zip(("A", "M1", "K", "accepts-M2"), got, (ex.A_pad, ex.M1_client, ex.K_client, True)) if g != w]}))
            break
    try:
        ok = c.verify_servers_proof_bytes(ex.M2_server)
    except Exception as e:  # noqa: BLE001
        return out + [(f"verify-raises:{type(e).__name__}", d)]
    if ok is not True:
        out.append(("controller-rejects-correct-accessory-proof", d))
    if p.get("flips") or p.get("getter_orders"):
        # the values are functions of the exchange, not of which of them a caller asked for first (or twice): every order of the public
        # getters - premaster secret S, session key K, proof M1, the verdict on the accessory's proof V - on a client of its own
        import itertools

        want = {"S": int(ex.S_client), "K": ex.K_client, "M": ex.M1_client, "V": True, "A": ex.A_pad}
        ask = {"S": lambda cl: int(cl.get_shared_secret()), "K": lambda cl: bytes(cl.get_session_key_bytes()), "M": lambda cl: bytes(cl.get_proof_bytes()),
               "V": lambda cl: cl.verify_servers_proof_bytes(ex.M2_server), "A": lambda cl: bytes(cl.get_public_key_bytes())}
        orders = list(itertools.permutations("SKMV")) + [("S", "S", "K"), ("K", "S", "S", "M"), ("M", "S", "V", "S", "K"), ("S", "A", "M"), ("V", "S", "A")]
        for order in orders:
            try:
                cl = _client(code, salt, a, ex.B_pad)
                got = [(g, ask[g](cl)) for g in order]
            except Exception as e:  # noqa: BLE001
                out.append((f"client-raises:{type(e).__name__}:getter-order", {**d, "order": "".join(order)}))
                break
            bad = [g for g, v in got if v != want[g]]
            if bad:
                out.append(("values-depend-on-the-order-of-the-getter-calls", {**d, "order": "".join(order), "wrong": bad}))
                break
    if p.get("flips"):
        for bit in range(len(ex.M2_server) * 8):
            m = bytearray(ex.M2_server)
            m[bit // 8] ^= 1 << (bit % 8)
            try:
                if c.verify_servers_proof_bytes(bytes(m)):
                    out.append(("controller-accepts-corrupted-accessory-proof", {**d, "bit": bit}))
                    break
            except Exception as e:  # noqa: BLE001
                out.append((f"verify-raises:{type(e).__name__}", {**d, "bit": bit}))
                break
        # truncated proofs: every proper prefix and every proper suffix (a suffix is judged only when a dropped leading byte is non-zero:
        # dropping leading zero bytes leaves the same number)
        M2 = ex.M2_server
        for n in range(0, len(M2)):
            for piece, kind in ((M2[:n], "prefix"), (M2[len(M2) - n :] if n else b"", "suffix")):
                if kind == "suffix" and not any(M2[: len(M2) - n]):
                    continue
                try:
                    if c.verify_servers_proof_bytes(bytes(piece)):
                        out.append((f"controller-accepts-truncated-accessory-proof:{kind}", {**d, "kept_bytes": n}))
                        break
                except Exception as e:  # noqa: BLE001
                    out.append((f"verify-raises:{type(e).__name__}", {**d, "kept_bytes": n, "kind": kind}))
                    break
            else:
                continue
            break
        # near misses: the proof a NON-conformant accessory would compute (leading zero bytes of A, M1 or K dropped before hashing, in every
        # combination) is not the correct proof and has to be rejected like any other wrong one
        strip = lambda b_: bytes(b_).lstrip(b"\x00")  # noqa: E731
        for mask in range(1, 8):
            parts = [strip(x) if mask >> i & 1 else bytes(x) for i, x in enumerate((ex.A_pad, ex.M1_client, ex.K_client))]
            wrong = G.H(*parts)
            if wrong == ex.M2_server:
                continue
            try:
                if c.verify_servers_proof_bytes(wrong):
                    out.append(("controller-accepts-a-non-conformant-accessory-proof", {**d, "leading_zeros_dropped_from": [n for i, n in enumerate(("A", "M1", "K")) if mask >> i & 1]}))
                    break
            except Exception as e:  # noqa: BLE001
                out.append((f"verify-raises:{type(e).__name__}", {**d, "near_miss": mask}))
                break
        # a proof for a different exchange (other b) must be rejected as well
        other = srp.Exchange(G, USER, code, salt, a, b + 1)
        if c.verify_servers_proof_bytes(other.M2_server):
            out.append(("controller-accepts-proof-of-other-exchange", d))
        # verdicts do not depend on what was shown before: after all those wrong proofs the correct one is still accepted, and on a fresh
        # client a wrong proof first, then the right one, then a wrong one again come out wrong / right / wrong
        try:
            if c.verify_servers_proof_bytes(ex.M2_server) is not True:
                out.append(("controller-rejects-the-correct-proof-after-other-proofs-were-shown", d))
            c3 = _client(code, salt, a, ex.B_pad)
            seq = [bool(c3.verify_servers_proof_bytes(x)) for x in (other.M2_server, ex.M2_server, other.M2_server, ex.M2_server)]
            if seq != [False, True, False, True]:
                out.append(("verdict-on-a-proof-depends-on-the-proofs-shown-before", {**d, "wrong-right-wrong-right": seq}))
        except Exception as e:  # noqa: BLE001
            out.append((f"verify-raises:{type(e).__name__}", {**d, "phase": "repeated verification"}))
    return out


def case_wrongcode(p):
    """controller knows code_c, accessory code_s != code_c: accessory must reject, and the controller must reject the accessory's M2."""
    salt = bytes(p["salt"])
    a, b = int(p["a"], 16), int(p["b"], 16)
    ex = srp.Exchange(G, USER, p["code_c"], salt, a, b, server_password=p["code_s"])
    d = dict(p)
    try:
        c = _client(p["code_c"], salt, a, ex.B_pad)
        A_b, M1 = bytes(c.get_public_key_bytes()), bytes(c.get_proof_bytes())
    except Exception as e:  # noqa: BLE001
        return [(f"client-raises:{type(e).__name__}", d)]
    out = []
    same = p["code_c"] == p["code_s"]
    acc = ex.server_accepts_foreign(A_b, M1, b, USER, p["code_s"])
    if acc != same:
        out.append(("wrong-code-proof-accepted-by-accessory" if acc else "right-code-proof-rejected", d))
    if not same and c.verify_servers_proof_bytes(ex.M2_server):
        out.append(("wrong-code-accessory-proof-accepted", d))
    return out


def case_constants(p):
    from aiohomekit.crypto import srp as lib

    out = []
    if lib.MODULUS_VALUE != G.N:
        out.append(("constant:modulus", {}))
    if lib.GENERATOR_VALUE != G.g:
        out.append(("constant:generator", {}))
    if lib.CLIENT_K_VALUE != G.k():
        out.append(("constant:k", {}))
    c = lib.SrpClient(USER, "000-00-000")
    if c._calculate_k() != G.k() if hasattr(c, "_calculate_k") else False:
        out.append(("constant:k-method", {}))
    return out


def case_interleaved(p):
    """Two exchanges in flight in one process (two accessories being paired at once): every interleaving of the two clients' step sequences
    (create / set salt / set B / proof / verify M2 / session key), each client compared with the reference for ITS exchange.  State shared
    between instances shows here and nowhere else."""
    import itertools

    from aiohomekit.crypto import srp as lib

    case_interleaved._i = 0
    exs = []
    for e in p["exchanges"]:
        exs.append((e, srp.Exchange(G, USER, e["code"], bytes(e["salt"]), int(e["a"], 16), int(e["b"], 16))))
    STEPS = ("new", "salt", "B", "proof", "verify", "key")
    out = []
    n = 0
    for mask in itertools.combinations(range(2 * len(STEPS)), len(STEPS)):
        order = [0 if i in mask else 1 for i in range(2 * len(STEPS))]
        if order[0] == 1:
            continue  # symmetric: client 0 always moves first
        idx = getattr(case_interleaved, "_i", 0)
        case_interleaved._i = idx + 1
        if p.get("part") and idx % p["part"][1] != p["part"][0]:
            continue
        n += 1
        pos = [0, 0]
        cl = [None, None]
        res = [{}, {}]
        try:
            for who in order:
                e, ex = exs[who]
                step = STEPS[pos[who]]
                pos[who] += 1
                if step == "new":
                    orig = lib.Srp.__dict__["generate_private_key"]  # the descriptor itself (a staticmethod): what getattr returns would come back as an instance method
                    lib.Srp.generate_private_key = staticmethod(lambda a=int(e["a"], 16): a)
                    try:
                        cl[who] = lib.SrpClient(USER, e["code"])
                    finally:
                        lib.Srp.generate_private_key = orig
                elif step == "salt":
                    cl[who].set_salt(bytearray(bytes(e["salt"])))
                elif step == "B":
                    cl[who].set_server_public_key(bytearray(ex.B_pad))
                elif step == "proof":
                    res[who]["A"] = bytes(cl[who].get_public_key_bytes())
                    res[who]["M1"] = bytes(cl[who].get_proof_bytes())
                elif step == "verify":
                    res[who]["ok"] = cl[who].verify_servers_proof_bytes(ex.M2_server)
                elif step == "key":
                    res[who]["K"] = bytes(cl[who].get_session_key_bytes())
        except Exception as e_:  # noqa: BLE001
            out.append((f"interleaved:client-raises:{type(e_).__name__}", {"order": order, "err": str(e_)[:120]}))
            break
        for who in (0, 1):
            ex = exs[who][1]
            r = res[who]
            bad = [k for k, want in (("A", ex.A_pad), ("M1", ex.M1_client), ("K", ex.K_client), ("ok", True)) if r.get(k) != want]
            if bad:
                out.append(("interleaved:exchange-disturbed-by-another-exchange-in-the-same-process", {"order": order, "client": who, "differs": bad}))
                break
        if out:
            break
    p["_n"] = n
    return out


def case_api(p):
    """The exchange as the transports run it (c03's API leg under this property's reading): every attempt's proof is computed from the salt and B
    of the exchange the accessory is in NOW - after a link loss and automatic retry, after a wrong code, for every accepted spelling of the code."""
    from vt.props import c03_api

    q = dict(p)
    v = c03_api.case_history(q)
    p["_trace"] = q.get("_trace", [])
    return v


def case_protocol(p):
    """The *use* of the SRP values in pair-setup (K into HKDF, proofs into M3/M4): one honest M1..M6 run of the real generators on a mined
    exchange against the reference accessory (c03's case), in both decode styles; K, S, ... enter the protocol as bytes and an int round
    trip anywhere between SrpClient and HKDF only shows for the leading-zero exchanges."""
    from vt.props import c03

    idx = [i for i, c in enumerate(c03.CONFIGS) if c.get("srp") and (c["srp"]["target"], c["srp"]["code"], c["srp"]["a"]) == (p["target"], p["code"], p["a"])]
    if not idx:
        raise core.HarnessError(f"mined exchange not among c03 configs: {p['target']} {p['code']}")
    v = c03.case_setup({"cfg": idx[0], "style": p["style"], "fault": p.get("fault", "honest"), "arg": p.get("arg"), "seed": p.get("seed", 0)})
    return [("protocol:" + sig, det) for sig, det in v]


CASES = {"exchange": case_exchange, "wrongcode": case_wrongcode, "constants": case_constants, "protocol": case_protocol, "interleaved": case_interleaved, "api": case_api}


def _work(item, seed, tier):
    acc = core.Acc()
    name, p = item
    v = CASES[name](p)
    if name == "interleaved":
        acc.extra["interleavings_of_two_exchanges"] += p.pop("_n", 0)
    p.pop("_trace", None)
    sym = [name] + ([f"lead0:{p['target']}"] if p.get("target") else []) + (["flips"] if p.get("flips") else [])
    acc.case(key=(name, core.jsonable(p)), outcome=f"{name}:{'ok' if not v else v[0][0]}", sample={"case": name, "params": p}, symbols=sym)
    if name == "exchange" and p.get("flips"):
        acc.extra["proof_bit_flips_checked"] += 512
    for sig, detail in v:
        acc.violation(sig, name, p, detail)
    return acc


def run(ctx):
    quick = ctx.tier == "quick"
    seed = ctx.seed
    with open(os.path.join(os.path.dirname(os.path.dirname(__file__)), "data", "srp_corpus.json")) as f:
        mined = json.load(f)
    work = [("constants", {})]
    nflip = 0
    per_target = {}
    for m in mined:
        per_target[m["target"]] = per_target.get(m["target"], 0) + 1
        if quick and per_target[m["target"]] > 1:
            continue
        work.append(("exchange", {"code": m["code"], "salt": bytes.fromhex(m["salt"]), "a": m["a"], "b": m["b"], "target": m["target"], "flips": True}))
    for m in mined:
        for style in ("ip", "ble"):
            work.append(("protocol", {"target": m["target"], "code": m["code"], "a": m["a"], "style": style}))
            if not quick:
                work.append(("protocol", {"target": m["target"], "code": m["code"], "a": m["a"], "style": style, "fault": "m4-proof-bitflip", "arg": 7}))
    pairs = [(mined[0], mined[-1]), (mined[3], mined[3])] + ([] if quick else [(mined[i], mined[i + 7]) for i in range(0, 8)])
    for x, y in pairs:
        mk = lambda m: {"code": m["code"], "salt": bytes.fromhex(m["salt"]), "a": m["a"], "b": m["b"]}  # noqa: E731
        for k in range(12):
            work.append(("interleaved", {"exchanges": [mk(x), mk(y)], "part": [k, 12]}))
    from vt.props import c03_api

    for h in c03_api.histories(ctx.tier, seed):
        work.append(("api", dict(h, seed=seed)))
    codes = ["000-00-000", "111-22-333", "999-99-999", "031-45-154"] + [
        f"{int.from_bytes(det_bytes(seed, f'code{i}', 4), 'big') % 10**8:08d}" for i in range(2 if quick else 8)
    ]
    codes = [c if "-" in c else f"{c[:3]}-{c[3:5]}-{c[5:]}" for c in codes]
    salts = [bytes(16), b"\x00" + det_bytes(seed, "s1", 15), b"\x00" * 15 + b"\x01", b"\xff" * 16, b"\x00\x00" + det_bytes(seed, "s2", 14), det_bytes(seed, "s3", 16)]
    if not quick:
        salts += [det_bytes(seed, f"sx{i}", 16) for i in range(4)] + [b"\x00" * 8 + det_bytes(seed, "s4", 8)]
    a_vals = [1, 2, (1 << 128) - 1, int.from_bytes(det_bytes(seed, "a0", 16), "big"), int.from_bytes(b"\x00" + det_bytes(seed, "a1", 15), "big")]
    b_vals = [1, (1 << 256) - 1, int.from_bytes(det_bytes(seed, "b0", 32), "big")]
    if not quick:
        a_vals += [int.from_bytes(det_bytes(seed, f"ax{i}", 16), "big") for i in range(3)] + [3, 1 << 127]
        b_vals += [int.from_bytes(det_bytes(seed, f"bx{i}", 32), "big") for i in range(2)] + [2, int.from_bytes(det_bytes(seed, "b16", 16), "big")]
    # ephemeral secrets of full width and beyond (RFC 5054 puts no upper bound on a; the accessory's b likewise): what is reduced where shows only here
    N = G.N
    wide = [N - 5, N - 1, N, N + 12345, (1 << 3072) - 1, (1 << 3071) + int.from_bytes(det_bytes(seed, "aw", 64), "big"), N - (1 << 1000), (1 << 4000) + 7]
    for k, aw in enumerate(wide):
        for code, salt in ((codes[1], salts[5]), (codes[0], salts[0]), (codes[3], salts[1])):
            for bw in (b_vals[2], wide[(k + 3) % len(wide)]):
                if quick and (code != codes[1]) and bw is not b_vals[2]:
                    continue
                work.append(("exchange", {"code": code, "salt": salt, "a": hex(aw), "b": hex(bw), "flips": False, "getter_orders": k < 2, "target": "salt" if salt[0] == 0 else None}))
    i = 0
    for code in codes:
        for salt in salts:
            for a in a_vals:
                for b in b_vals:
                    i += 1
                    flips = (i % (40 if quick else 8)) == 0 or (salt == bytes(16) and a == 1 and b == 1)
                    work.append(("exchange", {"code": code, "salt": salt, "a": hex(a), "b": hex(b), "flips": flips, "target": "salt" if salt[0] == 0 else None}))
    wc = codes[: 4 if quick else 8]
    for ci in wc:
        for cj in wc:
            work.append(("wrongcode", {"code_c": ci, "code_s": cj, "salt": salts[1], "a": hex(a_vals[3]), "b": hex(b_vals[2])}))
    # near-miss codes (one digit off)
    for cj in ("111-22-334", "111-22-33", "111-22-3333", "11122333", " 111-22-333"):
        work.append(("wrongcode", {"code_c": "111-22-333", "code_s": cj, "salt": salts[5], "a": hex(a_vals[3]), "b": hex(b_vals[2])}))
    ctx.pmap(_work, work)
    ctx.exhaustive = True
    ctx.bounds.update(codes=len(codes), salts=len(salts), a=len(a_vals), b=len(b_vals), mined_cases=sum(1 for w in work if w[1].get("target") not in (None, "salt")))
    ctx.require(ctx.acc.symbols["protocol"] >= 2 * len(mined), "protocol-level runs missing")
    for t in ("A", "B", "S", "K", "M1", "M2", "u", "salt", "HIP", "HIP00", "x"):
        ctx.require(ctx.acc.symbols[f"lead0:{t}"] > 0, f"no directed leading-zero case for {t}")
    ctx.require(ctx.acc.symbols["flips"] >= 8, "too few proof-flip sweeps")

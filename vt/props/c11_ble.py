"""C11, BLE leg: a BlePairing holds at most one GATT connection at any moment, closes the one it gives up, and close() / shutdown() complete
without raising and leave none open.  Histories over {use (an API call that connects on demand), a second use started while the first is still
in flight, the link dropped by the peer, a connection attempt that fails, GATT operations held back in flight and released one by one,
close, shutdown, a failing GATT disconnect} on the real pairing against the reference GATT accessory."""
from __future__ import annotations

import asyncio

from vt import canon as _canon
from vt import core, explore
from vt.env.blerig import BleRig

ALPH = ["use", "use2", "hold", "release", "drop", "connect-fails", "disconnect-fails", "close", "shutdown", "timer"]


class BleConnH(explore.Harness):
    def __init__(self, p):
        self.p = p
        self.rig = BleRig(seed=p.get("seed", 0))
        self.loop, self.pairing = self.rig.loop, self.rig.pairing
        self.viol = []
        self.hold = False
        self.held = []
        self.tasks = []
        self.closes = []
        self.closed = False
        self.shut = False
        self.used_after_close = False
        self.n = {"use": 0, "drop": 0, "cf": 0, "df": 0, "close": 0}
        self.depth_used = 0
        h = self

        async def gate(kind, iid, data):
            if h.hold and kind in ("write", "read"):
                fut = h.loop.create_future()
                h.held.append(fut)
                await fut
            else:
                await asyncio.sleep(0)
            return None

        self.rig.gate = gate
        orig = self.rig._establish

        async def establish(*a, **kw):
            c = await orig(*a, **kw)
            if h.fail_disconnect:
                from bleak.exc import BleakError

                async def disconnect(c=c):
                    c.is_connected = False  # the link is gone all the same (the stack just reports an error)
                    h.rig.links_closed += 1
                    c.acc.reset_link()
                    raise BleakError("disconnect failed")

                c.disconnect = disconnect
                h.fail_disconnect = False
            return c

        self.fail_disconnect = False
        self.rig._mod.establish_connection = establish
        for label in p.get("prelude", ()):
            self.take_label(label)
        self.depth_used = 0

    def _open(self):
        return [c for c in self.rig.clients if c.is_connected]

    def menu(self):
        m = []
        for a in self.p.get("alphabet", ALPH):
            if a in ("use", "use2"):
                if self.n["use"] < 3 and (a == "use" or any(not t.done() for t in self.tasks)):
                    m.append(a)
            elif a == "hold":
                if not self.hold:
                    m.append(a)
            elif a == "release":
                if any(not f.done() for f in self.held):
                    m.append(a)
            elif a == "drop":
                if self._open() and self.n["drop"] < 2:
                    m.append(a)
            elif a == "connect-fails":
                if self.n["cf"] < 1 and not self.rig.connect_fail:
                    m.append(a)
            elif a == "disconnect-fails":
                if self.n["df"] < 1:
                    m.append(a)
            elif a in ("close", "shutdown"):
                if self.n["close"] < 2:
                    m.append(a)
            elif a == "timer":
                if self.loop.next_timer() is not None and any(not t.done() for t in self.tasks + self.closes):
                    m.append(a)
        return m

    def take(self, i):
        self.take_label(self.menu()[i])

    def take_label(self, label):
        self.depth_used += 1
        if label in ("use", "use2"):
            self.n["use"] += 1
            if self.closed:
                self.used_after_close = True
            self.tasks.append(self.loop.create_task(self.pairing.get_characteristics([(1, 9 if label == "use" else 10)])))
        elif label == "hold":
            self.hold = True
        elif label == "release":
            next(f for f in self.held if not f.done()).set_result(None)
        elif label == "drop":
            self.n["drop"] += 1
            self._open()[-1].peer_disconnect()
            for f in self.held:
                if not f.done():
                    f.set_result(None)
        elif label == "connect-fails":
            from bleak.exc import BleakError

            self.n["cf"] += 1
            self.rig.connect_fail = BleakError("connection attempt failed")
            self.loop.call_later(0, lambda: None)
        elif label == "disconnect-fails":
            self.n["df"] += 1
            self.fail_disconnect = True
        elif label in ("close", "shutdown"):
            self.n["close"] += 1
            self.closed = True
            self.shut = self.shut or label == "shutdown"
            # close() is not final on this transport (every operation connects on demand): an operation still in flight may legitimately bring the
            # link back; only shutdown() is final
            self.used_after_close = any(not t.done() for t in self.tasks)
            self.closes.append(self.loop.create_task(self.pairing.shutdown() if label == "shutdown" else self.pairing.close()))
        elif label == "timer":
            self.loop.fire_next_timer()
        self.loop.run_until_idle()
        if label == "connect-fails" and not any(not t.done() for t in self.tasks):
            pass
        self._check()

    def _check(self):
        now = self.loop.time()
        opened = self._open()
        if len(opened) > 1:
            self.viol.append(("c11:ble:more-than-one-gatt-connection-open", {"open": len(opened), "clients": len(self.rig.clients), "t": now}))
        for t in list(self.closes):
            if t.done():
                self.closes.remove(t)
                if t.cancelled():
                    self.viol.append(("c11:ble:close-raises:CancelledError", {"t": now}))
                elif t.exception() is not None:
                    self.viol.append((f"c11:ble:close-raises:{type(t.exception()).__name__}", {"err": str(t.exception())[:160], "t": now}))
        busy = any(not t.done() for t in self.tasks + self.closes)
        if self.closed and not busy and not self.used_after_close and opened:
            self.viol.append(("c11:ble:gatt-connection-open-after-close", {"open": len(opened), "shutdown": self.shut, "t": now}))
        if self.shut and not busy and opened:
            self.viol.append(("c11:ble:gatt-connection-open-after-shutdown", {"open": len(opened), "t": now}))
        if self.rig.connect_fail is not None and not busy:
            self.rig.connect_fail = None

    def violations(self):
        v, self.viol = self.viol, []
        out, sigs = [], set()
        for s_, d in v:
            if s_ not in sigs:
                sigs.add(s_)
                out.append((s_, d))
        return out

    def finish(self):
        # let everything that is held complete, run the timers out
        self.hold = False
        for _ in range(60):
            for f in self.held:
                if not f.done():
                    f.set_result(None)
            self.loop.run_until_idle()
            if not any(not t.done() for t in self.tasks + self.closes):
                break
            if self.loop.next_timer() is None:
                break
            self.loop.fire_next_timer()
            self.loop.run_until_idle()
        self._check()
        out = self.violations()
        for t in self.closes:
            if not t.done():
                out.append(("c11:ble:close-or-shutdown-does-not-complete", {"t": self.loop.time()}))
                break
        return out

    def canon(self):
        pr = self.pairing
        timers = tuple(sorted(round(h._when - self.loop.time(), 6) for h in self.loop._scheduled if not h._cancelled))
        return (self.hold, sum(1 for f in self.held if not f.done()), tuple(sorted(self.n.items())), tuple(c.is_connected for c in self.rig.clients), timers, self.closed, self.shut, self.used_after_close,
                self.fail_disconnect, self.rig.connect_fail is not None, tuple((t.done(), t.cancelled()) for t in self.tasks + self.closes), pr.client is None, pr._shutdown,
                pr._encryption_key is not None, pr._restore_pending, _canon.tasks_sig(self.loop))

    def outcome(self):
        return f"open={len(self._open())},links={len(self.rig.clients)},closed={self.closed},shut={self.shut}"

    def close(self):
        for f in self.held:
            if not f.done():
                f.cancel()
        self.rig.close()


def case_ble_conn(p):
    h, trace = explore.run_prefix(lambda: BleConnH(p), p["choices"])
    try:
        v = h.violations() or h.finish()
        return [(s_, dict(detail=d, trace=trace)) for s_, d in v]
    finally:
        h.close()


CASES = {"ble_conn": case_ble_conn}

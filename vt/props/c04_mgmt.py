"""C04, pairing-management leg: add_pairing / remove_pairing on IP (verified session, scripted /pairings replies) and BLE
(reference GATT accessory with a scripted pairings reply) for every error x state x field-order cell."""
from __future__ import annotations

from vt.ref import hap, tlv8

STEPS = {"ip-add": 2, "ip-remove": 2, "ble-add": 2, "ble-remove": 2, "ip-verify-m2": 2, "ip-verify-m4": 4}


def _reply_items(p):
    from vt.props.c04 import ERRORS, _state_val

    state = _state_val(p["state"], STEPS.get(p.get("step"), 2))
    error = ERRORS[p["err"]]
    items = []
    if state is not None:
        items.append((hap.T_STATE, state))
    others = [(hap.T_ID, b"someone")] if hap.T_ID in p["subset"] else []
    items += others
    if error is not None:
        e = (hap.T_ERROR, error)
        if p["errpos"] == "first":
            items.insert(0, e)
        elif p["errpos"] == "afterstate":
            items.insert(1 if state is not None else 0, e)
        else:
            items.append(e)
    return items


def _judge(p, raised, returned):
    from aiohomekit.exceptions import HomeKitException

    det = {k: p[k] for k in ("step", "err", "state", "subset", "errpos", "style")}
    det["http"] = p.get("http", 200)
    det["wire"] = p.get("wire")
    wrong_state = p["state"] not in ("expected", "absent")
    if p["err"] == "absent" and not wrong_state:
        # an honest reply that fails under some legal HTTP spelling is not C04's business (C07/C08/C13 judge that); the error cells of that
        # spelling are then vacuous, which the evidence shows as outcome "honest-fails-under-style"
        if p.get("wire") and raised is not None:
            p["_vacuous_style"] = True
        return []
    sa = "state-absent" if p["state"] == "absent" else ("state-wrong" if wrong_state else "state-ok")
    if raised is None:
        which = "error" if p["err"] != "absent" else "wrong-state"
        hx = f":http-{p['http']}" if p.get("http", 200) != 200 else ""
        wx = f":wire-{p['wire']}" if p.get("wire") else ""
        return [(f"{p['step']}:{which}-reply-reported-as-done:{sa}{hx}{wx}", dict(det, returned=repr(returned)))]
    if not isinstance(raised, HomeKitException):
        return [(f"{p['step']}:fails-with-non-library-error:{type(raised).__name__}", dict(det, err=str(raised)[:160]))]
    return []


def case_mgmt(p):
    """p['cells']: list of cell dicts sharing step; one rig for all of them."""
    step = p["step"]
    out = []
    if step.startswith("ip-verify"):
        return case_ip_verify(p)
    if step.startswith("ip"):
        from vt.env.iprig import IpRig, std_handler

        rig = IpRig(seed=p.get("seed", 0))
        cur = {}
        try:
            rig.acc.handler = std_handler({("POST", "/pairings"): lambda *a: (cur.get("http", 200), tlv8.encode(cur["items"]), "application/pairing+tlv8")})
            rig.connect()
            for cell in p["cells"]:
                cell = dict(cell, step=step)
                cur["items"] = _reply_items(cell)
                rig.acc.http_style = cell.get("wire")
                cur["http"] = cell.get("http", 200)  # accessories commonly send the error TLV inside a 4xx reply (470 with Authentication, 429 with Busy)
                coro = rig.pairing.add_pairing("new-ctl", "ab" * 32, "User") if step == "ip-add" else rig.pairing.remove_pairing("someone-else")
                try:
                    ret, exc = rig.run(coro), None
                except Exception as e:  # noqa: BLE001
                    ret, exc = None, e
                out += _judge(cell, exc, ret)
                if out:
                    break
                if not rig.pairing.is_connected:
                    rig.acc.http_style = None
                    rig.connect()
        finally:
            rig.close()
    else:
        from vt.env.blerig import BleRig

        rig = BleRig(seed=p.get("seed", 0))
        try:
            for cell in p["cells"]:
                cell = dict(cell, step=step)
                rig.acc.pairings_reply = _reply_items(cell)
                coro = rig.pairing.add_pairing("new-ctl", "ab" * 32, "User") if step == "ble-add" else rig.pairing.remove_pairing("someone-else")
                try:
                    ret, exc = rig.run(coro), None
                except Exception as e:  # noqa: BLE001
                    ret, exc = None, e
                out += _judge(cell, exc, ret)
                if out:
                    break
        finally:
            rig.close()
    return out


def case_ip_verify(p):
    """Pair-verify over the real IP connection: the reference accessory answers M1 (or M3) with the cell's reply, put on the wire in the
    cell's HTTP style.  A reply with an error (or a wrong step) must leave the pairing unconnected and the caller with a library error."""
    from vt.env.iprig import IpRig, std_handler

    from aiohomekit.exceptions import HomeKitException

    step = p["step"]
    out = []
    for cell in p["cells"]:
        cell = dict(cell, step=step)
        items = _reply_items(cell)
        rig = IpRig(seed=p.get("seed", 0))
        try:
            rig.acc.handler = std_handler()
            rig.acc.http_style = cell.get("wire")
            if not (cell["err"] == "absent" and cell["state"] in ("expected", "absent") and not cell.get("force")):
                key = "m2" if step == "ip-verify-m2" else "m4"
                if key == "m2" and cell["err"] == "absent":
                    continue  # a wrong-step M2 without error would need the honest fields: the generator-level cells cover it
                rig.acc.verify_fault = {key: (lambda honest, items=items: items), "http": cell.get("http", 200)}
            try:
                rig.connect()
                exc = None
            except Exception as e:  # noqa: BLE001
                exc = e
            connected = bool(rig.pairing.is_connected)
            raised = exc if not connected else None
            if connected and exc is not None:
                raised = None
            v = _judge(cell, raised, "connected" if connected else None)
            if not v and exc is not None and connected:
                v = []
            if not v and exc is not None and not isinstance(exc, (HomeKitException,)):
                v = [(f"{step}:fails-with-non-library-error:{type(exc).__name__}", dict(cell, err=str(exc)[:160]))]
            out += v
            if out:
                break
        finally:
            rig.close()
    return out


def case_ble_shutdown(p):
    """add/remove pairing on BLE answered with an error while another task shuts the pairing down: every schedule of {complete the oldest
    suspended GATT operation, complete the newest one, call shutdown()} (each GATT operation, the disconnect included, is suspended at a
    gate).  If the controller READ the accessory's error reply, the call must not come back as done."""
    from vt.env.blerig import BleRig

    step = p["step"]
    cell = dict(p, step=step)
    items = _reply_items(cell)
    out = []
    nsched = 0
    stack = [()]
    seen_traces = set()
    while stack:
        prefix = stack.pop()
        rig = BleRig(seed=p.get("seed", 0), gated=True)
        rig.gate_disconnect = True
        reply_read = {"n": 0}
        try:
            rig.acc.pairings_reply = items
            orig_read = rig.acc.gatt_read

            def gatt_read(iid, orig_read=orig_read):
                data = orig_read(iid)
                if iid == 24 and data:
                    reply_read["n"] += 1
                return data

            rig.acc.gatt_read = gatt_read
            coro = rig.pairing.add_pairing("new-ctl", "ab" * 32, "User") if step == "ble-add" else rig.pairing.remove_pairing("someone-else")
            task = rig.loop.create_task(coro)
            shut = None
            trace = []
            i = 0
            for _ in range(400):
                rig.loop.run_until_idle()
                if task.done() and (shut is None or shut.done()):
                    break
                menu = []
                live = [w for w in rig.waiting if not w[0].done()]
                rig.waiting[:] = live
                if live:
                    menu.append("oldest")
                    if len(live) > 1:
                        menu.append("newest")
                if shut is None:
                    menu.append("shutdown")
                if not menu:
                    if not rig.loop.fire_next_timer():
                        break
                    continue
                c = prefix[i] if i < len(prefix) else 0
                if i >= len(prefix):
                    for alt in range(1, len(menu)):
                        # bound: shutdown() is one deviation, taking the newest operation first is another; at most two deviations in total
                        if sum(1 for x in prefix if x) + 1 <= 2:
                            stack.append(tuple(prefix) + (0,) * (i - len(prefix)) + (alt,))
                c = min(c, len(menu) - 1)
                i += 1
                act = menu[c]
                trace.append(act)
                if act == "shutdown":
                    shut = rig.loop.create_task(rig.pairing.shutdown())
                elif act == "oldest":
                    rig.release()
                else:
                    w = rig.waiting.pop()
                    if not w[0].done():
                        w[0].set_result(None)
            nsched += 1
            if not task.done():
                task.cancel()
                rig.loop.run_until_idle()
                continue
            if task.cancelled() or task.exception() is not None:
                continue
            judged = cell["err"] != "absent" or cell["state"] not in ("expected", "absent")
            if judged and reply_read["n"] and tuple(trace) not in seen_traces:
                seen_traces.add(tuple(trace))
                out.append((f"{step}:error-reply-reported-as-done:shutdown-in-flight", {"step": step, "err": cell["err"], "state": cell["state"], "schedule": trace, "returned": repr(task.result())}))
                break
        finally:
            rig.close()
    p["_n"] = nsched
    return out


def case_mgmt_cell(p):
    if p.get("shutdown"):
        return case_ble_shutdown(p)
    return case_mgmt(dict(step=p["step"], seed=p.get("seed", 0), cells=[p]))


CASES = {"mgmt": case_mgmt_cell}


def cells(tier):
    from vt.props.c04 import ERRORS, STATES

    for step in ("ble-add", "ble-remove"):
        for err in (["02", "07"] if tier == "quick" else [e for e in ERRORS if e != "absent"]):
            if err in ERRORS:
                yield ("mgmt", dict(step=step, err=err, state="expected", subset=[], errpos="last", style="ble", shutdown=True))

    for step in STEPS:
        for err in ERRORS:
            for state in STATES:
                for subset in ([], [hap.T_ID]) if "verify" not in step else ([],):
                    for errpos in (["last"] if err == "absent" else ["first", "afterstate", "last"]):
                        yield ("mgmt", dict(step=step, err=err, state=state, subset=subset, errpos=errpos, style="ip" if step.startswith("ip") else "ble"))
                        if step.startswith("ip") and (tier == "thorough" or (errpos == "last" and not subset and state in ("expected", "absent"))):
                            for http in (400, 429, 470) if err != "absent" else ():
                                yield ("mgmt", dict(step=step, err=err, state=state, subset=subset, errpos=errpos, style="ip", http=http))
                            from vt.ref.ipacc import HTTP_STYLES

                            for wire in HTTP_STYLES:
                                if err == "absent" and (state != "expected" if tier != "thorough" else state == "absent"):
                                    continue
                                yield ("mgmt", dict(step=step, err=err, state=state, subset=subset, errpos=errpos, style="ip", wire=wire))

"""C04, pairing-management leg: add_pairing / remove_pairing on IP (verified session, scripted /pairings replies) and BLE
(reference GATT accessory with a scripted pairings reply) for every error x state x field-order cell."""
from __future__ import annotations

from vt.core import HarnessError as core_HarnessError
from vt.ref import hap, tlv8

STEPS = {"ip-add": 2, "ip-remove": 2, "ip-remove-facade": 2, "ble-remove-facade": 2, "ble-add": 2, "ble-remove": 2, "ip-verify-m2": 2, "ip-verify-m4": 4, "ble-frag-verify-m2": 2, "ble-frag-verify-m4": 4}


def _reply_items(p):
    from vt.props.c04 import ERRORS, _state_val

    state = _state_val(p["state"], STEPS.get(p.get("step"), 2))
    error = ERRORS[p["err"]]
    items = []
    if state is not None:
        items.append((hap.T_STATE, state))
    others = [(hap.T_ID, b"someone")] if hap.T_ID in p["subset"] else []
    items += others
    if error is not None:
        e = (hap.T_ERROR, error)
        if p["errpos"] == "first":
            items.insert(0, e)
        elif p["errpos"] == "afterstate":
            items.insert(1 if state is not None else 0, e)
        else:
            items.append(e)
    return items


def _judge(p, raised, returned):
    from aiohomekit.exceptions import HomeKitException

    det = {k: p[k] for k in ("step", "err", "state", "subset", "errpos", "style")}
    det["http"] = p.get("http", 200)
    det["wire"] = p.get("wire")
    wrong_state = p["state"] not in ("expected", "absent")
    if p["err"] == "absent" and not wrong_state:
        # an honest reply that fails under some legal HTTP spelling is not C04's business (C07/C08/C13 judge that); the error cells of that
        # spelling are then vacuous, which the evidence shows as outcome "honest-fails-under-style"
        if p.get("wire") and raised is not None:
            p["_vacuous_style"] = True
        return []
    sa = "state-absent" if p["state"] == "absent" else ("state-wrong" if wrong_state else "state-ok")
    if raised is None:
        which = "error" if p["err"] != "absent" else "wrong-state"
        hx = f":http-{p['http']}" if p.get("http", 200) != 200 else ""
        wx = f":wire-{p['wire']}" if p.get("wire") else ""
        return [(f"{p['step']}:{which}-reply-reported-as-done:{sa}{hx}{wx}", dict(det, returned=repr(returned)))]
    if not isinstance(raised, HomeKitException):
        return [(f"{p['step']}:fails-with-non-library-error:{type(raised).__name__}", dict(det, err=str(raised)[:160]))]
    return []


def _facade(rig):
    """The application-facing Controller with this rig's pairing registered under an alias: remove_pairing(alias) is what applications call."""
    from aiohomekit.characteristic_cache import CharacteristicCacheMemory
    from aiohomekit.controller.controller import Controller

    c = Controller(char_cache=CharacteristicCacheMemory())
    c.aliases["alias"] = rig.pairing
    c.pairings[rig.pairing.id] = rig.pairing
    return c


def _pairings_endpoint(rig, scripted):
    """POST /pairings of an accessory that is scripted for the operation under test only: a LIST request (method 5) is answered with the honest
    list - this controller, as admin - whatever the script says.  (A follow-up look at the list must not turn a refused add / remove into a success.)"""
    def handler(sess, method, target, headers, body):
        try:
            req = dict(tlv8.decode(bytes(body)))
        except Exception:  # noqa: BLE001
            req = {}
        if req.get(0) == b"\x05":
            pd = rig.pairing.pairing_data
            items = [(6, b"\x02"), (1, pd["iOSPairingId"].encode()), (3, bytes.fromhex(pd["iOSDeviceLTPK"])), (11, b"\x01")]
            return 200, tlv8.encode(items), "application/pairing+tlv8"
        return scripted()

    return handler


def _late_reply_cells(p):
    """An earlier pairing-management request on the same connection went unanswered until the library's response timer gave it up; the
    operation under test follows.  The accessory answers in order: its late (successful) answer to the first request, then the error reply
    of the cell.  The error reply is the answer to the operation under test - whatever the library did about the first request."""
    from vt.env.iprig import IpRig, std_handler
    from vt.ref import ipacc

    out = []
    for cell in p["cells"]:
        cell = dict(cell, step="ip-remove")
        if cell["err"] == "absent" or cell["state"] != "expected" or cell.get("subset") or cell.get("errpos") != "last" or cell.get("wire") or cell.get("http", 200) != 200:
            continue
        rig = IpRig(seed=p.get("seed", 0))
        try:
            held = {}

            def scripted(sess=None):
                return 200, tlv8.encode(_reply_items(cell)), "application/pairing+tlv8"

            def handler(sess, method, target, headers, body, rig=rig):
                try:
                    req = dict(tlv8.decode(bytes(body)))
                except Exception:  # noqa: BLE001
                    req = {}
                if req.get(0) == b"\x05":
                    return _pairings_endpoint(rig, scripted)(sess, method, target, headers, body)
                if req.get(0) == b"\x03" and not held.get("done"):
                    held["sess"] = sess  # (add pairing: the accessory is slow - its answer comes with the next request, if this session lives that long)
                    held["done"] = True
                    return None
                if held.get("sess") is sess:
                    conn = next(c for c in rig.net.conns if getattr(c, "session", None) is sess)
                    late = ipacc.http_response(200, tlv8.encode([(6, b"\x02")]), "application/pairing+tlv8")
                    err = ipacc.http_response(200, tlv8.encode(_reply_items(cell)), "application/pairing+tlv8")
                    rig.loop.call_soon(lambda: conn.peer_open and conn.send(sess.respond(late + err)))
                    held["sess"] = None
                    return None
                return scripted()

            rig.acc.handler = std_handler({("POST", "/pairings"): handler})
            rig.connect()
            try:
                rig.run(rig.pairing.add_pairing("new-ctl", "ab" * 32, "User"), horizon=120.0)
                first = "returned"
            except Exception as e:  # noqa: BLE001
                first = type(e).__name__
            try:
                ret, exc = rig.run(rig.pairing.remove_pairing("someone-else"), horizon=120.0), None
            except Exception as e:  # noqa: BLE001
                ret, exc = None, e
            v = _judge(cell, exc, ret)
            out += [(sig + ":after-an-earlier-request-on-the-connection-timed-out", dict(det, first_request=first)) for sig, det in v]
            if out:
                break
        finally:
            rig.close()
    return out


def case_mgmt(p):
    """p['cells']: list of cell dicts sharing step; one rig for all of them."""
    step = p["step"]
    out = []
    if step.endswith("-facade"):
        # (a fresh rig per cell: the facade shuts the pairing down whatever happens)
        for cell in p["cells"]:
            cell = dict(cell, step=step)
            if step.startswith("ip"):
                from vt.env.iprig import IpRig, std_handler

                rig = IpRig(seed=p.get("seed", 0))
                rig.acc.handler = std_handler({("POST", "/pairings"): _pairings_endpoint(rig, lambda cell=cell: (cell.get("http", 200), tlv8.encode(_reply_items(cell)), "application/pairing+tlv8"))})
                rig.connect()
            else:
                from vt.env.blerig import BleRig

                rig = BleRig(seed=p.get("seed", 0))
                rig.acc.pairings_reply = _reply_items(cell)
            try:
                try:
                    ret, exc = rig.run(_facade(rig).remove_pairing("alias")), None
                    ret = "returned"
                except Exception as e:  # noqa: BLE001
                    ret, exc = None, e
                out += _judge(cell, exc, ret)
            finally:
                rig.close()
            if out:
                break
        return out
    if step == "ip-remove":
        out += _late_reply_cells(p)
        if out:
            return out
    if step.startswith("ip-verify"):
        return case_ip_verify(p)
    if step.startswith("ip"):
        from vt.env.iprig import IpRig, std_handler

        rig = IpRig(seed=p.get("seed", 0))
        cur = {}
        try:
            rig.acc.handler = std_handler({("POST", "/pairings"): _pairings_endpoint(rig, lambda: (cur.get("http", 200), tlv8.encode(cur["items"]), "application/pairing+tlv8"))})
            rig.connect()
            for cell in p["cells"]:
                cell = dict(cell, step=step)
                cur["items"] = _reply_items(cell)
                rig.acc.http_style = cell.get("wire")
                cur["http"] = cell.get("http", 200)  # accessories commonly send the error TLV inside a 4xx reply (470 with Authentication, 429 with Busy)
                coro = rig.pairing.add_pairing("new-ctl", "ab" * 32, "User") if step == "ip-add" else rig.pairing.remove_pairing("someone-else")
                try:
                    ret, exc = rig.run(coro), None
                except Exception as e:  # noqa: BLE001
                    ret, exc = None, e
                out += _judge(cell, exc, ret)
                if out:
                    break
                if not rig.pairing.is_connected:
                    rig.acc.http_style = None
                    rig.connect()
        finally:
            rig.close()
    else:
        from vt.env.blerig import BleRig

        rig = BleRig(seed=p.get("seed", 0))
        try:
            for cell in p["cells"]:
                cell = dict(cell, step=step)
                rig.acc.pairings_reply = _reply_items(cell)
                coro = rig.pairing.add_pairing("new-ctl", "ab" * 32, "User") if step == "ble-add" else rig.pairing.remove_pairing("someone-else")
                try:
                    ret, exc = rig.run(coro), None
                except Exception as e:  # noqa: BLE001
                    ret, exc = None, e
                out += _judge(cell, exc, ret)
                if out:
                    break
        finally:
            rig.close()
    return out


def case_ip_verify(p):
    """Pair-verify over the real IP connection: the reference accessory answers M1 (or M3) with the cell's reply, put on the wire in the
    cell's HTTP style.  A reply with an error (or a wrong step) must leave the pairing unconnected and the caller with a library error."""
    from vt.env.iprig import IpRig, std_handler

    from aiohomekit.exceptions import HomeKitException

    step = p["step"]
    out = []
    for cell in p["cells"]:
        cell = dict(cell, step=step)
        items = _reply_items(cell)
        rig = IpRig(seed=p.get("seed", 0), hosts=["10.0.0.1", "10.0.0.2"] if cell.get("two_hosts") else ("127.0.0.1",))
        try:
            if cell.get("two_hosts"):
                # two advertised addresses: the error comes from the first one reached; whoever answers at the second would be honest
                orig_accept = rig.net.accept

                def accept(att, host=None, orig_accept=orig_accept):
                    c = orig_accept(att, host)
                    rig.acc.verify_fault = None
                    return c

                rig.net.accept = accept
            rig.acc.handler = std_handler()
            rig.acc.http_style = cell.get("wire")
            if not (cell["err"] == "absent" and cell["state"] in ("expected", "absent") and not cell.get("force")):
                key = "m2" if step == "ip-verify-m2" else "m4"
                if key == "m2" and cell["err"] == "absent":
                    continue  # a wrong-step M2 without error would need the honest fields: the generator-level cells cover it
                rig.acc.verify_fault = {key: (lambda honest, items=items: items), "http": cell.get("http", 200)}
            try:
                rig.connect()
                exc = None
            except Exception as e:  # noqa: BLE001
                exc = e
            connected = bool(rig.pairing.is_connected)
            raised = exc if not connected else None
            if connected and exc is not None:
                raised = None
            v = _judge(cell, raised, "connected" if connected else None)
            if not v and exc is not None and connected:
                v = []
            if not v and exc is not None and not isinstance(exc, (HomeKitException,)):
                v = [(f"{step}:fails-with-non-library-error:{type(exc).__name__}", dict(cell, err=str(exc)[:160]))]
            out += v
            if out:
                break
        finally:
            rig.close()
    return out


FRAG_MODES = ("lone-last", "data+last", "data+data+last", "data-then-plain")


def case_ble_frag(p):
    """A pair-verify reply with an error / wrong step, sent the way a BLE accessory may send pairing replies: wrapped in HAP pairing fragments
    (one lone FragmentLast; FragmentData .. FragmentLast), or a fragmented honest reply broken off by a plain error reply; through the real
    drive_pairing_state_machine and fragment reassembly.  Judged like every other cell: never keys, never "done"."""
    from aiohomekit.controller.ble.client import drive_pairing_state_machine
    from aiohomekit.exceptions import HomeKitException
    from aiohomekit.protocol import get_session_keys
    from vt.env import pairdrv
    from vt.props import c15
    from vt.ref import crypto as C

    step, mode = p["step"], p["frag"]
    cell = dict(p)
    items = _reply_items(dict(cell, step="ip-verify-m2" if step == "ble-frag-verify-m2" else "ip-verify-m4"))
    seed = p.get("seed", 0)
    acc = hap.Identity(f"{seed}|c04f", "acc", b"AA:BB:CC:DD:EE:FF")
    pairing = {"AccessoryPairingID": "AA:BB:CC:DD:EE:FF", "AccessoryLTPK": acc.pk.hex(), "iOSPairingId": "ios", "iOSDeviceLTSK": C.det_bytes(f"{seed}|c04f", "ltsk|ios").hex()}
    state = {"n": 0, "queue": []}

    def frag(reply, how):
        if how == "lone-last":
            return [tlv8.encode([(13, reply)])]
        k = max(1, len(reply) // (3 if how == "data+data+last" else 2))
        parts = [reply[i : i + k] for i in range(0, len(reply), k)] or [b""]
        return [tlv8.encode([(12, x)]) for x in parts[:-1]] + [tlv8.encode([(13, parts[-1])])]

    class Gatt(c15._FakeGatt):
        async def get_characteristic(self, *a, **k):
            return c15._Handle()

        async def get_characteristic_iid(self, h):
            return 10

        async def write_gatt_char(self, handle, data, response):
            await super().write_gatt_char(handle, data, response)
            if self.expect is None and self.bodies:
                body = bytes(self.bodies[-1])
                if state["queue"]:
                    self.pending = state["queue"].pop(0)  # the controller's acknowledgement of a fragment: next piece
                    return
                req = dict(tlv8.decode(body)) if body else {}
                st = req.get(hap.T_STATE)
                if st == b"\x01":
                    honest, shared, acc_pub = hap.pv_m2(acc, C.det_bytes(f"{seed}|c04f", "acc-eph"), bytes(req.get(hap.T_PK, b"")))
                    state["pv"] = (shared, acc_pub)
                    if step == "ble-frag-verify-m2":
                        if mode == "data-then-plain":
                            pieces = frag(tlv8.encode(honest), "data+last")[:1] + [tlv8.encode(items)]
                        else:
                            pieces = frag(tlv8.encode(items), mode)
                    else:
                        pieces = [tlv8.encode(honest)]
                elif st == b"\x03":
                    if mode == "data-then-plain":
                        pieces = [tlv8.encode([(12, b"\x06\x01")]), tlv8.encode(items)]
                    else:
                        pieces = frag(tlv8.encode(items), mode)
                else:
                    pieces = [tlv8.encode([(hap.T_STATE, b"\x02"), (hap.T_ERROR, b"\x01")])]
                self.pending = pieces[0]
                state["queue"] = pieces[1:]

    gatt = Gatt([])
    with pairdrv.pinned_keys(f"{seed}|c04f"):
        try:
            ret, exc = c15._drive(drive_pairing_state_machine(gatt, "0000004E-0000-1000-8000-0026BB765291", get_session_keys(pairing))), None
        except core_HarnessError:
            raise
        except Exception as e:  # noqa: BLE001
            ret, exc = None, e
    det = {k: p[k] for k in ("step", "err", "state", "errpos", "frag")}
    wrong_state = p["state"] not in ("expected", "absent")
    if p["err"] == "absent" and not wrong_state:
        return []
    if exc is None:
        return [(f"{step}:{'error' if p['err'] != 'absent' else 'wrong-state'}-reply-yields-keys:fragmented:{mode}", dict(det, returned=type(ret).__name__))]
    if not isinstance(exc, HomeKitException):
        return [(f"{step}:fails-with-non-library-error:{type(exc).__name__}:fragmented:{mode}", dict(det, err=str(exc)[:160]))]
    return []


def case_ble_resume(p):
    """A BlePairing that has verified once (so it holds a resumable session) reconnects; the accessory answers the RESUMED pair-verify M1 with the
    cell's reply.  The operation that needed the session fails; it does not quietly go on."""
    from aiohomekit.exceptions import HomeKitException
    from vt.env.blerig import BleRig

    cell = dict(p, step="ip-verify-m2")
    items = _reply_items(cell)
    rig = BleRig(seed=p.get("seed", 0))
    try:
        try:
            rig.run(rig.pairing.get_characteristics([(1, 9)]))
        except Exception as e:  # noqa: BLE001
            raise core_HarnessError(f"first BLE operation failed in the harness: {e!r}")
        rig.client.peer_disconnect()
        rig.loop.run_until_idle()
        rig.acc.resume_reply_override = items
        try:
            ret, exc = rig.run(rig.pairing.get_characteristics([(1, 9)])), None
        except Exception as e:  # noqa: BLE001
            ret, exc = None, e
        det = {k: p[k] for k in ("step", "err", "state", "errpos")}
        det["resume_requests_seen_by_accessory"] = getattr(rig.acc, "resume_requests", 0)
        if not getattr(rig.acc, "resume_requests", 0):
            return []  # the controller did not try to resume: the cell did not happen
        wrong_state = p["state"] not in ("expected", "absent")
        if p["err"] == "absent" and not wrong_state:
            return []
        if exc is None:
            return [(f"ble-resume-verify-m2:{'error' if p['err'] != 'absent' else 'wrong-state'}-reply-and-the-operation-completes", dict(det, returned=repr(ret)[:80]))]
        if not isinstance(exc, HomeKitException):
            return [(f"ble-resume-verify-m2:fails-with-non-library-error:{type(exc).__name__}", dict(det, err=str(exc)[:160]))]
        return []
    finally:
        rig.close()


def case_ble_shutdown(p):
    """add/remove pairing on BLE answered with an error while another task shuts the pairing down: every schedule of {complete the oldest
    suspended GATT operation, complete the newest one, call shutdown()} (each GATT operation, the disconnect included, is suspended at a
    gate).  If the controller READ the accessory's error reply, the call must not come back as done."""
    from vt.env.blerig import BleRig

    step = p["step"]
    cell = dict(p, step=step)
    items = _reply_items(cell)
    out = []
    nsched = 0
    stack = [()]
    seen_traces = set()
    while stack:
        prefix = stack.pop()
        rig = BleRig(seed=p.get("seed", 0), gated=True)
        rig.gate_disconnect = True
        reply_read = {"n": 0}
        try:
            rig.acc.pairings_reply = items
            orig_read = rig.acc.gatt_read

            def gatt_read(iid, orig_read=orig_read):
                data = orig_read(iid)
                if iid == 24 and data:
                    reply_read["n"] += 1
                return data

            rig.acc.gatt_read = gatt_read
            coro = rig.pairing.add_pairing("new-ctl", "ab" * 32, "User") if step == "ble-add" else rig.pairing.remove_pairing(rig.pairing.pairing_data["iOSPairingId"] if p.get("own") else "someone-else")
            task = rig.loop.create_task(coro)
            shut = None
            dropped = False
            trace = []
            i = 0
            for _ in range(400):
                rig.loop.run_until_idle()
                if task.done() and (shut is None or shut.done()):
                    break
                menu = []
                live = [w for w in rig.waiting if not w[0].done()]
                rig.waiting[:] = live
                if live:
                    menu.append("oldest")
                    if len(live) > 1:
                        menu.append("newest")
                if shut is None:
                    menu.append("shutdown")
                if not dropped and rig.client is not None and rig.client.is_connected and p.get("drops"):
                    menu.append("drop")  # the accessory hangs up
                    if live and live[0][1] == "read":
                        menu.append("oldest-then-drop")  # ... right after the data of this read
                if not menu:
                    if not rig.loop.fire_next_timer():
                        break
                    continue
                c = prefix[i] if i < len(prefix) else 0
                if i >= len(prefix):
                    for alt in range(1, len(menu)):
                        # bound: shutdown() is one deviation, taking the newest operation first is another; at most two deviations in total
                        if sum(1 for x in prefix if x) + 1 <= 2:
                            stack.append(tuple(prefix) + (0,) * (i - len(prefix)) + (alt,))
                c = min(c, len(menu) - 1)
                i += 1
                act = menu[c]
                trace.append(act)
                if act == "oldest-then-drop":
                    dropped = True
                    rig.release(override="then-drop")
                elif act == "drop":
                    dropped = True
                    rig.client.peer_disconnect()
                    for w in rig.waiting:
                        if not w[0].done():
                            w[0].set_result(None)
                elif act == "shutdown":
                    shut = rig.loop.create_task(rig.pairing.shutdown())
                elif act == "oldest":
                    rig.release()
                else:
                    w = rig.waiting.pop()
                    if not w[0].done():
                        w[0].set_result(None)
            nsched += 1
            if not task.done():
                task.cancel()
                rig.loop.run_until_idle()
                continue
            if task.cancelled() or task.exception() is not None:
                continue
            judged = cell["err"] != "absent" or cell["state"] not in ("expected", "absent")
            if judged and reply_read["n"] and tuple(trace) not in seen_traces:
                seen_traces.add(tuple(trace))
                out.append((f"{step}:error-reply-reported-as-done:" + ("link-dropped-after-the-reply" if dropped and shut is None else "shutdown-in-flight"), {"step": step, "own_pairing": bool(p.get("own")), "err": cell["err"], "state": cell["state"], "schedule": trace, "returned": repr(task.result())}))
                break
        finally:
            rig.close()
    p["_n"] = nsched
    return out


def case_mgmt_cell(p):
    if p.get("frag"):
        return case_ble_frag(p)
    if p.get("resume"):
        return case_ble_resume(p)
    if p.get("shutdown"):
        return case_ble_shutdown(p)
    return case_mgmt(dict(step=p["step"], seed=p.get("seed", 0), cells=[p]))


CASES = {"mgmt": case_mgmt_cell}


def cells(tier):
    from vt.props.c04 import ERRORS, STATES

    for step in ("ble-frag-verify-m2", "ble-frag-verify-m4"):
        for err in ERRORS:
            for state in (STATES if err == "absent" or tier == "thorough" else ["expected", "absent"]):
                for mode in FRAG_MODES:
                    yield ("mgmt", dict(step=step, err=err, state=state, subset=[], errpos="last", style="ble", frag=mode))
    for err in ERRORS:
        for state in (STATES if err == "absent" or tier == "thorough" else ["expected", "absent"]):
            yield ("mgmt", dict(step="ble-resume-verify-m2", err=err, state=state, subset=[], errpos="last", style="ble", resume=True))
    for step in ("ble-add", "ble-remove"):
        for err in (["02", "07"] if tier == "quick" else [e for e in ERRORS if e != "absent"]):
            if err in ERRORS:
                yield ("mgmt", dict(step=step, err=err, state="expected", subset=[], errpos="last", style="ble", shutdown=True))
                if step == "ble-remove":
                    yield ("mgmt", dict(step=step, err=err, state="expected", subset=[], errpos="last", style="ble", shutdown=True, own=True, drops=True))

    for step in [s_ for s_ in STEPS if not s_.startswith("ble-frag")]:
        for err in ERRORS:
            for state in STATES:
                for subset in ([], [hap.T_ID]) if "verify" not in step else ([],):
                    for errpos in (["last"] if err == "absent" else ["first", "afterstate", "last"]):
                        yield ("mgmt", dict(step=step, err=err, state=state, subset=subset, errpos=errpos, style="ip" if step.startswith("ip") else "ble"))
                        if step.startswith("ip") and (tier == "thorough" or (errpos == "last" and not subset and state in ("expected", "absent"))):
                            if "verify" in step and err == "02" and errpos == "last" and state in ("expected", "absent"):  # (only an authentication error ends the retries: C10; a reply that ALSO carries a wrong step number may fail as invalid, and then the next address is tried)
                                yield ("mgmt", dict(step=step, err=err, state=state, subset=subset, errpos=errpos, style="ip", two_hosts=True))
                            for http in (400, 429, 470) if err != "absent" else ():
                                yield ("mgmt", dict(step=step, err=err, state=state, subset=subset, errpos=errpos, style="ip", http=http))
                            from vt.ref.ipacc import HTTP_STYLES

                            for wire in HTTP_STYLES:
                                if err == "absent" and (state != "expected" if tier != "thorough" else state == "absent"):
                                    continue
                                yield ("mgmt", dict(step=step, err=err, state=state, subset=subset, errpos=errpos, style="ip", wire=wire))

"""C08 request/response attribution and prompt failure: E1 depth-bounded exploration of all interleavings of
{request issued, response delivered whole/split, event, cancel, 30 s timer, peer close/reset, unsolicited response}
against the real HomeKitConnection.request on a virtual loop."""
from __future__ import annotations

import asyncio

from vt import core, explore, vloop
from vt.ref import ipacc

META = dict(
    level="model_checking",
    engine="E1",
    technique="stateless exhaustive exploration (depth- and preemption-bounded DFS with canonical-state pruning) of environment-event schedules against the real connection/protocol coroutines on a virtual-time event loop",
    text="all sequences up to depth D over {caller k issues a request, next response delivered whole / first half / rest, EVENT delivered, "
    "caller cancelled, 30 s timer fires, peer EOF, peer reset, unsolicited response} with 2-3 concurrent callers, concurrency limit 1 (as shipped) "
    "and 2-3 (the FIFO mechanism), insecure and secure sessions, preemptive injection between loop iterations bounded by P; oracle: own tag, same "
    "connection, events exactly once to the sink, abandoned connection after timeout/cancel/drop, no caller pending at the horizon and failed ones hold "
    "AccessoryDisconnectedError (or their own CancelledError) Split sweep: every two-piece split position of a response x {Content-Length, chunked (1/2 chunks), header-case variants} x {plain, encrypted} x {with, without an interleaved event}, followed by a second request; further configurations under byte-wise reads and reads that end inside a block. Also: body-less answers (no Content-Length, Content-Length: 0) and a response and an event within one read. Also sockets whose close completes late (unsent bytes in the write buffer): requests out on a connection that is being dropped fail at once.",
    note="environment model = VirtualLoop/MemTransport (conformance-tested against stock asyncio); bounded depth D and preemptions P as reported",
    design_ref="DESIGN.md §4 C08",
    debug_pass="thorough",
    rule="state = canonical (protocol queues, parser, transport, callers, responder queue, timers); transition = one environment event or loop iteration; execution = maximal path",
)

NCALL = 3


class _Owner:
    """Minimal owner (the pairing) for a bare HomeKitConnection."""

    name = "rig"
    description = None

    def __init__(self):
        self.events = []

    async def connection_made(self, secure):
        return None

    def event_received(self, ev):
        self.events.append(ev)


class H(explore.Harness):
    def __init__(self, p):
        self.p = p
        self.limit = p["limit"]
        self.P = p["P"]
        self.secure = p.get("secure", False)
        self.loop = vloop.VirtualLoop().install()
        self.preempt = 0
        self.deviations = 0
        self.depth_used = 0
        self.viol = []
        self.tasks = {}
        self.sent_on = {}
        self.nev = 0
        self.responder = {}  # cid -> list of pending (tag) for which a response has not been delivered
        self.partial = None  # (conn, rest bytes)
        self.closed_conns = set()
        self.sent_at = {}
        self.rst_due = {}
        self.abandon_marks = []
        self.app_closed = False
        self.req_time = {}
        self.expect_ok = {}
        self.secure_frames = 2
        if self.secure:
            from vt.env.iprig import IpRig

            self.rig = IpRig(seed=p.get("seed", 0), auto=True, env=p.get("env"))
            self.net = self.rig.net
            self.rig.acc.handler = self._app_handler
            self.loop = self.rig.loop
            self.rig.pairing.dispatcher_connect(lambda ev: self.owner_events.append(ev))
            self.owner_events = []
            self.conn = self.rig.conn
            self.rig.connect()
        else:
            from aiohomekit.controller.ip.connection import HomeKitConnection

            self.net = vloop.SimNet(self.loop)
            self.net.delivery = (p.get("env") or {}).get("delivery")
            self._patch = vloop.patched_network(self.net)
            self._patch.__enter__()
            self.net.auto = lambda att: ("ok", att["hosts"][0])
            orig = self.net.accept

            def accept(att, host=None):
                c = orig(att, host)
                c.buf = bytearray()
                c.handler = self._plain_rx
                if p.get("slow_close"):
                    c.slow_close = True  # the peer is not reading: unsent bytes sit in the write buffer, a close() completes late
                return c

            self.net.accept = accept
            self.owner = _Owner()
            self.owner_events = self.owner.events
            self.conn = HomeKitConnection(self.owner, ["10.0.0.1"], 80, concurrency_limit=self.limit)
            self.loop.run_coro(self.conn.ensure_connection())
        if self.secure and self.limit != 1:
            self.conn._concurrency_limit = asyncio.Semaphore(self.limit)
        self.loop.run_until_idle()

    # ---- accessory side
    def _plain_rx(self, c, data):
        c.buf += data
        for method, target, headers, body, raw in ipacc.parse_http_requests(c.buf):
            self.responder.setdefault(c.cid, []).append(target[2:])
            self.sent_on[target[2:]] = c.cid
            self.sent_at[target[2:]] = self.loop.time()

    def _app_handler(self, sess, method, target, headers, body):
        if target.startswith("/r"):
            cid = next(cid for cid, s in self.rig.sessions.items() if s is sess)
            self.responder.setdefault(cid, []).append(target[2:])
            self.sent_on[target[2:]] = cid
            self.sent_at[target[2:]] = self.loop.time()
            return None
        return 404, b"", None

    def _response(self, c, tag):
        """The accessory's answer to request `tag` on connection c, in this configuration's style.  Body-less styles carry the tag in a header."""
        style = self.p.get("resp")
        if style == "204":  # no Content-Length at all: the message ends at the blank line
            return f"HTTP/1.1 204 No Content\r\nX-Tag: {c.cid}:{tag}\r\n\r\n".encode()
        if style == "204-cl0":
            return f"HTTP/1.1 204 No Content\r\nContent-Length: 0\r\nX-Tag: {c.cid}:{tag}\r\n\r\n".encode()
        return ipacc.http_response(200, f"{c.cid}:{tag}".encode(), "text/plain")

    def _wire(self, c, plain):
        style = self.p.get("resp")
        if style in ("204", "204-cl0"):
            style = None
        if style:
            plain = ipacc.restyle(plain, style)  # e.g. chunked, as real accessories answer /accessories and /characteristics
        k = self.p.get("split")
        self._split_at = None
        if self.secure:
            if k is not None:
                # the accessory ends its first block after k plaintext bytes: that is the read boundary the HTTP layer sees
                return c.session.respond(plain, sizes=[min(k, 1024), 1024])
            return c.session.respond(plain, sizes=[max(1, len(plain) // 2)])  # two (or three) encrypted blocks per message
        if k is not None:
            self._split_at = min(k, len(plain) - 1)
        return plain

    def _cur(self):
        """the connection currently attached to the controller's transport (may be None)"""
        tr = self.conn.transport
        for c in self.net.conns:
            if c.transport is tr and tr is not None:
                return c
        return None

    def _in_time(self, k):
        """the caller's 30 s timer cannot have fired yet, it was not cancelled and the application did not close"""
        return self.loop.time() < self.req_time.get(k, 0) + 30 - 1e-6 and not any(m[0] == "cancel" and m[1] == k for m in self.abandon_marks) and not self.app_closed

    # ---- explorer interface
    def _events(self):
        ev = []
        for k in range(NCALL):
            if k not in self.tasks and k < self.p["callers"]:
                ev.append(f"req:{k}")
                break  # symmetric callers: only the next one may start (canonical order)
        live = [c for c in self.net.conns if c.transport is not None and not c.transport.is_closing() and c.peer_open and not getattr(c, "rst_pending", False)]
        for c in live:
            q = self.responder.get(c.cid, [])
            if self.partial and self.partial[0] is c:
                ev.append(f"deliver-rest:{c.cid}")
            elif q:
                ev.append(f"deliver:{c.cid}")
                ev.append(f"deliver-split:{c.cid}")
                if self.p.get("combo"):
                    ev.append(f"deliver+event:{c.cid}")  # the response and an event reach the controller in ONE read
                    ev.append(f"event+deliver:{c.cid}")
            else:
                ev.append(f"unsolicited:{c.cid}")
            if not (self.partial and self.partial[0] is c):
                ev.append(f"event:{c.cid}")
            ev.append(f"peer-close:{c.cid}")
            ev.append(f"peer-reset:{c.cid}")
            if self.loop.has_ready() and self.p.get("rst_window") and c.cid not in self.rst_due:
                # the peer's RST reaches the kernel while the loop is busy: it is only seen at the next poll, i.e. after the handles that are
                # ready now and those they schedule have run (until then write_eof() on that socket fails)
                ev.append(f"rst-arrives:{c.cid}")
        if self.p.get("ticks") and any(not t.done() for t in self.tasks.values()) and not self.loop.has_ready():
            ev.append("tick:12")  # 12 s pass (timers falling due fire on the way)
        for k, t in self.tasks.items():
            if not t.done():
                ev.append(f"cancel:{k}")
        if not self.app_closed and any(not t.done() for t in self.tasks.values()) and not self.secure:
            ev.append("app-close")  # the application closes the connection while requests are waiting
        return ev

    def menu(self):
        ready = self.loop.has_ready()
        m = []
        if ready:
            m.append("run1")
            if self.preempt < self.P:
                m += self._events()
        else:
            m += self._events()
            if self.loop.next_timer() is not None and any(not t.done() for t in self.tasks.values()):
                m.append("timer")
        return m

    def is_deviation(self, i, label):
        return False

    def take(self, i):
        m = self.menu()
        label = m[i]
        if label == "run1":
            self.loop.run_batch()
            for cid in list(self.rst_due):
                self.rst_due[cid] -= 1
                if self.rst_due[cid] <= 0:
                    del self.rst_due[cid]
                    self.net.conns[cid].peer_reset()
            self._check()
            return
        if self.loop.has_ready():
            self.preempt += 1
        self.depth_used += 1
        kind, _, arg = label.partition(":")
        if kind == "req":
            k = int(arg)
            self.tasks[k] = self.loop.create_task(self.conn.request("GET", f"/r{k}"))
            self.req_time[k] = self.loop.time()
        elif kind in ("deliver", "deliver-split"):
            c = self.net.conns[int(arg)]
            tag = self.responder[c.cid].pop(0)
            wire = self._wire(c, self._response(c, tag))
            live = not c.transport.is_closing()
            caller = self.tasks.get(int(tag)) if tag.isdigit() else None
            if kind == "deliver":
                c.send(wire)
                if live and caller is not None and not caller.done() and self._in_time(int(tag)):
                    self.expect_ok[int(tag)] = f"{c.cid}:{tag}"
            else:
                # secure: a read holding a complete block and part of the next one; insecure: the middle of the message
                h = (len(wire) * 3) // 4 if self.secure else len(wire) // 2
                if getattr(self, "_split_at", None) is not None:
                    h = self._split_at
                elif self.secure and self.p.get("split") is not None:
                    h = min(self.p["split"], 1024) + 18  # exactly the first block
                self.partial = (c, wire[h:], tag)
                c.send(wire[:h])
        elif kind in ("deliver+event", "event+deliver"):
            c = self.net.conns[int(arg)]
            tag = self.responder[c.cid].pop(0)
            self.nev += 1
            w_r = self._wire(c, self._response(c, tag)) if kind == "deliver+event" else None
            w_e = self._wire(c, ipacc.event_message(ipacc.jbody({"e": self.nev}) if not self.secure else ipacc.jbody({"characteristics": [{"aid": 1, "iid": 9, "value": self.nev}]})))
            if w_r is None:
                w_r = self._wire(c, self._response(c, tag))  # (secure: blocks are numbered in the order they are produced)
            live = not c.transport.is_closing()
            caller = self.tasks.get(int(tag)) if tag.isdigit() else None
            c.send(w_r + w_e if kind == "deliver+event" else w_e + w_r)
            if live and caller is not None and not caller.done() and self._in_time(int(tag)):
                self.expect_ok[int(tag)] = f"{c.cid}:{tag}"
            if live:
                self.expect_ev = getattr(self, "expect_ev", []) + [self.nev]
        elif kind == "deliver-rest":
            c, rest, tag = self.partial
            self.partial = None
            live = not c.transport.is_closing()
            caller = self.tasks.get(int(tag)) if tag.isdigit() else None
            c.send(rest)
            if live and caller is not None and not caller.done() and self._in_time(int(tag)):
                self.expect_ok[int(tag)] = f"{c.cid}:{tag}"
        elif kind == "unsolicited":
            c = self.net.conns[int(arg)]
            c.send(self._wire(c, self._response(c, "U")))
        elif kind == "event":
            c = self.net.conns[int(arg)]
            self.nev += 1
            c.send(self._wire(c, ipacc.event_message(ipacc.jbody({"e": self.nev}) if not self.secure else ipacc.jbody({"characteristics": [{"aid": 1, "iid": 9, "value": self.nev}]}))))
        elif kind == "peer-close":
            c = self.net.conns[int(arg)]
            c.peer_close()
            self.partial = None if self.partial and self.partial[0] is c else self.partial
        elif kind == "peer-reset":
            c = self.net.conns[int(arg)]
            c.peer_reset()
            self.partial = None if self.partial and self.partial[0] is c else self.partial
        elif kind == "tick":
            self.loop.advance(float(arg))
        elif kind == "rst-arrives":
            c = self.net.conns[int(arg)]
            c.peer_reset_arrives()
            self.rst_due[c.cid] = 2
            self.partial = None if self.partial and self.partial[0] is c else self.partial
        elif kind == "app-close":
            self.app_closed = True
            self.loop.create_task(self.conn.close())
        elif kind == "cancel":
            k = int(arg)
            self.tasks[k].cancel()
            self.abandon_marks.append(("cancel", k, self.sent_on.get(str(k))))
        elif kind == "timer":
            self.loop.fire_next_timer()
        if not (self.preempt and self.loop.has_ready() and self.preempt <= self.P and kind != "timer" and False):
            pass
        self._check()

    # ---- oracle
    def _check(self):
        from aiohomekit.exceptions import AccessoryDisconnectedError

        for k, t in self.tasks.items():
            if not t.done() or t.cancelled():
                continue
            exc = t.exception()
            if exc is None:
                body = bytes(t.result().body).decode() or dict(t.result().headers).get("X-Tag", "")
                cid, _, tag = body.partition(":")
                if tag != str(k):
                    self.viol.append(("request-completed-with-foreign-response", {"caller": k, "got": body}))
                elif self.sent_on.get(str(k)) != int(cid):
                    self.viol.append(("response-from-a-connection-the-request-was-not-sent-on", {"caller": k, "got": body, "sent_on": self.sent_on.get(str(k))}))
            elif not isinstance(exc, AccessoryDisconnectedError):
                self.viol.append((f"request-failed-with-{type(exc).__name__}-not-disconnection-error", {"caller": k, "err": str(exc)[:200]}))
        if not self.loop.has_ready():
            # (a) the accessory's complete response was delivered on a live connection to a caller that was still waiting: it must have it now
            for k, body in list(self.expect_ok.items()):
                t = self.tasks[k]
                del self.expect_ok[k]
                if not t.done():
                    self.viol.append(("response-delivered-but-request-still-pending", {"caller": k}))
                elif t.cancelled() or t.exception() is not None:
                    if not any(m[0] == "cancel" and m[1] == k for m in self.abandon_marks):
                        self.viol.append(("response-delivered-but-request-failed", {"caller": k, "err": repr(t.exception())[:120] if not t.cancelled() else "cancelled"}))
            # (a') a caller gets its turn: with a live connection and fewer requests on the wire than the connection allows, a waiting request has
            # been written (a slot that a failed caller never gave back would starve everybody behind it, reconnects included)
            cur = self._cur()
            if cur is not None and cur.transport is not None and not cur.transport.is_closing() and cur.peer_open and not getattr(cur, "rst_pending", False) and not self.app_closed:
                on_wire = [k for k, t in self.tasks.items() if not t.done() and self.sent_on.get(str(k)) == cur.cid]
                waiting = [k for k, t in self.tasks.items() if not t.done() and str(k) not in self.sent_on]
                if waiting and len(on_wire) < self.limit and self.conn.is_connected:
                    self.viol.append(("waiting-request-not-written-although-the-connection-has-a-free-slot", {"waiting": waiting, "on_wire": on_wire, "limit": self.limit, "cid": cur.cid}))
            # (a'') the 30 s belong to the request: whatever else the accessory sends meanwhile (events), an unanswered request is over 30 s after
            # it was written
            for k, t in self.tasks.items():
                if not t.done() and str(k) in self.sent_at and self.loop.time() > self.sent_at[str(k)] + 30.0 + 1e-6:
                    self.viol.append(("unanswered-request-still-pending-after-its-30s", {"caller": k, "written_at": self.sent_at[str(k)], "now": self.loop.time()}))
            # (b) promptness: once a connection is abandoned (closed by the controller) or dropped, nothing written on it may still be waiting
            for k, t in self.tasks.items():
                if t.done() or str(k) not in self.sent_on:
                    continue
                c = self.net.conns[self.sent_on[str(k)]]
                if not c.client_open or not c.peer_open or (c.transport is not None and c.transport.is_closing()):
                    self.viol.append(("outstanding-request-not-failed-promptly-after-connection-abandoned-or-dropped", {"caller": k, "cid": c.cid, "client_open": c.client_open, "peer_open": c.peer_open}))
        if not self.loop.has_ready() and getattr(self, "expect_ev", None):
            seen = set(self._seen_events())
            lost = [e for e in self.expect_ev if e not in seen]
            self.expect_ev = []
            if lost:
                self.viol.append(("event-in-the-same-read-as-a-response-lost", {"events": lost, "seen": sorted(seen)}))
        evs = self._seen_events()
        if len(evs) != len(set(evs)):
            self.viol.append(("event-delivered-twice", {"events": evs}))
        if any(e > self.nev or e < 1 for e in evs):
            self.viol.append(("unknown-event-delivered", {"events": evs}))
        if evs != sorted(evs):
            self.viol.append(("events-out-of-order", {"events": evs}))

    def _seen_events(self):
        out = []
        for ev in self.owner_events:
            if self.secure:
                for key, v in ev.items():
                    out.append(v.get("value"))
            else:
                out.append(ev.get("e"))
        return out

    def violations(self):
        v, self.viol = self.viol, []
        return v

    def canon(self):
        pr = self.conn.protocol
        from vt.props.c07 import canon_resp

        prs = None
        if pr is not None:
            prs = (tuple((f.done(), f.cancelled()) for f in pr.result_cbs), canon_resp(pr.current_response), pr.transport.is_closing() if getattr(pr, "transport", None) else None,
                   bytes(getattr(pr, "_incoming_buffer", b"")), getattr(pr, "a2c_counter", 0), getattr(pr, "c2a_counter", 0))
        ts = tuple((k, t.done(), t.cancelled(), (type(t.exception()).__name__ if t.done() and not t.cancelled() and t.exception() else None)) for k, t in sorted(self.tasks.items()))
        conns = tuple((c.cid, c.client_open, c.peer_open, tuple(self.responder.get(c.cid, [])), c.transport.is_closing() if c.transport else None) for c in self.net.conns)
        nt = self.loop.next_timer()
        timers = tuple(sorted(round(h._when - self.loop.time(), 6) for h in self.loop._scheduled if not h._cancelled))
        from vt import canon as _c

        generic = _c.canon(self.conn, depth=3, skip=("owner", "_loop", "_connect_lock", "pairing_data", "_connector"))
        return (tuple(sorted(self.rst_due.items())), prs, ts, conns, timers, self.partial is not None, len(self.loop._ready), self.preempt, tuple(self._seen_events()), self.conn.closing, self.conn.transport is None,
                self.conn._concurrency_limit._value, len(self.net.pending()), generic, _c.tasks_sig(self.loop))

    def finish(self):
        out = []
        for _ in range(2):  # resets the kernel already has are seen by the loop at its next polls
            if self.loop.has_ready():
                self.loop.run_batch()
        for cid in list(self.rst_due):
            del self.rst_due[cid]
            self.net.conns[cid].peer_reset()
        # requests written on the wire must fail within 30 s (+eps) of virtual time absent further events
        outstanding = [k for k, t in self.tasks.items() if not t.done() and str(k) in self.sent_on]
        self.loop.advance(30.5)
        self._check()
        out += self.violations()
        for k in outstanding:
            if not self.tasks[k].done():
                out.append(("outstanding-request-still-pending-after-30s", {"caller": k}))
        # queued callers get their turn afterwards; nobody may hang forever
        for _ in range(NCALL + 1):
            self.loop.advance(30.5)
        self._check()
        out += self.violations()
        for k, t in self.tasks.items():
            if not t.done():
                out.append(("caller-pending-at-horizon", {"caller": k}))
        # abandoned connections: a connection on which a request timed out / was cancelled / that dropped must be closed by the controller
        for kind, k, cid in self.abandon_marks:
            if cid is not None and self.net.conns[cid].client_open and not self.net.conns[cid].client_closing:  # (close() called = abandoned, however late the transport reports it)
                out.append(("connection-not-abandoned-after-" + kind, {"caller": k, "cid": cid}))
        for k, t in self.tasks.items():
            if t.done() and not t.cancelled() and t.exception() is not None and str(k) in self.sent_on:
                cid = self.sent_on[str(k)]
                if self.net.conns[cid].client_open and not self.net.conns[cid].client_closing:
                    out.append(("connection-not-abandoned-after-failed-request", {"caller": k, "cid": cid}))
        bad = [c for c in self.loop.unhandled if not isinstance(c.get("exception"), (IndexError, RuntimeError))]
        return out

    def outcome(self):
        return ",".join(("ok" if (t.done() and not t.cancelled() and not t.exception()) else ("cancelled" if t.cancelled() else (type(t.exception()).__name__ if t.done() else "pending"))) for _, t in sorted(self.tasks.items())) or "none"

    def close(self):
        try:
            if self.secure:
                self.rig.close()
            else:
                self.loop.shutdown()
                self._patch.__exit__(None, None, None)
        except Exception:  # noqa: BLE001
            pass


def case_explore(p):
    """Replay a single choice sequence (p['choices']) and report violations."""
    h, trace = explore.run_prefix(lambda: H(p), tuple(p.get("choices", ())))
    try:
        v = h.violations()
        if not v:
            v = h.finish()
        return [(s, dict(detail=d, trace=trace)) for s, d in v]
    finally:
        h.close()


def _take(h, label):
    m = h.menu()
    if label not in m:
        raise core.HarnessError(f"label {label} not enabled in {m}")
    h.take(m.index(label))
    while "run1" in h.menu():
        h.take(h.menu().index("run1"))


def case_splits(p):
    """Every position at which a response can be cut in two (insecure: two reads; secure: the accessory's block boundary, then two reads),
    for one response style; the caller must get exactly that response, and a second request on the same connection its own."""
    out = []
    probe = H(dict(p, split=None))
    try:
        _take(probe, "req:0")
        c = probe._cur()
        n = len(ipacc.restyle(probe._response(c, "0"), p["resp"]) if p.get("resp") and not p["resp"].startswith("204") else probe._response(c, "0"))
    finally:
        probe.close()
    nrun = 0
    for k in range(1, n):
        for with_event in (False, True):
            h = H(dict(p, split=k))
            trace = []
            try:
                for label in ["req:0"] + (["event:0"] if with_event else []) + ["deliver-split:0", "deliver-rest:0", "req:1", "deliver:0"]:
                    _take(h, label)
                    trace.append(label)
                    v = h.violations()
                    if v:
                        break
                if not v:
                    v = h.finish()
                if not v:
                    res = h.outcome()
                    if res != "ok,ok":
                        v = [("split-response-not-delivered-to-its-request", {"outcome": res})]
                    elif with_event and h._seen_events() != [1]:
                        v = [("event-lost-next-to-split-response", {"events": h._seen_events()})]
                nrun += 1
                if v:
                    out += [(s_, dict(detail=d, split=k, resp=p.get("resp"), secure=p.get("secure", False), trace=trace)) for s_, d in v]
                    break
            finally:
                h.close()
        if out:
            break
    p["_n"] = nrun
    return out


CASES = {"explore": case_explore, "splits": case_splits}


def _work_splits(item, seed, tier):
    acc = core.Acc()
    p = dict(item, seed=seed)
    v = case_splits(p)
    n = p.pop("_n", 1)
    acc.case(key=("splits", core.jsonable(p)), outcome=f"splits:{'ok' if not v else v[0][0]}", sample={"case": "splits", "params": p}, symbols=("splits", f"resp:{p.get('resp')}", "secure" if p.get("secure") else "plain"))
    acc.extra["split_positions_run"] += n
    acc.traces += n
    for sig, detail in v:
        acc.violation(sig, "splits", p, detail)
    return acc


def _work(item, seed, tier):
    acc = core.Acc()
    p, root, depth = item
    explore.explore(lambda: H(p), acc, depth=depth, case="explore", params=p, root=root, prune=True)
    return acc


def _determinism(p, prefix):
    a = case_explore(dict(p, choices=list(prefix)))
    h1, t1 = explore.run_prefix(lambda: H(p), prefix)
    c1 = h1.canon()
    h1.close()
    h2, t2 = explore.run_prefix(lambda: H(p), prefix)
    c2 = h2.canon()
    h2.close()
    if t1 != t2 or c1 != c2:
        raise core.HarnessError(f"non-deterministic replay of {prefix}: {t1} vs {t2}")


def run(ctx):
    quick = ctx.tier == "quick"
    configs = [
        dict(limit=1, callers=2, P=1 if quick else 2, secure=False),
        dict(limit=2, callers=2, P=1, secure=False),
        dict(limit=3, callers=3, P=0 if quick else 1, secure=False),
        dict(limit=1, callers=2, P=0 if quick else 1, secure=True),
        # time passes between the events (not only by jumping to the next timer): an accessory that never answers but keeps sending events
        dict(limit=1, callers=1, P=0, secure=False, ticks=True, deep=True),
        # three callers behind one slot, across a loss of the connection and the reconnect that follows
        dict(limit=1, callers=3, P=0, secure=False, deep=True),
        # a reset that the kernel has but the loop has not seen yet, racing cancellations and the 30 s timer
        dict(limit=1, callers=2, P=1 if quick else 2, secure=False, rst_window=True),
        # the same spaces under other environments: byte-wise reads; chunked responses in reads that end inside a block
        dict(limit=1, callers=2, P=0, secure=True, env=dict(delivery="bytes")),
        dict(limit=2, callers=2, P=0, secure=False, resp="chunked", env=dict(delivery="3/4")),
        # a peer that stopped reading (bytes of the request still in the write buffer): closing such a transport completes late, whoever
        # closes it - what the callers see must not wait for that
        dict(limit=1, callers=2, P=0, secure=False, slow_close=True),
        dict(limit=2, callers=2, P=0, secure=False, slow_close=True),
        # body-less answers (what a write gets): without any Content-Length, and with Content-Length: 0; a response and an event in ONE read
        dict(limit=1, callers=2, P=0, secure=False, resp="204", combo=True),
        dict(limit=1, callers=2, P=0, secure=True, resp="204", combo=True),
        dict(limit=2, callers=2, P=0, secure=False, resp="204-cl0", combo=True),
        dict(limit=1, callers=2, P=0, secure=False, combo=True),
    ]
    depth = 5 if quick else 6
    work = []
    for p in configs:
        p = dict(p, seed=ctx.seed)
        d = depth - (1 if p["secure"] or p["callers"] == 3 else 0) + ((2 if quick else 1) if p.get("deep") else 0)
        rs = explore.roots(lambda: H(p), 3)
        _determinism(p, rs[len(rs) // 2])
        _determinism(p, rs[-1])
        work += [(p, r, d) for r in rs]
    ctx.bounds.update(depth=depth, configs=configs)
    ctx.pmap(_work, work)
    styles = [None, "chunked", "chunked-2", "chunked-lower", "lower", "204", "204-cl0"] + ([] if quick else ["upper", "mixed", "lws", "extra-headers", "no-ctype"])
    ctx.pmap(_work_splits, [dict(limit=1, callers=2, P=0, secure=sec, resp=st) for sec in (False, True) for st in styles])
    ctx.bounds.update(split_sweep="every two-piece split position x response style x {plain, secure} x {with, without an interleaved event}", split_styles=styles)
    ctx.exhaustive = not ctx.acc.capped
    for s in ("req", "deliver", "deliver-split", "deliver-rest", "event", "cancel", "timer", "peer-close", "peer-reset", "unsolicited", "run1", "app-close"):
        ctx.require(ctx.acc.symbols[s] > 0, f"event {s} never enabled")
    ctx.require(len(ctx.acc.outcomes) >= 4, "too few distinct outcomes")
    ctx.require(ctx.acc.extra["split_positions_run"] >= 500, "split sweep too small")

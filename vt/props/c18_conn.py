"""C18, connected-session leg: broadcasts that arrive while (or after) the pairing holds a GATT session.  A real BlePairing loaded from a cache
that holds the broadcast key and a state number just below the roll-over talks to the reference GATT accessory; histories over {subscribe, the
start-notify timer, a change announced by a GATT notification (the once-per-session state-number bump; at 65534 the roll-over with its
key-regeneration request), protocol-configuration requests held back in flight and released one by one, link drop, a use that reconnects,
a replay of a broadcast recorded long ago under the cached key}.

Reference: the replayed broadcast belongs to a finished epoch (it was recorded when the state number was small, the accessory has since counted up
to the roll-over): it is a replay at every instant, whatever the pairing is doing - nothing of it may reach listeners or move the state number."""
from __future__ import annotations

import asyncio
import struct

from vt import canon as _canon
from vt import core, explore
from vt.env.blerig import BleRig
from vt.ref import crypto as C

ALPH = ["sub", "timer", "hold-config", "notify", "release", "bcast:old", "drop", "use"]
# catch-up polls: the accessory's regular advertisement shows a new state number while the link is down, the pairing connects to poll - and
# genuine broadcasts keep arriving while that connection attempt is still under way, succeeds or fails
ALPH_POLL = ["drop", "hold-connect", "regular-adv", "bcast:+1", "bcast:same", "connect-fails", "connect-ok", "use", "timer"]
OLD_GSN, MARK = 5, 0x1234


class ConnH(explore.Harness):
    def __init__(self, p):
        from vt.props.c18 import adv_bytes, seal

        self.p = p
        self.key = C.det_bytes("c18-conn", "bcast")
        base = p.get("base", 65534)
        self.rig = BleRig(seed=p.get("seed", 0), bkey=self.key, gsn=base, ev_flags=tuple(p.get("ev_flags", ())))
        self.loop, self.pairing, self.acc = self.rig.loop, self.rig.pairing, self.rig.acc
        self.adv_id = bytes.fromhex(self.acc.ident.id.decode().replace(":", ""))
        self.old = adv_bytes(self.adv_id, seal(OLD_GSN, OLD_GSN, 10, struct.pack("<Q", MARK), key=self.key, aad=self.adv_id))
        self.log = []
        self.pairing.dispatcher_connect(lambda ev: self.log.append(dict(ev)))
        self.viol = []
        self.hold = False
        self.held = []
        self.n = {"drop": 0, "notify": 0, "bcast": 0, "adv": 0, "gen": 0}
        self.model_last = base  # the newest state number the accessory has shown (regular advertisement) or a broadcast was accepted with
        self.last_genuine = None
        self.depth_used = 0
        self.subscribed = False
        h = self

        async def gate(kind, iid, data):
            if h.hold and kind == "write" and iid == 31:
                fut = h.loop.create_future()
                h.held.append(fut)
                await fut
            else:
                await asyncio.sleep(0)
            return None

        self.rig.gate = gate
        t = self.loop.create_task(self.pairing.get_characteristics([(1, 9)]))
        self.loop.run_until_idle()
        if not t.done() or t.exception() is not None:
            raise core.HarnessError(f"initial connect failed: {t}")
        if self.pairing.description is None or self.pairing.description.state_num != base:
            raise core.HarnessError(f"tracked state number {self.pairing.description} != {base}")

    def _link(self):
        c = self.rig.client
        return c if c is not None and c.is_connected else None

    def menu(self):
        m = []
        link = self._link()
        for a in self.p.get("alphabet", ALPH):
            if a == "sub":
                if not self.subscribed:
                    m.append(a)
            elif a == "timer":
                if self.loop.next_timer() is not None:
                    m.append(a)
            elif a == "hold-config":
                if not self.hold:
                    m.append(a)
            elif a == "release":
                if any(not f.done() for f in self.held):
                    m.append(a)
            elif a == "notify":
                if link is not None and 9 in link.notifying and self.n["notify"] < 2:
                    m.append(a)
            elif a == "drop":
                if link is not None and self.n["drop"] < 1:
                    m.append(a)
            elif a == "bcast:old":
                if self.n["bcast"] < 2:
                    m.append(a)
            elif a == "hold-connect":
                if not getattr(self.rig, "hold_connect", False) and link is None:
                    m.append(a)
            elif a in ("connect-fails", "connect-ok"):
                if any(not f.done() for f in getattr(self.rig, "connecting", [])):
                    m.append(a)
            elif a == "regular-adv":
                if self.n["adv"] < 2 and self.model_last < 65000:
                    m.append(a)
            elif a == "bcast:+1":
                if self.n["gen"] < 2 and self.model_last < 65000:
                    m.append(a)
            elif a == "bcast:same":
                if self.last_genuine is not None and self.n["bcast"] < 2:
                    m.append(a)
            else:
                m.append(a)
        return m

    def take(self, i):
        label = self.menu()[i]
        self.depth_used += 1
        if label == "sub":
            self.subscribed = True
            self.loop.create_task(self.pairing.subscribe({(1, 9), (1, 10)}))
        elif label == "timer":
            self.loop.fire_next_timer()
        elif label == "hold-config":
            self.hold = True
        elif label == "release":
            next(f for f in self.held if not f.done()).set_result(None)
        elif label == "notify":
            self.n["notify"] += 1
            self.acc.chars[9].value = not self.acc.chars[9].value
            self._link().notifying[9](9, bytearray())
        elif label == "drop":
            self.n["drop"] += 1
            self.rig.client.peer_disconnect()
            for f in self.held:
                if not f.done():
                    f.set_result(None)  # the operation fails with "not connected" when it resumes
        elif label == "use":
            self.loop.create_task(self.pairing.get_characteristics([(1, 10)]))
        elif label == "hold-connect":
            self.rig.hold_connect = True
        elif label in ("connect-fails", "connect-ok"):
            from bleak.exc import BleakError

            f = next(f for f in self.rig.connecting if not f.done())
            if label == "connect-fails":
                f.set_exception(BleakError("connection attempt failed"))
            else:
                f.set_result(None)
        elif label == "regular-adv":
            # the accessory changed state while nobody was connected: its regular advertisement carries the new state number
            from vt.props.c19 import ble_adv

            self.n["adv"] += 1
            self.model_last += 1
            self.acc.gsn = self.model_last
            dev, adv = ble_adv("aa:bb:cc:dd:ee:ff", gsn=self.model_last, cn=self.acc.cn, name="Acc")
            try:
                self.rig.controller._device_detected(dev, adv)
            except Exception as e:  # noqa: BLE001
                self.viol.append((f"scanner-callback-raises:{type(e).__name__}:regular-adv", {"err": str(e)[:160]}))
        elif label in ("bcast:+1", "bcast:same"):
            from bleak.backends.device import BLEDevice
            from bleak.backends.scanner import AdvertisementData
            from vt.props.c18 import adv_bytes, seal

            if label == "bcast:+1":
                self.n["gen"] += 1
                g = self.model_last + 1
                self.acc.gsn = g  # (the accessory that broadcasts this state number answers it to a protocol-configuration request as well)
                payload = adv_bytes(self.adv_id, seal(g, g, 10, struct.pack("<Q", 0x4000 + g % 1000), key=self.key, aad=self.adv_id))
                fresh = True
            else:
                self.n["bcast"] += 1
                g, payload = self.last_genuine
                fresh = False
            before = (self.pairing.description.state_num if self.pairing.description else None, len(self.log))
            quiet = self._link() is None and not _canon.tasks_sig(self.loop) and not any(not f.done() for f in getattr(self.rig, "connecting", []))
            try:
                self.rig.controller._device_detected(BLEDevice("00:11:22:33:44:55", "Acc", {}), AdvertisementData(local_name="Acc", manufacturer_data={76: payload}, service_data={}, service_uuids=[], tx_power=None, rssi=-60, platform_data=()))
            except Exception as e:  # noqa: BLE001
                self.viol.append((f"scanner-callback-raises:{type(e).__name__}:connected", {"err": str(e)[:160]}))
            new = [ev for ev in self.log[before[1]:] if any(v.get("value") == 0x4000 + g % 1000 for v in ev.values())]
            if fresh and new:
                self.acc.chars[10].value = 0x4000 + g % 1000  # (the accessory that broadcasts this value holds it)
            if not fresh and before[0] == g and quiet:
                # a further copy of the broadcast whose state number is the tracked one (advertisements repeat), with nothing else going on:
                # the event it reports was delivered when the first copy came in.  Whatever the pairing does about the copy, the listeners
                # do not hear of that change a second time
                self.loop.run_until_idle()
                again = [ev for ev in self.log[before[1]:] if any(v.get("value") == 0x4000 + g % 1000 for v in ev.values())]
                if again:
                    self.viol.append(("connected:event-of-a-repeated-broadcast-delivered-again", {"gsn": g, "delivered": [{str(k): v for k, v in ev.items()} for ev in again], "connected_for_it": self._link() is not None}))
            if fresh and not new and before[0] is not None and 1 <= g - before[0] <= 99 and bytes(getattr(self.pairing, "broadcast_key", b"") or b"") == self.key:
                # the positive path (as in the history search of c18.py): authentic under the key the pairing holds, 1..99 ahead of what it tracks,
                # for a characteristic its database knows - whatever the pairing is doing at this instant (connected, connecting, polling)
                self.viol.append(("connected:genuine-notification-inside-the-window-rejected", {"gsn": g, "tracked": before[0], "link_up": self._link() is not None,
                                                                                              "connection_attempts_in_flight": sum(1 for f in getattr(self.rig, "connecting", []) if not f.done())}))
            if fresh:
                self.last_genuine = (g, payload)
                if new:
                    self.model_last = g  # accepted (the key the pairing holds may legitimately differ after a key regeneration: not demanded)
            elif new and g <= self.model_last:
                self.viol.append(("connected:genuine-broadcast-accepted-a-second-time", {"gsn": g, "tracked_before": before[0], "tracked_after": self.pairing.description.state_num if self.pairing.description else None,
                                                                                     "connection_attempts_in_flight": sum(1 for f in getattr(self.rig, "connecting", []) if not f.done())}))
        elif label == "bcast:old":
            self.n["bcast"] += 1
            before = (self.pairing.description.state_num if self.pairing.description else None, len(self.log))
            from bleak.backends.device import BLEDevice
            from bleak.backends.scanner import AdvertisementData

            dev = BLEDevice("00:11:22:33:44:55", "Acc", {})
            adv = AdvertisementData(local_name="Acc", manufacturer_data={76: self.old}, service_data={}, service_uuids=[], tx_power=None, rssi=-60, platform_data=())
            try:
                self.rig.controller._device_detected(dev, adv)
            except Exception as e:  # noqa: BLE001
                self.viol.append((f"scanner-callback-raises:{type(e).__name__}:connected", {"err": str(e)[:160]}))
            new = self.log[before[1]:]
            after = self.pairing.description.state_num if self.pairing.description else None
            if any(v.get("value") == MARK for ev in new for v in ev.values()) or after == OLD_GSN:
                self.viol.append(("connected:broadcast-of-a-finished-epoch-accepted", {"tracked_before": before[0], "tracked_after": after, "delivered": [{str(k): v for k, v in ev.items()} for ev in new],
                                                                                          "requests_in_flight": sum(1 for f in self.held if not f.done())}))
        self.loop.run_until_idle()
        if self.loop.unhandled:
            self.loop.unhandled.clear()

    def violations(self):
        v, self.viol = self.viol, []
        return v

    def finish(self):
        return self.violations()

    def canon(self):
        pr = self.pairing
        link = self._link()
        timers = tuple(sorted(round(h._when - self.loop.time(), 6) for h in self.loop._scheduled if not h._cancelled))
        bk = getattr(pr, "_broadcast_decryption_key", None)
        return (self.model_last, self.last_genuine is not None, getattr(self.rig, "hold_connect", False), sum(1 for f in getattr(self.rig, "connecting", []) if not f.done()), self.subscribed, self.hold, sum(1 for f in self.held if not f.done()), tuple(sorted(self.n.items())), link is not None, tuple(sorted(link.notifying)) if link else (), timers,
                pr.description.state_num if pr.description else None, getattr(getattr(pr, "_accessories_state", None), "state_num", None), bytes(getattr(pr, "broadcast_key", b"") or b"")[:4],
                pr._fetched_gsn_this_session, pr._had_notify_this_session, pr._restore_pending, tuple(sorted(pr._notifications)), len(self.log), _canon.tasks_sig(self.loop))

    def outcome(self):
        return f"tracked={self.pairing.description.state_num if self.pairing.description else None},held={sum(1 for f in self.held if not f.done())},log={min(len(self.log), 4)}"

    def close(self):
        for f in self.held + getattr(self.rig, "connecting", []):
            if not f.done():
                f.cancel()
        self.rig.close()


def case_conn(p):
    h, trace = explore.run_prefix(lambda: ConnH(p), p["choices"])
    try:
        return [(s_, dict(detail=d, trace=trace)) for s_, d in h.violations()]
    finally:
        h.close()


CASES = {"conn": case_conn}

"""C15 Pairing TLV codec: bounded-exhaustive enumeration against the independent reference codec (vt/ref/tlv8.py)."""
from __future__ import annotations

import itertools

from vt import core
from vt.ref import tlv8 as ref

META = dict(
    level="exploration",
    technique="bounded-exhaustive enumeration of item lists / byte strings / fragment splits of the real codec against an independent reference codec",
    text="every item list over the boundary length alphabet (<=3 items), every expected-filter subset, every byte "
    "string up to length L over the structurally distinct symbols, every truncation/substitution of boundary "
    "encodings and every 1..4-piece split of a BLE pairing reply are run through TLV.encode_list/decode_* "
    "and ble _pairing_char_write and compared with a reference TLV8 codec written from the HAP text Decoders are also compared across argument types (bytes / bytearray) and repetition on the same buffer (no aliasing of the caller's buffer); BLE pairing fragments also travel through drive_pairing_state_machine with expected-type lists. Also: every byte string up to 4 (6) symbols through five filters against a reference (a cut-off item of an expected type must raise; an empty filter filters nothing); streamed BLE pairing replies broken off by a plain one; damaged / oddly chunked HAP-Param-Value wrappers. Also: every number of fragments 2..50 of a pair-setup M2 sized reply (even and front-loaded cuts, empty closing fragment). The caller's buffer can still be resized while the result / the error of a decode call is kept. Also values that are TLVs of TLVs up to 1000 levels deep.",
    note="reference codec is trusted (cross-checked against HAP examples in selftest); byte strings outside the "
    "symbol alphabet and lists longer than 3 items are not covered",
    design_ref="DESIGN.md §4 C15",
    rule="a case = one (operation, input); distinct = distinct input; non-trivial = input contains at least one item / byte",
)

TYPES = [0, 1, 6, 254]
LENS = [0, 1, 2, 254, 255, 256, 257, 509, 510, 511, 765, 766]
SYMS = [0, 1, 2, 3, 7, 254, 255]


def _tlv():
    from aiohomekit.protocol.tlv import TLV, TlvParseException

    return TLV, TlvParseException


def _val(t, ln, salt):
    return bytes(((i * 7 + t + salt) % 251) for i in range(ln))


def _mk_list(spec):
    """spec: list of (type, len); separators inserted between equal-typed neighbours."""
    items = []
    for i, (t, ln) in enumerate(spec):
        if items and items[-1][0] == t:
            items.append((255, b""))
        items.append((t, _val(t, ln, i)))
    return items


def _norm(decoded):
    return [(int(t), bytes(v)) for t, v in decoded]


def _alias_check(TLV, TlvParseException, data, label, expected=None):
    """The decoders are functions of the bytes they are given: the same answer for bytes and bytearray arguments, the caller's buffer
    untouched, and the same answer when the same buffer is decoded again (a message is decoded more than once on retries)."""
    out = []
    kw = {} if expected is None else {"expected": list(expected)}

    def run(fn, arg):
        try:
            return ("ok", _norm(fn(arg, **kw)))
        except TlvParseException:
            return ("parse-error", None)
        except Exception as e:  # noqa: BLE001
            return (type(e).__name__, None)

    base = run(TLV.decode_bytes, bytes(data))
    for name, fn in (("decode_bytes", TLV.decode_bytes), ("decode_bytearray", TLV.decode_bytearray)):
        buf = bytearray(data)
        first = run(fn, buf)
        if bytes(buf) != bytes(data):
            out.append((f"{name}:modifies-the-callers-buffer", {"data": bytes(data)[:64], "left": bytes(buf)[:64], "label": label}))
        # what an earlier caller does with the items it was handed (edit a value in place, drop an item) is its own business
        try:
            res = fn(bytearray(data), **kw)
            for item in res:
                try:
                    item[1] += b"\xee"
                except Exception:  # noqa: BLE001
                    pass
            if res:
                try:
                    res.pop(0)
                except Exception:  # noqa: BLE001
                    pass
        except Exception:  # noqa: BLE001
            pass
        # ... and the buffer stays the caller's own: a caller that keeps what the call gave it - the items, or the exception ("last error") -
        # goes on appending to its buffer (read more bytes, decode again)
        own = bytearray(data)
        try:
            kept = fn(own, **kw)
        except Exception as e:  # noqa: BLE001
            kept = e
        try:
            own.extend(b"\x00")
            del own[-1:]
        except BufferError as e:
            out.append((f"{name}:callers-buffer-cannot-be-resized-while-the-{'error' if isinstance(kept, Exception) else 'result'}-of-the-call-is-kept", {"data": bytes(data)[:64], "label": label, "err": str(e)[:100]}))
        del kept
        second = run(fn, buf)
        third = run(TLV.decode_bytes, bytes(data))
        if third != base:
            out.append((f"{name}:result-depends-on-what-an-earlier-caller-did-with-its-result", {"data": bytes(data)[:64], "label": label, "fresh": repr(base)[:120], "later": repr(third)[:120]}))
        if first != base or second != base:
            out.append((f"{name}:result-depends-on-argument-type-or-repetition", {"data": bytes(data)[:64], "label": label, "bytes_result": repr(base)[:120], "first": repr(first)[:120], "second": repr(second)[:120]}))
    return out


# ---------------------------------------------------------------- cases
def case_roundtrip(params):
    TLV, TlvParseException = _tlv()
    spec = [tuple(x) for x in params["spec"]]
    items = _mk_list(spec)
    out = []
    want = ref.encode(items)
    try:
        got = bytes(TLV.encode_list([(t, bytearray(v)) for t, v in items]))
    except Exception as e:  # noqa: BLE001
        return [(f"encode-raises:{type(e).__name__}", {"spec": spec})]
    # the caller's own values are its own: encoding must leave them alone (and encode the same bytes when asked again)
    mine = [(t, bytearray(v)) for t, v in items]
    try:
        first = bytes(TLV.encode_list(mine))
        if [(t, bytes(v)) for t, v in mine] != [(t, bytes(v)) for t, v in items]:
            out.append(("encode:modifies-the-callers-values", {"spec": spec, "lengths_after": [len(v) for _, v in mine]}))
        elif bytes(TLV.encode_list(mine)) != first:
            out.append(("encode:second-encoding-of-the-same-list-differs", {"spec": spec}))
    except Exception:  # noqa: BLE001
        pass
    if got != want:
        zero = any(ln == 0 for _, ln in spec)
        sig = "encode:zero-length-value-dropped" if zero and got == ref.encode([i for i in items if len(i[1]) or i[0] == 255]) else "encode:bytes-differ"
        out.append((sig, {"spec": spec, "got": got[:64], "want": want[:64], "got_len": len(got), "want_len": len(want)}))
    # decode of the canonical (reference) encoding must give back the list (both entry points)
    for name, fn in (("decode_bytes", TLV.decode_bytes), ("decode_bytearray", lambda b: TLV.decode_bytearray(bytearray(b)))):
        try:
            dec = _norm(fn(want))
        except Exception as e:  # noqa: BLE001
            out.append((f"{name}-canonical-raises:{type(e).__name__}", {"spec": spec}))
            continue
        if dec != [(t, bytes(v)) for t, v in items]:
            out.append((f"{name}:roundtrip-differs", {"spec": spec, "got": [(t, len(v)) for t, v in dec]}))
    # decode(encode_lib(x)) == x  (the property's own round-trip)
    try:
        dec = _norm(TLV.decode_bytes(got))
        if dec != [(t, bytes(v)) for t, v in items]:
            zero = any(ln == 0 for _, ln in spec)
            out.append(("roundtrip:zero-length-value-lost" if zero else "roundtrip:differs", {"spec": spec, "got": [(t, len(v)) for t, v in dec]}))
    except Exception as e:  # noqa: BLE001
        out.append((f"roundtrip-raises:{type(e).__name__}", {"spec": spec}))
    out += _alias_check(TLV, TlvParseException, want, "roundtrip")
    return out


def case_filter(params):
    TLV, TlvParseException = _tlv()
    spec = [tuple(x) for x in params["spec"]]
    expected = list(params["expected"])
    items = _mk_list(spec)
    data = ref.encode(items)
    full = [(t, bytes(v)) for t, v in items]
    try:
        got = _norm(TLV.decode_bytes(data, expected=expected))
    except Exception as e:  # noqa: BLE001
        return [(f"filter-raises:{type(e).__name__}", {"spec": spec, "expected": expected})]
    out = []
    if any(t not in expected for t, _ in got) and expected:
        out.append(("filter:unexpected-type-returned", {"spec": spec, "expected": expected}))
    # a subsequence of the unfiltered result (weakest reading: covers both "stop at the first unexpected type" and "skip unexpected types");
    # identical when all used types are expected
    it = iter(full)
    if not all(any(g == f for f in it) for g in got):
        out.append(("filter:not-a-subsequence-of-the-unfiltered-result", {"spec": spec, "expected": expected, "got": [(t, len(v)) for t, v in got]}))
    used = {t for t, _ in full}
    if used <= set(expected) and got != full:
        out.append(("filter:all-expected-but-differs", {"spec": spec, "expected": expected}))
    out += _alias_check(TLV, TlvParseException, data, "filter", expected)
    return out


def _judge_bytes(data, TLV, TlvParseException, label):
    raw, ok = ref.parse_raw(data)
    out = []
    for name, fn in (("decode_bytes", TLV.decode_bytes), ("decode_bytearray", lambda b: TLV.decode_bytearray(bytearray(b)))):
        try:
            got = _norm(fn(data))
            exc = None
        except TlvParseException:
            got, exc = None, "TlvParseException"
        except Exception as e:  # noqa: BLE001
            got, exc = None, type(e).__name__
        if exc not in (None, "TlvParseException"):
            tail = "lone-type-byte" if (len(data) - sum(2 + len(v) for _, v in raw)) == 1 else "other"
            out.append((f"{name}:foreign-exception:{exc}:{tail}", {"data": data, "label": label}))
            continue
        if ok:
            if exc:
                out.append((f"{name}:wellformed-rejected", {"data": data, "label": label}))
            elif ref.merge(got) != ref.merge(raw):
                out.append((f"{name}:wellformed-differs", {"data": data, "got": got, "label": label}))
        else:
            # ill-formed: parse error, or exactly the items of the well-formed prefix; never a short value
            if exc is None and ref.merge(got) != ref.merge(raw):
                out.append((f"{name}:truncated-input-yields-short-or-wrong-value", {"data": data, "got": got, "label": label}))
    out += _alias_check(TLV, TlvParseException, data, label)
    return out


def case_nested(params):
    """params: depth, types, cut.  A value that is itself a complete TLV8 string whose value is one again, `depth` levels deep (HAP wraps
    TLVs in TLVs: a Value item holding a TLV, holding a list of TLVs ...).  For the codec it is one item with opaque bytes: encoding and
    decoding it behave as for any other bytes of that length - and a cut-off variant is a parse error, nothing else."""
    import time

    TLV, TlvParseException = _tlv()
    types = params["types"]
    inner = b"\x01\x02"
    for d in range(params["depth"]):
        inner = ref.encode([(types[d % len(types)], inner)])
    items = [(types[0], inner)]
    want = ref.encode(items)
    out = []
    det = {"depth": params["depth"], "types": types, "bytes": len(want)}
    t0 = time.monotonic()
    try:
        got = bytes(TLV.encode_list([(t, bytearray(v)) for t, v in items]))
        if got != want:
            out.append(("nested:encode-bytes-differ", det))
    except Exception as e:  # noqa: BLE001
        out.append((f"nested:encode-raises:{type(e).__name__}", det))
    for name, fn in (("decode_bytes", TLV.decode_bytes), ("decode_bytearray", lambda b: TLV.decode_bytearray(bytearray(b)))):
        try:
            dec = _norm(fn(want))
            if dec != [(t, bytes(v)) for t, v in items]:
                out.append((f"nested:{name}:roundtrip-differs", dict(det, got=[(t, len(v)) for t, v in dec])))
        except Exception as e:  # noqa: BLE001
            out.append((f"nested:{name}-raises:{type(e).__name__}", det))
        cut = want[: len(want) - params.get("cut", 1)]
        try:
            fn(cut)
            out.append((f"nested:{name}:cut-off-input-accepted", det)) if not ref.parse_raw(cut)[1] and ref.merge(_norm(fn(cut))) != ref.merge(ref.parse_raw(cut)[0]) else None
        except TlvParseException:
            pass
        except Exception as e:  # noqa: BLE001
            out.append((f"nested:{name}:foreign-exception-on-cut-off-input:{type(e).__name__}", det))
    if time.monotonic() - t0 > 20.0 and not out:
        out.append(("nested:work-grows-with-the-nesting-depth-of-an-opaque-value", dict(det, seconds=round(time.monotonic() - t0, 1))))
    return out


def case_bytes(params):
    TLV, TlvParseException = _tlv()
    return _judge_bytes(bytes(params["data"]), TLV, TlvParseException, "string")


BYTE_FILTERS = [[1], [7], [1, 7], [0, 255], []]


def case_bytes_filter(params):
    """Arbitrary bytes through the filtered decoder.  Reference: the TLV8 items of the well-formed prefix, equal-typed neighbours joined, then
    the expected types picked.  Well-formed input: exactly that.  Input cut off inside an item: the codec's parse error when the cut-off item
    is of an expected type (an item the caller asked for must not vanish silently); for a cut-off item of another type either the parse error
    or the picked items of the well-formed prefix.  An empty collection of expected types filters nothing (same answer as no filter)."""
    TLV, TlvParseException = _tlv()
    data = bytes(params["data"])
    raw, ok = ref.parse_raw(data)
    out = []
    for expected in BYTE_FILTERS:
        try:
            got, exc = _norm(TLV.decode_bytes(data, expected=list(expected))), None
        except TlvParseException:
            got, exc = None, "TlvParseException"
        except Exception as e:  # noqa: BLE001
            out.append((f"bytes-filter:foreign-exception:{type(e).__name__}", {"data": data, "expected": expected}))
            continue
        det = {"data": data, "expected": expected, "got": got, "raised": exc}
        if not expected:
            try:
                plain, pexc = _norm(TLV.decode_bytes(data)), None
            except TlvParseException:
                plain, pexc = None, "TlvParseException"
            if (got, exc) != (plain, pexc):
                out.append(("bytes-filter:empty-expected-collection-differs-from-no-filter", dict(det, plain=plain)))
            continue
        want = [(t, v) for t, v in ref.merge(raw) if t in expected]
        if ok:
            if exc:
                out.append(("bytes-filter:wellformed-rejected", det))
            elif got != want:
                out.append(("bytes-filter:wellformed-differs", dict(det, want=want)))
            continue
        cut = sum(2 + len(v) for _, v in raw)
        t_cut = data[cut]
        if t_cut in expected:
            if exc is None:
                out.append(("bytes-filter:cut-off-item-of-an-expected-type-silently-dropped", dict(det, cut_type=t_cut)))
        elif exc is None and got != want:
            out.append(("bytes-filter:truncated-input-yields-short-or-wrong-value", dict(det, want=want)))
    return out


def case_mutate(params):
    TLV, TlvParseException = _tlv()
    spec = [tuple(x) for x in params["spec"]]
    data = bytearray(ref.encode(_mk_list(spec)))
    if params["kind"] == "trunc":
        data = data[: params["pos"]]
    else:
        data[params["pos"]] = params["byte"]
    return _judge_bytes(bytes(data), TLV, TlvParseException, params["kind"])


# ---- BLE pairing fragment reassembly
class _Handle:
    properties = ["read", "write"]
    max_write_without_response_size = None
    uuid = "x"


class _FakeGatt:
    """Accessory side of the HAP-BLE pairing characteristic, reassembling request PDUs and replying with the scripted pieces."""

    address = "00:00:00:00:00:01"

    def __init__(self, pieces, fragment_size=512):
        self.pieces = list(pieces)
        self.fragment_size = fragment_size
        self.rx = bytearray()
        self.expect = None
        self.tid = None
        self.bodies = []
        self.pending = None

    def determine_fragment_size(self, overhead, handle):
        return self.fragment_size - overhead

    async def write_gatt_char(self, handle, data, response):
        data = bytes(data)
        if self.expect is None:
            self.tid = data[2]
            if len(data) >= 7:
                self.expect = int.from_bytes(data[5:7], "little")
                self.rx = bytearray(data[7:])
            else:
                self.expect, self.rx = 0, bytearray()
        else:
            assert data[0] & 0x80 and data[1] == self.tid
            self.rx += data[2:]
        if len(self.rx) >= self.expect:
            body = dict(ref.decode(bytes(self.rx)))
            self.bodies.append(body.get(1, b""))
            self.expect = None
            self.pending = self.pieces.pop(0) if self.pieces else b""

    wrapper = None  # how the accessory wraps each reply into the HAP-Param-Value item of the response PDU (None: one item, fragmented at 255)

    async def read_gatt_char(self, handle):
        value = ref.encode([(1, self.pending)])
        w = self.wrapper
        if w and w[0] == "short-chunks":
            # the value travels as several adjacent type-1 chunks shorter than 255 bytes (a TLV8 reader joins equal-typed neighbours whatever their size)
            n = w[1]
            value = b"".join(bytes((1, len(self.pending[i : i + n]))) + self.pending[i : i + n] for i in range(0, len(self.pending), n)) or bytes((1, 0))
        elif w and w[0] == "declared-too-long":
            value = value[: len(value) - w[1]]  # the item declares more bytes than the body holds (the PDU's own length is consistent)
        elif w and w[0] == "lone-type":
            value = value + bytes((w[1],))
        return bytes((0x02, self.tid, 0)) + len(value).to_bytes(2, "little") + value


def _drive(coro):
    try:
        coro.send(None)
    except StopIteration as s:
        return s.value
    coro.close()
    raise core.HarnessError("fake GATT client suspended")


def case_blefrag(params):
    from aiohomekit.controller.ble.client import _pairing_char_write

    TLV, _ = _tlv()
    spec = [tuple(x) for x in params["spec"]]
    items = _mk_list(spec)
    body = ref.encode(items)
    cuts = [0] + list(params["cuts"]) + [len(body)]
    parts = [body[a:b] for a, b in zip(cuts, cuts[1:])]
    if params.get("empty_last"):
        parts.append(b"")  # the reply was an exact multiple of the accessory's fragment size: the closing FragmentLast carries zero bytes
    if params.get("plain") and len(parts) == 1:
        pieces = [body]
    else:
        pieces = [ref.encode([(12, p)]) for p in parts[:-1]] + [ref.encode([(13, parts[-1])])]
    abort = params.get("abort_after")
    if abort is not None:
        # after `abort` FragmentData replies the accessory gives the streamed reply up and answers the next acknowledgement with a plain reply
        plain_reply = ref.encode([(6, b"\x02"), (7, b"\x02")])
        pieces = pieces[:abort] + [plain_reply]
    gatt = _FakeGatt(pieces)
    if params.get("wrapper"):
        gatt.wrapper = tuple(params["wrapper"])
    request = [(6, bytearray(b"\x01")), (0, bytearray(b"\x01"))]
    via = params.get("via")
    try:
        if via:
            # through the driver every real pairing exchange uses, with a state machine that names the types it expects like the real ones do
            from aiohomekit.controller.ble.client import drive_pairing_state_machine

            expected = {"all": sorted({t for t, _ in items}), "state-only": [6], "none": []}[via]

            def machine():
                return (yield request, expected)

            async def get_characteristic(*a, **k):
                return _Handle()

            async def get_characteristic_iid(h):
                return 10

            gatt.get_characteristic, gatt.get_characteristic_iid = get_characteristic, get_characteristic_iid
            res = _drive(drive_pairing_state_machine(gatt, "0000004C-0000-1000-8000-0026BB765291", machine()))
        else:
            res = _drive(_pairing_char_write(gatt, _Handle(), 10, request))
    except core.HarnessError:
        raise
    except Exception as e:  # noqa: BLE001
        _, TlvParseException = _tlv()
        if isinstance(e, TlvParseException) and (abort is not None or (params.get("wrapper") and params["wrapper"][0] != "short-chunks")):
            return []  # a damaged / broken-off reply: the codec's own parse error is the one admissible failure
        return [(f"blefrag-raises:{type(e).__name__}" + (":reply-broken-off-by-a-plain-one" if abort is not None else ":wrapper-" + params["wrapper"][0] if params.get("wrapper") else ""), {"spec": spec, "cuts": params["cuts"], "err": str(e)[:200], "wrapper": params.get("wrapper")})]
    want = {t: v for t, v in ref.decode(body)}
    got = {int(k): bytes(v) for k, v in res.items()}
    out = []
    if abort is not None:
        # handing the plain reply to the caller (who sees the error item) is what a conformant reader does
        if got != {6: b"\x02", 7: b"\x02"}:
            out.append(("blefrag:plain-reply-that-breaks-a-stream-off-not-handed-over", {"spec": spec, "cuts": params["cuts"], "abort_after": abort, "got": {k: len(v) for k, v in got.items()}}))
        return out
    if params.get("wrapper") and params["wrapper"][0] in ("declared-too-long", "lone-type"):
        if got != want:
            out.append(("blefrag:damaged-wrapper-yields-a-shorter-reply-instead-of-the-parse-error", {"spec": spec, "wrapper": params["wrapper"], "got": {k: len(v) for k, v in got.items()}, "want": {k: len(v) for k, v in want.items()}}))
        return out
    if got != want:
        out.append(("blefrag:reassembly-differs" + (":via-pairing-driver" if via else ""), {"spec": spec, "cuts": params["cuts"], "via": via, "got": {k: len(v) for k, v in got.items()}}))
    if gatt.pieces:
        out.append(("blefrag:stopped-before-last-fragment", {"spec": spec, "cuts": params["cuts"]}))
    if bytes(gatt.bodies[0]) != ref.encode(request):
        out.append(("blefrag:request-body-differs", {"got": bytes(gatt.bodies[0])}))
    return out


CASES = {
    "roundtrip": case_roundtrip,
    "filter": case_filter,
    "bytes": case_bytes,
    "bytes_filter": case_bytes_filter,
    "mutate": case_mutate,
    "blefrag": case_blefrag,
    "nested": case_nested,
}


# ---------------------------------------------------------------- work
def _work(item, seed, tier):
    acc = core.Acc()
    name, plist = item
    fn = CASES[name]
    for p in plist:
        if False:
            pass
        else:
            v = fn(p)
        nontrivial = bool(p.get("spec") or p.get("data"))
        acc.case(key=(name, core.jsonable(p)), outcome=f"{name}:{'ok' if not v else v[0][0]}", nontrivial=nontrivial, sample={"case": name, "params": p}, symbols=(name,))
        for sig, detail in v:
            acc.violation(sig, name, p, detail)
    return acc


def _chunks(name, plist, n=400):
    plist = list(plist)
    return [(name, plist[i : i + n]) for i in range(0, len(plist), n)]


def _subsets(s):
    s = sorted(s)
    for r in range(len(s) + 1):
        yield from itertools.combinations(s, r)


def run(ctx):
    quick = ctx.tier == "quick"
    kinds = [(t, ln) for t in TYPES for ln in LENS]
    specs = [[k] for k in kinds] + [[a, b] for a in kinds for b in kinds]
    if quick:
        small = [(t, ln) for t in TYPES[:3] for ln in (0, 1, 255, 256, 510)]
        specs += [[a, b, c] for a in small for b in small for c in small]
    else:
        specs += [[a, b, c] for a in kinds for b in kinds for c in kinds]
    work = _chunks("roundtrip", [{"spec": s} for s in specs], 300)

    fspecs = [[k] for k in kinds if k[1] in (0, 1, 255, 256)] + [
        [a, b] for a in kinds for b in kinds if a[1] in (1, 256) and b[1] in (1, 255, 511)
    ]
    # equal-typed items with an item of another type between them (a filtered-out item in the middle must still keep its neighbours apart)
    fspecs += [[a, b, c] for a in kinds for b in kinds for c in kinds if a[0] == c[0] != b[0] and a[1] in (1, 255) and b[1] in (0, 1) and c[1] in (1, 2)]
    if not quick:
        fspecs += [[a, b, c] for a in kinds for b in kinds for c in kinds if a[1] == 1 and b[1] in (1, 256) and c[1] == 2]
    fl = []
    for s in fspecs:
        used = {t for t, _ in _mk_list(s)}
        for sub in _subsets(used | {7}):
            fl.append({"spec": s, "expected": list(sub)})
    work += _chunks("filter", fl, 400)

    L = 4 if quick else 8
    strings = []
    for n in range(0, L + 1):
        for tup in itertools.product(SYMS, repeat=n):
            strings.append({"data": bytes(tup)})
    work += _chunks("bytes", strings, 5000)
    work += _chunks("bytes_filter", [s_ for s_ in strings if len(s_["data"]) <= (4 if quick else 6)], 5000)
    ctx.bounds["byte_string_length"] = L
    ctx.bounds["byte_symbols"] = SYMS

    mspecs = [[(1, 1)], [(1, 255)], [(1, 256)], [(3, 510), (3, 1)], [(6, 1), (3, 257), (5, 2)]]
    if not quick:
        mspecs += [[(1, 511)], [(0, 254), (0, 255)], [(6, 1), (7, 1)], [(254, 766)]]
    ml = []
    for s in mspecs:
        n = len(ref.encode(_mk_list(s)))
        for pos in range(n):
            ml.append({"spec": s, "kind": "trunc", "pos": pos})
        step = 1 if n < 80 or not quick else 7
        for pos in range(0, n, step):
            for b in (0, 1, 2, 254, 255):
                ml.append({"spec": s, "kind": "subst", "pos": pos, "byte": b})
    work += _chunks("mutate", ml, 400)

    bl = []
    bspecs = [[(6, 1), (3, 20)], [(6, 1), (1, 4), (1, 5)]] if quick else [[(6, 1), (3, 30)], [(6, 1), (1, 4), (1, 5)], [(6, 1), (7, 1), (0, 0)]]
    for s in bspecs:
        n = len(ref.encode(_mk_list(s)))
        for k in range(0, 4):
            for cuts in itertools.combinations(range(1, n), k):
                bl.append({"spec": s, "cuts": list(cuts)})
        bl.append({"spec": s, "cuts": [], "plain": True})
        for k in range(0, 3):
            for cuts in itertools.combinations(range(1, n), k):
                if k < 2 or (cuts[0] % 3 == 0):
                    bl.append({"spec": s, "cuts": list(cuts), "empty_last": True})
    for s in bspecs:
        n = len(ref.encode(_mk_list(s)))
        for via in ("all", "state-only", "none"):
            bl.append({"spec": s, "cuts": [], "plain": True, "via": via})
            for k in range(0, 3):
                for cuts in itertools.combinations(range(1, n, 1 if not quick else 3), k):
                    bl.append({"spec": s, "cuts": list(cuts), "via": via})
    for s in bspecs + [[(6, 1), (3, 384), (5, 300)]]:
        n = len(ref.encode(_mk_list(s)))
        for via in (None, "all"):
            extra = {"via": via} if via else {}
            for k in (1, 2, 3):
                for cuts in itertools.combinations(range(1, n, max(1, n // 6)), k):
                    for ab in range(1, k + 1):
                        bl.append({"spec": s, "cuts": list(cuts), "abort_after": ab, **extra})
            for w in [["short-chunks", c] for c in (1, 7, 100, 254)] + [["declared-too-long", d] for d in range(1, min(n, 40))] + [["lone-type", t] for t in (1, 6, 0, 255)]:
                bl.append({"spec": s, "cuts": [], "plain": True, "wrapper": w, **extra})
                if w[0] == "short-chunks":
                    bl.append({"spec": s, "cuts": [n // 2], "wrapper": w, **extra})
    long = [(6, 1), (3, 384), (5, 300)]
    n = len(ref.encode(_mk_list(long)))
    for c in range(1, n, 1 if not quick else 5):
        bl.append({"spec": long, "cuts": [c]})
    for a in range(200, 300, 7 if quick else 1):
        for b in range(a + 1, 520, 37 if quick else 3):
            bl.append({"spec": long, "cuts": [a, b]})
    # every NUMBER of fragments a reply can arrive in, up to what the reader documents as its limit (50 writes per exchange): a small MTU
    # turns a pair-setup M2 into dozens of them.  (Beyond the limit the reader may give up with its own error: not demanded.)
    m2 = [(6, 1), (2, 16), (3, 384)]
    n = len(ref.encode(_mk_list(m2)))
    for parts in range(2, 51):
        for style in ("even", "front-loaded"):
            if style == "even":
                cuts = sorted({max(1, (n * i) // parts) for i in range(1, parts)})
            else:
                cuts = list(range(n - (parts - 1), n))  # one big fragment, then single bytes
            if len(cuts) == parts - 1:
                bl.append({"spec": m2, "cuts": cuts})
                if parts in (49, 50) or not quick:
                    bl.append({"spec": m2, "cuts": cuts, "via": "all"})
        bl.append({"spec": m2, "cuts": sorted({max(1, (n * i) // parts) for i in range(1, parts)})[: parts - 2], "empty_last": True}) if parts > 2 else None
    work += _chunks("blefrag", bl, 300)
    nest = [{"depth": d, "types": ty, "cut": c, "spec": [[ty[0], d]]} for d in ([1, 2, 3, 8, 12, 16, 300, 1000] if quick else [1, 2, 3, 5, 8, 12, 16, 18, 100, 250, 300, 600, 1000, 1200]) for ty in ([1], [1, 9], [6, 3]) for c in (1, 3)]
    work += _chunks("nested", nest, 4)

    ctx.pmap(_work, work)
    ctx.exhaustive = True
    ctx.bounds.update(list_items_max=3, types=TYPES, lengths=LENS if not quick else "pairs full, triples over (0,1,255,256,510)")
    for name in CASES:
        ctx.require(ctx.acc.symbols[name] > 0, f"case family {name} never ran")

"""C20, configuration-change leg: a connected pairing (IP, CoAP) learns from the accessory's announcement that its configuration number went up,
fetches the database again - and what a restart would read from the accessory cache is that new database under that new number.  Histories over
{announcement with c#+1 (the accessory has a characteristic more), the same announcement again, a stale one, an explicit listing, a restart on
the same cache}.  Reference: the database the reference accessory serves at that moment and the numbers the harness announced."""
from __future__ import annotations

import copy
import itertools
import json

ALPH = ["announce+1", "announce+2-overlapped", "announce-same", "announce-stale", "list", "restart"]


class _Cfg:
    def __init__(self, transport, seed):
        from vt.env.reconn import mk_description

        self.transport = transport
        self.c = 1
        if transport == "ip":
            from vt.env.iprig import ACCESSORIES_JSON, IpRig, std_handler

            self.rig = IpRig(seed=seed)
            self.db = copy.deepcopy(ACCESSORIES_JSON)
            std = std_handler()

            def handler(sess, method, target, headers, body):
                if target == "/accessories":
                    return 200, json.dumps(self.db, separators=(",", ":")).encode(), "application/hap+json"
                return std(sess, method, target, headers, body)

            self.rig.acc.handler = handler
            self.rig.connect()
            self.descr = lambda c: mk_description(["127.0.0.1"], c=c)
        else:
            from vt.env.coaprig import CoapRig

            self.rig = CoapRig(seed=seed)
            self.descr = lambda c: mk_description(["fd00::5"], port=5683, c=c)
        self.pairing = self.rig.pairing
        # every write to the accessory cache is compared, at that moment, with a fresh serialisation of what the pairing holds
        cache, pr, self.stale = self.rig.controller._char_cache, self.rig.pairing, []
        orig = cache.async_create_or_update_map

        def spy(homekit_id, config_num, accessories, broadcast_key=None, state_num=None):
            fresh = pr.accessories.serialize() if pr.accessories else None
            if fresh is not None and accessories != fresh:
                self.stale.append((config_num, self.held(accessories)[-2:], self.held(fresh)[-2:]))
            return orig(homekit_id, config_num, accessories, broadcast_key, state_num)

        cache.async_create_or_update_map = spy
        self.pairing.description = self.descr(0)  # (the accessory has been seen before at this address: no endpoint change is in play)
        self.rig.run(self.pairing.list_accessories_and_characteristics())
        self.pairing._async_description_update(self.descr(1))  # the first announcement the pairing sees: configuration number 1
        self.rig.loop.run_until_idle()

    def add_characteristic(self, k):
        if self.transport == "ip":
            self.db["accessories"][0]["services"][1]["characteristics"].append({"iid": 60 + k, "type": "11", "perms": ["pr"], "format": "float", "value": 20.0})
        else:
            from vt.ref import coapacc

            ch = coapacc.Ch(60 + k, 0x11, "float", 0x10, 20.0)
            self.rig.acc.db[0][1][1][2].append(ch)
            self.rig.acc.chars[ch.iid] = ch

    def _hold(self, on):
        rig, loop = self.rig, self.rig.loop
        if self.transport == "ip":
            rig.auto_deliver = not on
            if not on:
                for _ in range(200):
                    loop.run_until_idle()
                    if not rig.outbox:
                        break
                    cc, data = rig.outbox.pop(0)
                    cc.send(data)
        else:
            rig.hold = on
            if not on:
                for _ in range(200):
                    loop.run_until_idle()
                    if not rig.held:
                        break
                    rig.held.pop(0)()

    def served(self):
        if self.transport == "ip":
            return sorted((a["aid"], c["iid"]) for a in self.db["accessories"] for s in a["services"] for c in s["characteristics"])
        return sorted((aid, c.iid) for aid, svcs in self.rig.acc.db for _, _, cs, _ in svcs for c in cs)

    @staticmethod
    def held(accessories_list):
        return sorted((a["aid"], c["iid"]) for a in accessories_list for s in a["services"] for c in s["characteristics"])

    def step(self, sym):
        out = []
        p = self.pairing
        loop = self.rig.loop
        if sym == "announce+1":
            self.c += 1
            self.add_characteristic(self.c)
            p._async_description_update(self.descr(self.c))
        elif sym == "announce+2-overlapped":
            # two configuration changes in a row: the second is announced while the re-listing that the first one started is still in flight (the
            # accessory has already rendered its answer to it, with the database as it was then)
            self._hold(True)
            self.c += 1
            self.add_characteristic(self.c)
            p._async_description_update(self.descr(self.c))
            loop.run_until_idle()
            self.c += 1
            self.add_characteristic(self.c)
            p._async_description_update(self.descr(self.c))
            loop.run_until_idle()
            self._hold(False)
        elif sym == "announce-same":
            p._async_description_update(self.descr(self.c))
        elif sym == "announce-stale":
            p._async_description_update(self.descr(max(1, self.c - 1)))
        elif sym == "list":
            try:
                self.rig.run(p.list_accessories_and_characteristics())
            except Exception as e:  # noqa: BLE001
                return [(f"config-change:listing-raises:{type(e).__name__}", {"err": str(e)[:160]})]
        elif sym == "restart":
            new = type(p)(self.rig.controller, dict(p.pairing_data))
            det = {"transport": self.transport, "announced": self.c, "restarted_config_num": new.config_num, "before": p.config_num}
            if new.config_num != self.c:
                out.append(("config-change:restart-reads-another-configuration-number-than-the-one-adopted", det))
            if not new.accessories or self.held(new.accessories.serialize()) != self.served():
                out.append(("config-change:restart-reads-another-database-than-the-accessory-serves", det))
            return out
        loop.run_until_idle()
        for _ in range(5):
            if not any(not t.done() for t in __import__("asyncio").all_tasks(loop)) or loop.next_timer() is None:
                break
            loop.fire_next_timer()
            loop.run_until_idle()
        if self.stale:
            return [("config-change:cache-write-carries-another-database-than-the-pairing-holds", {"transport": self.transport, "sym": sym, "written_vs_held": self.stale[0]})]
        cached = self.rig.controller._char_cache.get_map(p.id)
        det = {"transport": self.transport, "sym": sym, "announced": self.c, "pairing_config_num": p.config_num, "cached_config_num": cached and cached.get("config_num")}
        if cached is None:
            return [("config-change:nothing-in-the-accessory-cache-after-a-listing", det)]
        if p.config_num != self.c:
            out.append(("config-change:announced-configuration-number-not-adopted", det))
        if cached.get("config_num") != p.config_num:
            out.append(("config-change:cache-holds-another-configuration-number-than-the-pairing", det))
        if self.held(cached["accessories"]) != self.served():
            out.append(("config-change:cache-holds-another-database-than-the-accessory-serves", dict(det, cached=self.held(cached["accessories"])[-3:], served=self.served()[-3:])))
        return out

    def close(self):
        self.rig.close()


def case_config_change(p):
    h = _Cfg(p["transport"], p.get("seed", 0))
    try:
        for i, sym in enumerate(p["history"]):
            v = h.step(sym)
            if v:
                return [(s_, dict(d, history=p["history"][: i + 1])) for s_, d in v]
        return []
    finally:
        h.close()


BLE_ALPH = ["sub", "timer", "change:9", "change:10", "poll", "use", "drop"]


def case_ble_writethrough(p):
    """A BlePairing with a live session whose characteristic values change IN PLACE (notifications, polls) while the state number moves: every
    write to the accessory cache carries the database as the pairing holds it at that moment (judged at each write against a fresh
    serialisation), and what a restart reads back is what the pairing last held."""
    import asyncio

    from vt.env.blerig import BleRig

    rig = BleRig(seed=p.get("seed", 0))
    out = []
    try:
        pr = rig.pairing
        cache = rig.controller._char_cache
        orig = cache.async_create_or_update_map
        stale = []

        def spy(homekit_id, config_num, accessories, broadcast_key=None, state_num=None):
            fresh = pr.accessories.serialize() if pr.accessories else None
            if fresh is not None and accessories != fresh:
                diff = [(a["aid"], c["iid"], c.get("value"), c2.get("value")) for a, a2 in zip(accessories, fresh) for s_, s2 in zip(a["services"], a2["services"])
                        for c, c2 in zip(s_["characteristics"], s2["characteristics"]) if c != c2]
                stale.append(diff[:3])
            return orig(homekit_id, config_num, accessories, broadcast_key, state_num)

        cache.async_create_or_update_map = spy
        rig.run(pr.get_characteristics([(1, 9)]))
        for k, sym in enumerate(p["history"]):
            kind, _, arg = sym.partition(":")
            link = rig.client if rig.client is not None and rig.client.is_connected else None
            if kind == "sub":
                rig.loop.create_task(pr.subscribe({(1, 9), (1, 10)}))
            elif kind == "timer":
                if rig.loop.next_timer() is not None:
                    rig.loop.fire_next_timer()
            elif kind == "change":
                iid = int(arg)
                ch = rig.acc.chars[iid]
                ch.value = (not ch.value) if iid == 9 else ch.value + 1
                if link is not None and iid in link.notifying:
                    link.notifying[iid](iid, bytearray())
            elif kind == "poll":
                rig.loop.create_task(pr.async_populate_accessories_state(force_update=True))
            elif kind == "use":
                rig.loop.create_task(pr.get_characteristics([(1, 10)]))
            elif kind == "drop":
                if link is not None:
                    link.peer_disconnect()
            rig.loop.run_until_idle()
            if stale:
                out.append(("ble-cache:write-carries-values-the-pairing-no-longer-holds", {"history": p["history"][: k + 1], "written_vs_held": stale[0]}))
                break
        if not out:
            # the broadcast key the live session derived is what a restart has to find (broadcasts are sealed with it)
            held_key = pr.broadcast_key
            cm = cache.get_map(pr.id)
            cached_key = cm.get("broadcast_key") if cm else None
            if held_key is not None and (cached_key is None or bytes.fromhex(cached_key) != bytes(held_key)):
                out.append(("ble-cache:restart-reads-another-broadcast-key-than-the-session-derived", {"history": p["history"], "cached": cached_key and cached_key[:8], "held": bytes(held_key).hex()[:8]}))
        if not out:
            new = type(pr)(rig.controller, dict(pr.pairing_data))
            held = {(1, i): pr.accessories.aid(1).characteristics.iid(i).value for i in (9, 10)} if pr.accessories else {}
            read = {(1, i): new.accessories.aid(1).characteristics.iid(i).value for i in (9, 10)} if new.accessories else {}
            written_since = cache.get_map(pr.id)
            if written_since is not None and read != held:
                # (only what was written can be read back: values that changed after the last write are not demanded)
                last = {(a["aid"], c["iid"]): c.get("value") for a in written_since["accessories"] for s_ in a["services"] for c in s_["characteristics"] if c["iid"] in (9, 10)}
                if read != {k_: v for k_, v in last.items()}:
                    out.append(("ble-cache:restart-reads-other-values-than-the-cache-holds", {"history": p["history"], "read": {str(a): b for a, b in read.items()}, "cached": {str(a): b for a, b in last.items()}}))
    finally:
        rig.close()
    return out


CASES = {"config_change": case_config_change, "ble_writethrough": case_ble_writethrough}


def plan_ble(tier, seed):
    n = 4 if tier == "quick" else 6
    out = []
    for k in range(1, n + 1):
        for hist in itertools.product(BLE_ALPH, repeat=k):
            if not any(h.startswith("change") or h == "poll" for h in hist):
                continue
            if hist.count("drop") > 1 or hist.count("sub") > 1:
                continue
            out.append({"transport": "ble", "history": list(hist), "seed": seed})
    return out


def plan(tier, seed):
    n = 3 if tier == "quick" else 5
    out = []
    for t in ("ip", "coap"):
        for k in range(1, n + 1):
            for hist in itertools.product(ALPH, repeat=k):
                if "announce+1" in hist and hist[-1] != "announce+1":
                    out.append({"transport": t, "history": list(hist), "seed": seed})
                elif k == 1 or hist[-1] == "announce+1" and k <= 2:
                    out.append({"transport": t, "history": list(hist), "seed": seed})
    return out

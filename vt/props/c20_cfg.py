"""C20, configuration-change leg: a connected pairing (IP, CoAP) learns from the accessory's announcement that its configuration number went up,
fetches the database again - and what a restart would read from the accessory cache is that new database under that new number.  Histories over
{announcement with c#+1 (the accessory has a characteristic more), the same announcement again, a stale one, an explicit listing, a restart on
the same cache}.  Reference: the database the reference accessory serves at that moment and the numbers the harness announced."""
from __future__ import annotations

import copy
import itertools
import json

ALPH = ["announce+1", "announce+2-overlapped", "announce-same", "announce-stale", "list", "restart"]


class _Cfg:
    def __init__(self, transport, seed):
        from vt.env.reconn import mk_description

        self.transport = transport
        self.c = 1
        if transport == "ip":
            from vt.env.iprig import ACCESSORIES_JSON, IpRig, std_handler

            self.rig = IpRig(seed=seed)
            self.db = copy.deepcopy(ACCESSORIES_JSON)
            std = std_handler()

            def handler(sess, method, target, headers, body):
                if target == "/accessories":
                    return 200, json.dumps(self.db, separators=(",", ":")).encode(), "application/hap+json"
                return std(sess, method, target, headers, body)

            self.rig.acc.handler = handler
            self.rig.connect()
            self.descr = lambda c: mk_description(["127.0.0.1"], c=c)
        else:
            from vt.env.coaprig import CoapRig

            self.rig = CoapRig(seed=seed)
            self.descr = lambda c: mk_description(["fd00::5"], port=5683, c=c)
        self.pairing = self.rig.pairing
        self.pairing.description = self.descr(0)  # (the accessory has been seen before at this address: no endpoint change is in play)
        self.rig.run(self.pairing.list_accessories_and_characteristics())
        self.pairing._async_description_update(self.descr(1))  # the first announcement the pairing sees: configuration number 1
        self.rig.loop.run_until_idle()

    def add_characteristic(self, k):
        if self.transport == "ip":
            self.db["accessories"][0]["services"][1]["characteristics"].append({"iid": 60 + k, "type": "11", "perms": ["pr"], "format": "float", "value": 20.0})
        else:
            from vt.ref import coapacc

            ch = coapacc.Ch(60 + k, 0x11, "float", 0x10, 20.0)
            self.rig.acc.db[0][1][1][2].append(ch)
            self.rig.acc.chars[ch.iid] = ch

    def _hold(self, on):
        rig, loop = self.rig, self.rig.loop
        if self.transport == "ip":
            rig.auto_deliver = not on
            if not on:
                for _ in range(200):
                    loop.run_until_idle()
                    if not rig.outbox:
                        break
                    cc, data = rig.outbox.pop(0)
                    cc.send(data)
        else:
            rig.hold = on
            if not on:
                for _ in range(200):
                    loop.run_until_idle()
                    if not rig.held:
                        break
                    rig.held.pop(0)()

    def served(self):
        if self.transport == "ip":
            return sorted((a["aid"], c["iid"]) for a in self.db["accessories"] for s in a["services"] for c in s["characteristics"])
        return sorted((aid, c.iid) for aid, svcs in self.rig.acc.db for _, _, cs, _ in svcs for c in cs)

    @staticmethod
    def held(accessories_list):
        return sorted((a["aid"], c["iid"]) for a in accessories_list for s in a["services"] for c in s["characteristics"])

    def step(self, sym):
        out = []
        p = self.pairing
        loop = self.rig.loop
        if sym == "announce+1":
            self.c += 1
            self.add_characteristic(self.c)
            p._async_description_update(self.descr(self.c))
        elif sym == "announce+2-overlapped":
            # two configuration changes in a row: the second is announced while the re-listing that the first one started is still in flight (the
            # accessory has already rendered its answer to it, with the database as it was then)
            self._hold(True)
            self.c += 1
            self.add_characteristic(self.c)
            p._async_description_update(self.descr(self.c))
            loop.run_until_idle()
            self.c += 1
            self.add_characteristic(self.c)
            p._async_description_update(self.descr(self.c))
            loop.run_until_idle()
            self._hold(False)
        elif sym == "announce-same":
            p._async_description_update(self.descr(self.c))
        elif sym == "announce-stale":
            p._async_description_update(self.descr(max(1, self.c - 1)))
        elif sym == "list":
            try:
                self.rig.run(p.list_accessories_and_characteristics())
            except Exception as e:  # noqa: BLE001
                return [(f"config-change:listing-raises:{type(e).__name__}", {"err": str(e)[:160]})]
        elif sym == "restart":
            new = type(p)(self.rig.controller, dict(p.pairing_data))
            det = {"transport": self.transport, "announced": self.c, "restarted_config_num": new.config_num, "before": p.config_num}
            if new.config_num != self.c:
                out.append(("config-change:restart-reads-another-configuration-number-than-the-one-adopted", det))
            if not new.accessories or self.held(new.accessories.serialize()) != self.served():
                out.append(("config-change:restart-reads-another-database-than-the-accessory-serves", det))
            return out
        loop.run_until_idle()
        for _ in range(5):
            if not any(not t.done() for t in __import__("asyncio").all_tasks(loop)) or loop.next_timer() is None:
                break
            loop.fire_next_timer()
            loop.run_until_idle()
        cached = self.rig.controller._char_cache.get_map(p.id)
        det = {"transport": self.transport, "sym": sym, "announced": self.c, "pairing_config_num": p.config_num, "cached_config_num": cached and cached.get("config_num")}
        if cached is None:
            return [("config-change:nothing-in-the-accessory-cache-after-a-listing", det)]
        if p.config_num != self.c:
            out.append(("config-change:announced-configuration-number-not-adopted", det))
        if cached.get("config_num") != p.config_num:
            out.append(("config-change:cache-holds-another-configuration-number-than-the-pairing", det))
        if self.held(cached["accessories"]) != self.served():
            out.append(("config-change:cache-holds-another-database-than-the-accessory-serves", dict(det, cached=self.held(cached["accessories"])[-3:], served=self.served()[-3:])))
        return out

    def close(self):
        self.rig.close()


def case_config_change(p):
    h = _Cfg(p["transport"], p.get("seed", 0))
    try:
        for i, sym in enumerate(p["history"]):
            v = h.step(sym)
            if v:
                return [(s_, dict(d, history=p["history"][: i + 1])) for s_, d in v]
        return []
    finally:
        h.close()


CASES = {"config_change": case_config_change}


def plan(tier, seed):
    n = 3 if tier == "quick" else 5
    out = []
    for t in ("ip", "coap"):
        for k in range(1, n + 1):
            for hist in itertools.product(ALPH, repeat=k):
                if "announce+1" in hist and hist[-1] != "announce+1":
                    out.append({"transport": t, "history": list(hist), "seed": seed})
                elif k == 1 or hist[-1] == "announce+1" and k <= 2:
                    out.append({"transport": t, "history": list(hist), "seed": seed})
    return out

"""C14 Value preparation: bounded-exhaustive enumeration of (format, min, max, step) x input alphabets through
Service.build_update / check_convert_value against an exact-rational reference (vt/ref/numgrid.py)."""
from __future__ import annotations

import itertools

import math
from fractions import Fraction

from vt import core
from vt.ref import numgrid as ng

META = dict(
    level="exploration",
    engine="E3",
    technique="bounded-exhaustive enumeration of a declared finite alphabet (characteristic configurations x inputs at, "
    "between, half-way between and one 6th-digit ulp beside grid points, out of range, magnitudes to 2^64, each as int / "
    "float / numeric string, plus unconvertible inputs) on the real check_convert_value and Service.build_update against an "
    "independent exact-rational (fractions.Fraction) reference",
    text="every configuration of the declared list (bool, uint8..uint64, int, float; no / partial / full min-max-step, "
    "negative minima to -2^31, steps 1 2 5 10 0.1 0.5 0.25 0.01 0.0001, maxima to 2^64-1, origins off the zero grid, maxima off "
    "the grid) is combined with every input of its alphabet; integer formats with integer-valued inputs must equal the exact "
    "nearest grid point of the clamped input, everything else must be a grid point nearest to the clamped input to within the "
    "six significant digits the conversion keeps (ties up for a non-negative quotient), inside the range when the bounds "
    "are on the grid, of the right python type; unconvertible inputs must raise FormatError and nothing else; both seams "
    "must agree Every evaluation is repeated on a characteristic whose metadata was assigned, and one whose metadata was changed, after construction (the BLE model-building path); integer formats with fractional declared steps are judged exactly for on-grid integer inputs. Also: integer-valued inputs carried by bool / IntEnum / int subclass / Decimal; the calling thread's decimal context (five contexts, results judged by the property).",
    note="the for-all over all numbers is not enumerable: coverage is the declared alphabet (every boundary the code or the "
    "statement distinguishes: ties, 6/7-digit boundary, powers of two and ten, bounds, signs); weakest readings: negative-"
    "quotient ties and step-less integer ties accept either neighbour, float inputs are accepted under their decimal or their "
    "exact binary reading, nan/inf may also be passed through by a float characteristic that declares no bound on that side, "
    "no implicit range is assumed for uintN beyond the declared one",
    design_ref="DESIGN.md §4 C14",
    rule="a case = one (configuration, input) evaluated through both seams; distinct = distinct (configuration, input kind, "
    "input spelling); non-trivial = every case (garbage and numeric inputs both exercise the statement)",
    assumptions=["reference numeric grid model (vt/ref/numgrid.py) is correct: hand-computed examples in selftest"],
)

CHAR_TYPE = "0000FE01-0000-1000-8000-0026BB765291"
SERV_TYPE = "0000FE00-0000-1000-8000-0026BB765291"
U32 = 2**32 - 1
U64 = 2**64 - 1
I31 = 2**31

# (format, minValue, maxValue, minStep, in_quick)
CONFIGS = [
    ("uint8", None, None, None, True),
    ("uint8", 0, 100, 1, True),
    ("uint8", 0, 255, 1, False),
    ("uint8", 0, 100, 5, True),
    ("uint8", None, 100, None, False),
    ("uint8", 0, None, None, False),
    ("uint8", None, None, 1, False),
    ("uint8", 0, 100, None, True),
    ("uint8", 1, 101, 5, True),
    ("uint8", 10, 95, 20, True),
    ("uint8", 0, 100, 0, True),
    ("uint16", 0, 65535, 1, True),
    ("uint16", 0, 1000, 10, False),
    ("uint16", 50, 400, None, False),
    ("uint16", None, None, 1, True),
    ("uint16", None, None, None, False),
    ("uint32", 0, U32, 1, True),
    ("uint32", 0, U32, None, True),
    ("uint32", None, None, 1, False),
    ("uint32", 0, U32, 5, False),
    ("uint32", 0, U32, 1000, False),
    ("uint32", 140, 500, 1, True),
    ("uint32", 0, 86400, 1, False),
    ("uint32", None, U32, 2, False),
    ("uint32", 7, None, 10, False),
    ("uint64", 0, U64, 1, True),
    ("uint64", None, None, None, True),
    ("uint64", 0, U64, None, False),
    ("uint64", 0, U64, 2, False),
    ("uint64", None, None, 1, False),
    ("uint64", 0, 2**53, 1, False),
    ("int", -I31, I31 - 1, 1, True),
    ("int", -I31, I31 - 1, None, False),
    ("int", -100, 100, 1, True),
    ("int", -100, 100, 5, False),
    ("int", None, None, 1, False),
    ("int", None, None, None, False),
    ("int", -I31, None, 10, False),
    ("int", -50, 50, 2, True),
    ("int", None, 100, 2, True),
    ("int", 0, 100, 1, False),
    ("int", -5, 100, 10, False),
    ("float", None, None, None, True),
    ("float", 10, 38, 0.1, True),
    ("float", 10, 38, 0.5, True),
    ("float", 10, 38, 0.01, False),
    ("float", 0, 100, 1, True),
    ("float", 0, 100, None, True),
    ("float", 7.2, 33.4, 0.1, False),
    ("float", 4.5, 37, 0.5, False),
    ("float", -270, 100, 0.1, True),
    ("float", None, None, 0.1, False),
    ("float", None, None, 0.5, True),
    ("float", 0, 360, 1, False),
    ("float", 0.0001, 100000, 0.0001, False),
    ("float", 0, 1, 0.01, False),
    ("float", -I31, I31 - 1, 1, False),
    ("float", 0, U64, 1, False),
    ("float", 0, 5000, 0.01, True),
    ("float", 0.5, 30.5, 1, True),
    ("float", 0, 100, 0.0, True),
    ("float", None, 35, 0.5, False),
    ("float", 10, None, 0.1, False),
    ("float", 0, 10, 3, False),
    ("float", -40.5, 40, 0.25, False),
    ("float", 0.0, 100.0, 0.1, False),
]

# integer formats with a fractional declared step, float formats with a whole step off a non-dyadic minimum (legal metadata, seen on real accessories)
CONFIGS += [
    ("uint32", 0, U32, 0.5, True),
    ("int", -I31, I31 - 1, 0.1, True),
    ("uint64", 0, U64, 0.5, False),
    ("uint8", 0, 100, 0.5, False),
    ("uint16", 0, 65535, 0.25, False),
    ("int", -100, 100, 2.5, True),
    ("float", 0.1, 100.1, 1, True),
    ("float", 0.3, None, 1, False),
    ("float", -0.7, 50.3, 2, False),
]

# limits spelled as floats on integer formats (what JSON like "maxValue": 100.0 gives)
CONFIGS += [
    ("uint8", 0.0, 100.0, 1, True),
    ("uint8", 0.0, 100.0, None, True),
    ("int", -100.0, 100.0, 1.0, True),
    ("uint32", 0.0, 4294967295.0, 1, False),
    ("uint16", 1.0, 65535.0, None, False),
    ("int", -50.0, None, 2, False),
]

GARBAGE_CONFIGS = [(None, None, None), (0, 100, 1), (None, None, 1), (0, 100, None)]

# unconvertible inputs: (kind, spelling).  kind "py" spellings are looked up in _PY.
GARBAGE = [
    ("str", "abc"), ("str", ""), ("str", " "), ("str", "1,5"), ("str", "0x10"), ("str", "1e"), ("str", "--1"),
    ("str", "1.2.3"), ("str", "12abc"), ("str", "None"), ("str", "true"),
    ("py", "None"), ("py", "[]"), ("py", "[1]"), ("py", "{}"), ("py", "{'a': 1}"), ("py", "()"), ("py", "b'12'"),
    ("py", "object"), ("py", "1j"),
]
NONFINITE = [
    ("str", "nan"), ("str", "NaN"), ("str", "-nan"), ("str", "snan"), ("str", "inf"), ("str", "-inf"), ("str", "Infinity"),
    ("str", "+Infinity"), ("float", "nan"), ("float", "inf"), ("float", "-inf"),
]

BOOL_TRUE = [("py", "True"), ("int", 1), ("str", "1"), ("str", "true"), ("str", "True")]
BOOL_FALSE = [("py", "False"), ("int", 0), ("str", "0"), ("str", "false"), ("str", "False")]
BOOL_DOC_TRUE = [("str", s) for s in ("yes", "on", "y", "t", "TRUE", "Yes", "ON")]
BOOL_DOC_FALSE = [("str", s) for s in ("no", "off", "n", "f", "FALSE", "No", "OFF")]
BOOL_AMBIGUOUS = [("float", "1.0"), ("float", "0.0"), ("str", "1.0"), ("str", "0.0"), ("int", 2), ("int", -1), ("str", "2"), ("str", " 1"), ("float", "0.5")]
BOOL_GARBAGE = [("str", "abc"), ("str", ""), ("py", "None"), ("py", "[]"), ("py", "{}"), ("str", "nan"), ("py", "object"), ("str", "maybe")]


class _Obj:
    def __repr__(self):
        return "<object>"


_PY = {
    "None": lambda: None, "[]": lambda: [], "[1]": lambda: [1], "{}": lambda: {}, "{'a': 1}": lambda: {"a": 1},
    "()": lambda: (), "b'12'": lambda: b"12", "object": _Obj, "1j": lambda: 1j, "True": lambda: True, "False": lambda: False,
}


def _materialise(kind, spelling):
    if kind == "int":
        return int(spelling)
    if kind == "float":
        return float(spelling)
    if kind == "str":
        return str(spelling)
    if kind == "py":
        return _PY[spelling]()
    if kind == "bool":
        return bool(int(spelling))
    if kind == "intenum":
        import enum

        return enum.IntEnum("Setting", {"MEMBER": int(spelling)}).MEMBER
    if kind == "intsub":
        return type("Level", (int,), {})(int(spelling))
    if kind == "decimal":
        from decimal import Decimal

        return Decimal(spelling)
    raise core.HarnessError(f"unknown input kind {kind}")


# ---------------------------------------------------------------- the seams
_CHARS = {}


def _char(fmt, lo, hi, st):
    key = (fmt, repr(lo), repr(hi), repr(st))
    if key not in _CHARS:
        from aiohomekit.model import Accessory

        acc = Accessory(7)
        serv = acc.add_service(SERV_TYPE)
        ch = serv.add_char(CHAR_TYPE, format=fmt, min_value=lo, max_value=hi, min_step=st, perms=["pr", "pw"], iid=99)
        if (ch.format, ch.minValue, ch.maxValue, ch.minStep) != (fmt, lo, hi, st):
            raise core.HarnessError(f"characteristic not configured as requested: {key}")
        # the same characteristic as the BLE path builds it: created bare, metadata assigned afterwards (and once more, after having been
        # something else) -- what a write is checked against is what the object declares NOW
        serv2 = Accessory(8).add_service(SERV_TYPE)
        late = serv2.add_char(CHAR_TYPE, iid=100, perms=["pr", "pw"])
        late.format, late.minValue, late.maxValue, late.minStep = fmt, lo, hi, st
        changed = Accessory(9).add_service(SERV_TYPE).add_char(CHAR_TYPE, format="float", min_value=-3, max_value=3, min_step=3, perms=["pr", "pw"], iid=101)
        changed.format, changed.minValue, changed.maxValue, changed.minStep = fmt, lo, hi, st
        ch._vt_variants = (("metadata-assigned-after-construction", late), ("metadata-changed-after-construction", changed))
        _CHARS[key] = (serv, ch)
    return _CHARS[key]


def _call(fn):
    from aiohomekit.exceptions import FormatError

    try:
        return ("value", fn())
    except FormatError:
        return ("FormatError", None)
    except (RecursionError, core.HarnessError):
        raise
    except Exception as e:  # noqa: BLE001
        return ("raises", type(e).__name__)


def _same(a, b):
    if a[0] != b[0]:
        return False
    if a[0] == "value":
        return type(a[1]) is type(b[1]) and repr(a[1]) == repr(b[1])
    return a[1] == b[1]


def _run_seams(fmt, lo, hi, st, kind, spelling):
    """-> (outcome via check_convert_value, list of seam violations)"""
    from aiohomekit.model.characteristics.characteristic import check_convert_value

    serv, ch = _char(fmt, lo, hi, st)
    direct = _call(lambda: check_convert_value(_materialise(kind, spelling), ch))

    def via_service():
        res = serv.build_update({CHAR_TYPE: _materialise(kind, spelling)})
        if len(res) != 1 or res[0][0] != 7 or res[0][1] != 99:
            raise core.HarnessError(f"build_update returned {res!r}")
        return res[0][2]

    built = _call(via_service)
    out = []
    if not _same(direct, built):
        out.append(("seams-disagree", {"check_convert_value": repr(direct), "build_update": repr(built)}))
    for how, other in ch._vt_variants:
        r = _call(lambda other=other: check_convert_value(_materialise(kind, spelling), other))
        if not _same(direct, r):
            out.append((f"result-depends-on-how-the-characteristic-got-its-metadata:{how}", {"declared_at_construction": repr(direct), "declared_later": repr(r)}))
    return direct, out


# ---------------------------------------------------------------- cases
def _fmtclass(fmt):
    return fmt


def case_numeric(p):
    """p: fmt, lo, hi, st, kind (int|float|str), v (spelling)"""
    fmt, lo, hi, st, kind, v = p["fmt"], p["lo"], p["hi"], p["st"], p["kind"], p["v"]
    res, out = _run_seams(fmt, lo, hi, st, kind, v)
    return out + _judge_numeric(fmt, lo, hi, st, kind, v, res)[0]


def _judge_numeric(fmt, lo, hi, st, kind, v, res):
    d = {"format": fmt, "minValue": lo, "maxValue": hi, "minStep": st, "input": v, "input_kind": kind}
    if res[0] == "FormatError":
        return [(f"numeric-input-rejected:{fmt}", d)], {"mode": "rejected"}
    if res[0] == "raises":
        return [(f"numeric-input-raises:{res[1]}", d)], {"mode": "raised"}
    cfg = ng.Config(fmt, lo, hi, st)
    obj = _materialise(kind, v)
    x = ng.reading(obj)
    viol, facts = ng.judge(cfg, x, res[1])
    if viol and kind == "float":
        xb = ng.binary_reading(obj)
        if xb != x:
            v2, f2 = ng.judge(cfg, xb, res[1])
            if not v2:
                viol, facts = v2, dict(f2, reading="binary")
    return [(f"{cls}:{fmt}", {**d, **det, "got": repr(res[1])}) for cls, det in viol], facts


def case_garbage(p):
    """p: fmt, lo, hi, st, kind, v — an input that cannot be converted (incl. nan / inf spellings)."""
    fmt, lo, hi, st, kind, v = p["fmt"], p["lo"], p["hi"], p["st"], p["kind"], p["v"]
    res, out = _run_seams(fmt, lo, hi, st, kind, v)
    return out + _judge_garbage(fmt, lo, hi, st, kind, v, res)


def _nonfinite_class(kind, v):
    if (kind, v) not in NONFINITE:
        return None
    s = str(v).lower().lstrip("+")
    if "nan" in s:
        return "nan"
    return "-inf" if s.startswith("-") else "+inf"


def _judge_garbage(fmt, lo, hi, st, kind, v, res):
    d = {"format": fmt, "minValue": lo, "maxValue": hi, "minStep": st, "input": v, "input_kind": kind}
    if res[0] == "FormatError":
        return []
    if res[0] == "raises":
        return [(f"garbage-input-raises:{res[1]}", d)]
    r = res[1]
    nf = _nonfinite_class(kind, v)
    d["got"] = repr(r)
    if nf is None:
        return [(f"garbage-input-accepted:{fmt}", d)]
    # weakest reading for non-finite inputs: a float characteristic may pass them through where no bound applies,
    # and an infinity may be clamped to the declared bound on its side
    if nf == "nan":
        if fmt == "float" and type(r) is float and r != r and lo is None and hi is None:
            return []
        return [(f"garbage-input-accepted:{fmt}", d)]
    bound = hi if nf == "+inf" else lo
    if bound is None:
        if fmt == "float" and type(r) is float and r == float(nf):
            return []
        return [(f"garbage-input-accepted:{fmt}", d)]
    cfg = ng.Config(fmt, lo, hi, st)
    viol, _ = ng.judge(cfg, ng.reading(bound), r, integer_valued_input=True)
    return [(f"{cls}:{fmt}", {**d, **det}) for cls, det in viol]


def case_bool(p):
    """p: kind, v, expect in (true,false,doc-true,doc-false,ambiguous,garbage); optional lo/hi/st (ignored by bool)"""
    kind, v, expect = p["kind"], p["v"], p["expect"]
    res, out = _run_seams("bool", p.get("lo"), p.get("hi"), p.get("st"), kind, v)
    d = {"format": "bool", "input": v, "input_kind": kind, "class": expect}
    if res[0] == "raises":
        return out + [((f"garbage-input-raises:{res[1]}" if expect == "garbage" else f"bool-input-raises:{res[1]}"), d)]
    if res[0] == "FormatError":
        if expect in ("true", "false"):
            out.append(("bool-canonical-input-rejected", d))
        return out
    r = res[1]
    d["got"] = repr(r)
    if not (type(r) in (int, bool) and r in (0, 1)):
        return out + [("bool-result-not-0-or-1", d)]
    if expect == "garbage":
        out.append(("garbage-input-accepted:bool", d))
    elif expect in ("true", "doc-true") and r != 1:
        out.append(("bool-wrong-value", d))
    elif expect in ("false", "doc-false") and r != 0:
        out.append(("bool-wrong-value", d))
    return out


def case_sequence(p):
    """Writes to several characteristics one after the other in one process (one build_update payload naming a float and an integer characteristic,
    two accessories): every result is judged as if it were the only write ever made.  p: steps = [(fmt, lo, hi, st, kind, v), ...]"""
    out = []
    for i, (fmt, lo, hi, st, kind, v) in enumerate(p["steps"]):
        res, _ = _run_seams(fmt, lo, hi, st, kind, v)
        viol, _ = _judge_numeric(fmt, lo, hi, st, kind, v, res)
        for sig, det in viol:
            out.append((f"after-{i}-earlier-writes:" + sig, dict(det, earlier=[list(x) for x in p["steps"][:i]])))
        if out:
            break
    return out


DEC_CONTEXTS = {
    "extended": lambda d: d.ExtendedContext.copy(),  # precision 9, no traps: what decimal.setcontext(ExtendedContext) leaves behind
    "basic": lambda d: d.BasicContext.copy(),  # precision 9, most traps on
    "prec6": lambda d: d.Context(prec=6),
    "prec3-down": lambda d: d.Context(prec=3, rounding=d.ROUND_DOWN),
    "prec60": lambda d: d.Context(prec=60),
}


def case_context(p):
    """The calling thread's decimal context is the caller's (another component may have changed it): preparing a value does the same under
    every context as under the default one."""
    import decimal

    fmt, lo, hi, st, kind, v = p["fmt"], p["lo"], p["hi"], p["st"], p["kind"], p["v"]
    base, _ = _run_seams(fmt, lo, hi, st, kind, v)
    saved = decimal.getcontext()
    try:
        decimal.setcontext(DEC_CONTEXTS[p["context"]](decimal))
        other, _ = _run_seams(fmt, lo, hi, st, kind, v)
        left = decimal.getcontext()
        if left.prec != DEC_CONTEXTS[p["context"]](decimal).prec:
            return [("caller-s-decimal-context-changed-by-the-call", {"context": p["context"], "prec_now": left.prec})]
    finally:
        decimal.setcontext(saved)
    if _same(base, other):
        return []
    # (where the property leaves a choice - step-less ties - the choice may legitimately follow the caller's rounding mode: what comes out under
    # the other context is judged by the property itself, not by equality with the default context's answer)
    jv, _ = _judge_numeric(fmt, lo, hi, st, kind, v, other)
    return [(sig + ":under-another-decimal-context", dict(d, context=p["context"], default=repr(base), under_context=repr(other))) for sig, d in jv]


def case_validvalues(p):
    """A characteristic that also lists valid-values (and maybe a valid-values range): what comes out is still a value of the format, on the
    grid, within the declared range - judged exactly like the same characteristic without the list."""
    from aiohomekit.model import Accessory
    from aiohomekit.model.characteristics.characteristic import check_convert_value

    fmt, lo, hi, st, kind, v = p["fmt"], p["lo"], p["hi"], p["st"], p["kind"], p["v"]
    ch = Accessory(11).add_service(SERV_TYPE).add_char(CHAR_TYPE, format=fmt, min_value=lo, max_value=hi, min_step=st, perms=["pr", "pw"], iid=77, valid_values=list(p["valid"]))
    if p.get("vrange"):
        ch.valid_values_range = list(p["vrange"])
    res = _call(lambda: check_convert_value(_materialise(kind, v), ch))
    base, _ = _run_seams(fmt, lo, hi, st, kind, v)
    jv, _ = _judge_numeric(fmt, lo, hi, st, kind if kind in ("int", "float", "str") else "int", v if kind in ("int", "float", "str") else str(int(float(v))), res)
    out = [(sig + ":characteristic-lists-valid-values", dict(d, valid_values=p["valid"])) for sig, d in jv]
    if not out and not _same(res, base) and base[0] == "value":
        out.append(("result-depends-on-the-valid-values-list", {"with_list": repr(res), "without": repr(base), "valid_values": p["valid"]}))
    return out


def _thread_schedules(fn_a, fn_b):
    """Every schedule in which thread B runs its whole call while thread A is stopped at one line of the value preparation (one preemption,
    B atomic).  -> [(line index, result of A, result of B)], plus the two sequential results first."""
    import sys
    import threading

    import aiohomekit.model.characteristics.characteristic as mod

    target = mod.check_convert_value.__code__
    seq = (_call(fn_a), _call(fn_b))
    # count A's line events
    lines = []

    def counter(frame, event, arg):
        if frame.f_code is target:
            def local(fr, ev, ar):
                if ev == "line":
                    lines.append(fr.f_lineno)
                return local
            return local
        return None

    sys.settrace(counter)
    try:
        _call(fn_a)
    finally:
        sys.settrace(None)
    out = []
    for k in range(len(lines)):
        seen = {"n": 0, "b": None}

        def tracer(frame, event, arg, k=k, seen=seen):
            if frame.f_code is target and threading.current_thread() is threading.main_thread():
                def local(fr, ev, ar):
                    if ev == "line":
                        if seen["n"] == k and seen["b"] is None:
                            box = {}
                            t = threading.Thread(target=lambda: box.setdefault("r", _call(fn_b)))
                            t.start()
                            t.join()
                            seen["b"] = box.get("r")
                        seen["n"] += 1
                    return local
                return local
            return None

        sys.settrace(tracer)
        try:
            ra = _call(fn_a)
        finally:
            sys.settrace(None)
        out.append((k, lines[k], ra, seen["b"]))
    return seq, out


def case_threads(p):
    """Two threads prepare values at the same time (an event loop thread and an executor job, two integrations): each gets what it would have got
    alone, wherever the switch falls."""
    from aiohomekit.model.characteristics.characteristic import check_convert_value

    a, b = p["a"], p["b"]
    _, cha = _char(a["fmt"], a["lo"], a["hi"], a["st"])
    _, chb = _char(b["fmt"], b["lo"], b["hi"], b["st"])
    fa = lambda: check_convert_value(_materialise(a["kind"], a["v"]), cha)  # noqa: E731
    fb = lambda: check_convert_value(_materialise(b["kind"], b["v"]), chb)  # noqa: E731
    (sa, sb), runs = _thread_schedules(fa, fb)
    p["_schedules"] = len(runs)
    for k, line, ra, rb in runs:
        if not _same(ra, sa) or rb is None or not _same(rb, sb):
            return [("result-depends-on-what-another-thread-prepares-at-the-same-time", {"a": a, "b": b, "switch_at_line": line, "alone": [repr(sa), repr(sb)], "interleaved": [repr(ra), repr(rb)]})]
    return []


CHAR_TYPE_B = "0000FE02-0000-1000-8000-0026BB765291"
CHAR_TYPE_C = "0000FE03-0000-1000-8000-0026BB765291"


def case_multi(p):
    """One build_update call for several characteristics of a service (a thermostat's mode and target, a light's brightness and hue): every value
    is prepared against ITS characteristic and attached to its instance id, in whatever order the caller's dict lists them and whatever the
    order of the instance ids."""
    from aiohomekit.model import Accessory
    from aiohomekit.model.characteristics.characteristic import check_convert_value

    serv = Accessory(12).add_service(SERV_TYPE)
    chars = {}
    for (ctype, iid), spec in zip(((CHAR_TYPE, p["iids"][0]), (CHAR_TYPE_B, p["iids"][1]), (CHAR_TYPE_C, p["iids"][2])), p["chars"]):
        chars[ctype] = (serv.add_char(ctype, format=spec["fmt"], min_value=spec["lo"], max_value=spec["hi"], min_step=spec["st"], perms=["pr", "pw"], iid=iid), spec)
    order = [list(chars)[i] for i in p["order"]]
    payload = {ct: _materialise(chars[ct][1]["kind"], chars[ct][1]["v"]) for ct in order}
    want = {}
    for ct in order:
        ch, spec = chars[ct]
        r = _call(lambda ch=ch, spec=spec: check_convert_value(_materialise(spec["kind"], spec["v"]), ch))
        if r[0] != "value":
            return []  # (an input that is refused alone: not this case's business)
        want[ch.iid] = r[1]
    try:
        res = serv.build_update(payload)
    except Exception as e:  # noqa: BLE001
        return [(f"build_update-of-several-characteristics-raises:{type(e).__name__}", {"order": p["order"], "iids": p["iids"], "err": str(e)[:160]})]
    got = {iid: v for _, iid, v in res}
    if len(res) != len(order) or {k: repr(v) for k, v in got.items()} != {k: repr(v) for k, v in want.items()}:
        return [("build_update-of-several-characteristics-mixes-values-up", {"order": p["order"], "iids": p["iids"], "got": {str(k): repr(v) for k, v in got.items()}, "each_alone": {str(k): repr(v) for k, v in want.items()}})]
    return []


def case_numkind(p):
    """An integer-valued input is the same number whatever Python type carries it (bool, an IntEnum member, an int subclass, a Decimal)."""
    fmt, lo, hi, st, kind, v = p["fmt"], p["lo"], p["hi"], p["st"], p["kind"], p["v"]
    base, _ = _run_seams(fmt, lo, hi, st, "int", v)
    other, viol = _run_seams(fmt, lo, hi, st, kind, v)
    if not _same(base, other):
        viol = viol + [(f"result-depends-on-the-python-type-of-an-integer-valued-input:{kind}", {"as_int": repr(base), f"as_{kind}": repr(other)})]
    return viol


CASES = {"multi": case_multi, "validvalues": case_validvalues, "threads": case_threads, "context": case_context, "numkind": case_numkind, "numeric": case_numeric, "garbage": case_garbage, "bool": case_bool, "sequence": case_sequence}


# ---------------------------------------------------------------- alphabets
MAGS = (
    [10**j for j in range(0, 20)]
    + [2**k + d for k in (8, 16, 31, 32, 53, 63, 64) for d in (-1, 0, 1)]
    + [123456, 1234567, 12345678, 123456789, 999999, 1000000, 1000001, 9999995, 7654321, 4294967, 99999, 100001]
)
MAGS_QUICK = [1, 10, 1000, 99999, 999999, 1000000, 1234567, 12345678, 10**9, 10**12, 10**19] + [
    2**k + d for k in (8, 31, 32, 64) for d in (-1, 0)
]
FRACT_MAGS = [Fraction(s) for s in ("99999.5", "999999.5", "123456.5", "1234567.5", "123.4565", "27.23", "0.000015", "1234567.8")]


def _points(fmt, lo, hi, st, quick, seed):
    """-> dict Fraction -> tag (first tag wins): the input points of one configuration."""
    cfg = ng.Config(fmt, lo, hi, st)
    pts = {}

    def add(v, tag):
        v = Fraction(v)
        if abs(v) > 4 * 10**19:
            return
        pts.setdefault(v, tag)

    s = cfg.step
    o = cfg.origin
    mags = MAGS_QUICK if quick else MAGS
    betweens = [Fraction(1, 4), Fraction(1, 8), Fraction(3, 8)]  # all of them: coverage counts do not depend on the seed
    signed = (cfg.lo is None and fmt in ("int", "float")) or (cfg.lo is not None and cfg.lo < 0)
    if s is not None:
        ks = {0, 1, 2, 3, 7}
        if cfg.hi is not None:
            n = math.floor((cfg.hi - o) / s)
            ks |= {n, n - 1, n // 2, n // 2 + 1} | (set() if quick else {n - 2, n // 3, n + 1})
        if cfg.lo is None:
            ks |= {-1, -2, -3} | (set() if quick else {-7, -8})
        for t in mags:
            for sg in (1, -1) if signed else (1,):
                k = math.floor((sg * t - o) / s)
                ks |= {k} if quick else {k, k + 1}
        for k in sorted(ks):
            g = o + k * s
            add(g, "grid")
            add(g + s / 2, "tie")
            for between in betweens[: 1 if quick else 3]:
                add(g + between * s, "between")
                add(g + (1 - between) * s, "between")
            u = ng.unit6(g + s / 2) or ng.unit6(s)
            eps = [u, u / 10] if quick else [u, u / 10, u / 1000, 10 * u]
            for e in eps:
                if e < s / 2:
                    add(g + s / 2 + e, "near-tie")
                    add(g + s / 2 - e, "near-tie")
    else:
        anchors = {Fraction(0), Fraction(1), Fraction(27)}
        for b in (cfg.lo, cfg.hi):
            if b is not None:
                anchors |= {b, b - 1 if b == cfg.hi else b + 1}
        if cfg.lo is not None and cfg.hi is not None:
            anchors.add((cfg.lo + cfg.hi) / 2)
        for t in mags:
            anchors.add(Fraction(t))
            if signed:
                anchors.add(Fraction(-t))
        for g in sorted(anchors):
            add(g, "grid")
            add(g + Fraction(1, 2), "tie")
            for between in betweens[: 1 if quick else 3]:
                add(g + between, "between")
                add(g + 1 - between, "between")
            if not quick:
                add(g + Fraction(1, 2) + ng.unit6(g + 1), "near-tie")
                add(g + Fraction(1, 2) - ng.unit6(g + 1), "near-tie")
    half = (s or Fraction(1)) / 2
    if cfg.lo is not None:
        for dlt in (half, Fraction(1), Fraction("1000000.5"), Fraction(10**12)):
            add(cfg.lo - dlt, "below-min")
    if cfg.hi is not None:
        for dlt in (half, Fraction(1), Fraction("1000000.5"), Fraction(10**12)):
            add(cfg.hi + dlt, "above-max")
        add(cfg.hi * 2 + 1, "above-max")
        add(-cfg.hi - 1, "below-min" if cfg.lo is not None else "negative")
    for t in mags:
        add(t, "magnitude")
        if signed or not quick:
            add(-t, "magnitude")
    for v in FRACT_MAGS:
        add(v, "magnitude")
        if signed and not quick:
            add(-v, "magnitude")
    add(0, "zero")
    # beyond what a double can hold (ints and numeral strings have no such limit): only towards a declared bound, where clamping decides
    if cfg.hi is not None:
        for t in (10**309, 10**400, 2**1100 + 1):
            pts.setdefault(Fraction(t), "huge")
    if cfg.lo is not None:
        for t in (10**309, 10**400):
            pts.setdefault(Fraction(-t), "huge")
    return pts


def _exp_form(text):
    """'27.25' -> '2725e-2'; '1000' -> '1e3' style exponent spellings of the same decimal numeral."""
    neg = text.startswith("-")
    t = text.lstrip("-")
    if "." in t:
        ip, fp = t.split(".")
        out = f"{int(ip + fp)}e-{len(fp)}"
    else:
        stripped = t.rstrip("0") or "0"
        out = f"{stripped}E{len(t) - len(stripped)}" if stripped != "0" else "0e0"
    return ("-" if neg else "") + out


def _renderings(x, tag, quick):
    """-> list of (kind, spelling) for one rational point."""
    out = []
    text = ng.frac_to_str(x)
    if x.denominator == 1:
        out.append(("int", int(x)))
    out.append(("str", text))
    try:
        f = float(x)
        if f not in (float("inf"), float("-inf")):
            out.append(("float", repr(f)))
    except OverflowError:
        pass
    if not quick and tag in ("grid", "tie", "near-tie", "zero"):
        out.append(("str", _exp_form(text)))
        if x >= 0:
            out.append(("str", "+" + text))
        out.append(("str", text + ("0" if "." in text else ".0")))
    elif quick and tag == "tie":
        out.append(("str", text + ("0" if "." in text else ".0")))
    if tag == "huge":
        out.append(("str", _exp_form(text)))
    return out


def _cfg_tags(fmt, lo, hi, st):
    cfg = ng.Config(fmt, lo, hi, st)
    tags = [f"format:{fmt}"]
    tags.append("cfg:" + ("none" if (lo, hi, st) == (None, None, None) else "full" if None not in (lo, hi, st) else "partial"))
    if cfg.lo is not None and cfg.lo < 0:
        tags.append("cfg:negative-min")
    if cfg.step is not None and cfg.step.denominator != 1:
        tags.append("cfg:fractional-step")
    if cfg.hi is not None and cfg.hi >= 2**32 - 1:
        tags.append("cfg:max>=2^32-1")
    if cfg.hi is not None and cfg.hi == U64:
        tags.append("cfg:max=2^64-1")
    if cfg.lo is not None and cfg.lo == -I31:
        tags.append("cfg:min=-2^31")
    if cfg.step is not None and cfg.hi is not None and not cfg.bounds_on_grid()[1]:
        tags.append("cfg:max-off-grid")
    if cfg.step is not None and cfg.lo is not None and (cfg.lo / cfg.step).denominator != 1:
        tags.append("cfg:origin-off-zero-grid")
    if st == 0 and st is not None:
        tags.append("cfg:zero-step")
    return tags


# ---------------------------------------------------------------- work
def _work(item, seed, tier):
    acc = core.Acc()
    family = item[0]
    if family == "numeric":
        _, (fmt, lo, hi, st), plist = item
        ctags = _cfg_tags(fmt, lo, hi, st)
        for x_tag, kind, v in plist:
            p = {"fmt": fmt, "lo": lo, "hi": hi, "st": st, "kind": kind, "v": v}
            res, viol = _run_seams(fmt, lo, hi, st, kind, v)
            jv, facts = _judge_numeric(fmt, lo, hi, st, kind, v, res)
            viol = viol + jv
            if viol:
                outcome = viol[0][0]
            else:
                outcome = f"{facts.get('mode')}:" + (
                    f"clamped-{facts['clamped']}" if facts.get("clamped") != "no" else "tie-resolved" if facts.get("tie") else "on-grid-kept" if facts.get("on_grid_input") else "rounded-to-grid" if st else "passed-through"
                )
            syms = ctags + [f"input:{kind}", f"point:{x_tag}", f"mode:{facts.get('mode')}"]
            if facts.get("tie"):
                syms.append("exact-tie")
            if facts.get("reading") == "binary":
                syms.append("accepted-under-binary-reading")
            acc.case(key=("n", fmt, repr(lo), repr(hi), repr(st), kind, str(v)), outcome=outcome, sample={"case": "numeric", "params": p}, symbols=syms)
            for sig, detail in viol:
                acc.violation(sig, "numeric", p, detail)
    elif family == "garbage":
        _, (fmt, lo, hi, st), plist = item
        for kind, v in plist:
            p = {"fmt": fmt, "lo": lo, "hi": hi, "st": st, "kind": kind, "v": v}
            res, viol = _run_seams(fmt, lo, hi, st, kind, v)
            viol = viol + _judge_garbage(fmt, lo, hi, st, kind, v, res)
            nf = _nonfinite_class(kind, v)
            outcome = viol[0][0] if viol else f"garbage:{res[0]}" + (":passed-or-clamped" if res[0] == "value" else "")
            acc.case(key=("g", fmt, repr(lo), repr(hi), repr(st), kind, str(v)), outcome=outcome, sample={"case": "garbage", "params": p},
                     symbols=[f"format:{fmt}", "input:non-finite" if nf else "input:garbage", f"garbage-kind:{kind}"])
            for sig, detail in viol:
                acc.violation(sig, "garbage", p, detail)
    elif family == "sequence":
        for p in item[1]:
            viol = case_sequence(p)
            acc.case(key=("seq", core.jsonable(p)), outcome=viol[0][0] if viol else "sequence:ok", sample={"case": "sequence", "params": p}, symbols=["family:sequence"])
            for sig, detail in viol:
                acc.violation(sig, "sequence", p, detail)
    elif family in ("context", "numkind", "validvalues", "threads", "multi"):
        for p in item[1]:
            viol = CASES[family](p)
            acc.extra["thread_schedules"] += p.pop("_schedules", 0)
            acc.case(key=(family, core.jsonable(p)), outcome=viol[0][0] if viol else f"{family}:ok", sample={"case": family, "params": p}, symbols=[f"family:{family}", f"{family}:{p.get('context') or p.get('kind') or 'pair'}"])
            for sig, detail in viol:
                acc.violation(sig, family, p, detail)
    elif family == "bool":
        for p in item[1]:
            viol = case_bool(p)
            acc.case(key=("b", p["kind"], str(p["v"]), repr(p.get("lo"))), outcome=viol[0][0] if viol else f"bool:{p['expect']}:ok", sample={"case": "bool", "params": p},
                     symbols=["format:bool", f"bool-class:{p['expect']}"])
            for sig, detail in viol:
                acc.violation(sig, "bool", p, detail)
    else:
        raise core.HarnessError(f"unknown family {family}")
    return acc


def _split(lst, n):
    return [lst[i : i + n] for i in range(0, len(lst), n)]


# The inputs of the examples the repository's own tests and DESIGN.md §6 document (inputs only, never expected values);
# evaluated first so that the simplest counterexample of a signature is the one reported.
DOCUMENTED = [
    ("numeric", ("uint32", 0, U32, 1), [("documented", "int", 1234567), ("documented", "int", 123456)]),
    ("numeric", ("int", -I31, I31 - 1, 1), [("documented", "int", 0), ("documented", "int", 27)]),
    ("numeric", ("float", 4.5, 32, 0.5), [("documented", "float", v) for v in ("27.23", "27.6", "27.26", "27.9")]),
    ("numeric", ("float", 7.2, 33.3, 0.1), [("documented", "float", v) for v in ("27.23", "27.6", "27.26", "27.9", "27.95")]),
    ("numeric", ("float", 4.5, 32, 1), [("documented", "float", v) for v in ("27.2", "27.6", "27.9")]),
    ("numeric", ("float", 4.5, 32, 2), [("documented", "float", v) for v in ("27.2", "28.2", "27.7")]),
    ("numeric", ("float", 4.5, 32, 5), [("documented", "float", v) for v in ("27.2", "25.0", "28.3")]),
    ("numeric", ("float", 10, 32, 1), [("documented", "float", v) for v in ("27.2", "27.6", "27.9")]),
    ("numeric", ("float", 10, 32, 2), [("documented", "float", v) for v in ("27.2", "28.2", "27.7")]),
    ("numeric", ("float", 10, 32, 5), [("documented", "float", v) for v in ("27.2", "25.0", "28.3")]),
    ("numeric", ("int", 4, 32, 1), [("documented", "float", v) for v in ("27.0", "27.5", "28.0", "28.5", "29.0", "29.5", "27.2", "27.6", "27.9")]),
    ("numeric", ("uint64", 0, U64, 1), [("documented", "int", 1234567)]),
    ("numeric", ("uint16", None, None, 1), [("documented", "int", 1234567)]),
    ("numeric", ("uint8", None, None, 1), [("documented", "int", 1234567)]),
    ("garbage", ("uint8", None, None, None), [("str", "abc"), ("py", "None"), ("str", "inf"), ("str", "nan")]),
    ("garbage", ("float", 0, 100, 1), [("str", "abc"), ("py", "None"), ("str", "nan")]),
]


def run(ctx):
    quick = ctx.tier == "quick"
    ctx.pmap(_work, DOCUMENTED, parallel=False)
    work = []
    n_cfg = 0
    for fmt, lo, hi, st, in_quick in CONFIGS:
        if quick and not in_quick:
            continue
        n_cfg += 1
        pts = _points(fmt, lo, hi, st, quick, ctx.seed)
        plist = []
        seen = set()
        for x in sorted(pts):
            for kind, v in _renderings(x, pts[x], quick):
                if (kind, str(v)) in seen:
                    continue
                seen.add((kind, str(v)))
                plist.append((pts[x], kind, v))
        for chunk in _split(plist, 700):
            work.append(("numeric", (fmt, lo, hi, st), chunk))
    for fmt in ng.NUMERIC_FORMATS:
        for lo, hi, st in GARBAGE_CONFIGS:
            work.append(("garbage", (fmt, lo, hi, st), GARBAGE + NONFINITE))
    bl = []
    for lst, expect in ((BOOL_TRUE, "true"), (BOOL_FALSE, "false"), (BOOL_DOC_TRUE, "doc-true"), (BOOL_DOC_FALSE, "doc-false"), (BOOL_AMBIGUOUS, "ambiguous"), (BOOL_GARBAGE, "garbage")):
        for kind, v in lst:
            bl.append({"kind": kind, "v": v, "expect": expect})
            bl.append({"kind": kind, "v": v, "expect": expect, "lo": 0, "hi": 1, "st": 1})
    work.append(("bool", bl))

    # VERIF_SEED only shuffles the exploration order (which counterexample of a signature is met first)
    import random

    # sequences of writes in one process: a float characteristic first, then an integer one with the same declared minimum and step and a
    # numerically equal value (and the other way round, and three in a row)
    seqs = []
    big = [999999, 1000001, 1234567, 12345678, 2147483000, 4294967291, 1099511627680, 2**53 + 1]
    for ifmt, lo, hi, st in (("uint32", 0, U32, 1), ("uint64", 0, U64, 1), ("uint64", 0, U64, 5), ("int", -100, I31 - 1, 5), ("uint32", 0, None, 1), ("int", None, None, 1)):
        for v in big:
            if hi is not None and v > hi:
                continue
            f = ("float", lo, hi, st, "int", v)
            i_ = (ifmt, lo, hi, st, "int", v)
            seqs += [{"steps": [f, i_]}, {"steps": [i_, f, i_]}, {"steps": [("float", lo, hi, st, "str", str(v)), (ifmt, lo, hi, st, "str", str(v))]}]
    work += [("sequence", chunk) for chunk in _split(seqs, 40)]
    # the Python type that carries an integer-valued input; the calling thread's decimal context
    nk, cx = [], []
    for fmt, lo, hi, st in (("uint8", None, None, None), ("uint8", 0, 100, 1), ("uint32", 0, U32, 1), ("int", -100, 100, 5), ("float", 0, 100, 1), ("float", None, None, None), ("uint64", 0, None, 1)):
        for v in ("0", "1", "3", "37", "100", "250"):
            for kind in ("bool", "intenum", "intsub", "decimal"):
                if kind == "bool" and v not in ("0", "1"):
                    continue
                nk.append({"fmt": fmt, "lo": lo, "hi": hi, "st": st, "kind": kind, "v": v})
    for fmt, lo, hi, st, in_quick in CONFIGS:
        if not in_quick and quick:
            continue
        pts = sorted(_points(fmt, lo, hi, st, True, ctx.seed))
        for x in pts[:: max(1, len(pts) // (12 if quick else 40))]:
            for kind, v in _renderings(x, "ctx", True)[:2]:
                for cname in DEC_CONTEXTS:
                    cx.append({"fmt": fmt, "lo": lo, "hi": hi, "st": st, "kind": kind, "v": v, "context": cname})
    work += [("numkind", chunk) for chunk in _split(nk, 60)] + [("context", chunk) for chunk in _split(cx, 300)]
    mu = []
    specs = [dict(fmt="uint8", lo=0, hi=3, st=1, kind="int", v="1"), dict(fmt="float", lo=10, hi=38, st=0.1, kind="float", v="21.34"), dict(fmt="int", lo=-100, hi=100, st=5, kind="str", v="47"),
             dict(fmt="uint32", lo=0, hi=U32, st=None, kind="int", v="4000000000"), dict(fmt="float", lo=0, hi=360, st=1, kind="float", v="359.6")]
    for trio in itertools.permutations(range(len(specs)), 3):
        for iids in ((10, 20, 30), (30, 20, 10), (20, 30, 10)):
            for order in ((0, 1), (1, 0), (0, 1, 2), (2, 1, 0), (1, 2, 0)):
                if not quick or (trio[0] < 2 and iids != (20, 30, 10)) or order == (2, 1, 0):
                    mu.append({"chars": [specs[i] for i in trio], "iids": list(iids), "order": list(order)})
    work += [("multi", chunk) for chunk in _split(mu, 60)]
    vv = []
    for fmt, lo, hi, st, valid, vrange in (("uint8", 0, 1, 1, [0, 1], None), ("uint8", 0, 2, 1, [0, 1, 2, 3], None), ("uint8", 0, 3, None, [0, 1, 3], None), ("int", -5, 5, 5, [-5, 0, 5], None),
                                           ("uint8", 0, 100, 1, [0, 50, 100], [0, 100]), ("float", 0, 10, 0.5, [0, 5, 10], None), ("uint32", 0, U32, 1, [0, 1, U32], None)):
        for kind, v in (("int", "0"), ("int", "1"), ("int", "3"), ("int", "5"), ("float", "1.0"), ("float", "0.0"), ("float", "2.5"), ("str", "1"), ("str", "3"), ("bool", "1"), ("bool", "0"), ("intenum", "1"), ("int", "7"), ("int", "-5"), ("int", str(U32))):
            vv.append({"fmt": fmt, "lo": lo, "hi": hi, "st": st, "valid": valid, "vrange": vrange, "kind": kind, "v": v})
    work += [("validvalues", chunk) for chunk in _split(vv, 40)]
    # two threads at once: an integer format with a step and more than six digits next to a float format with a step (and other pairs), every
    # single switch point with the other thread's call run as a whole
    th = []
    A = [dict(fmt="uint32", lo=0, hi=U32, st=1, kind="int", v="3000000001"), dict(fmt="uint64", lo=0, hi=U64, st=5, kind="str", v="1099511627681"), dict(fmt="float", lo=0, hi=100, st=0.5, kind="float", v="27.26"),
         dict(fmt="int", lo=-100, hi=I31 - 1, st=5, kind="int", v="2147483000"), dict(fmt="uint8", lo=0, hi=100, st=None, kind="str", v="10.5")]
    for a_ in A:
        for b_ in A:
            if a_ is not b_:
                th.append({"a": a_, "b": b_})
    work += [("threads", chunk) for chunk in _split(th if not quick else th[:12], 2)]
    random.Random(ctx.seed).shuffle(work)
    ctx.pmap(_work, work)
    # (the DOCUMENTED phase ran first, so its inputs are the reported examples of the signatures they hit)
    ctx.exhaustive = True
    ctx.bounds.update(
        configurations=n_cfg,
        formats=["bool", *ng.NUMERIC_FORMATS],
        magnitudes=len(MAGS_QUICK if quick else MAGS),
        max_magnitude="4e19 (inputs), 2^64-1 (bounds)",
        garbage_inputs=len(GARBAGE),
        non_finite_inputs=len(NONFINITE),
        input_kinds=["int", "float", "numeric string", "garbage", "non-finite"],
    )
    sy = ctx.acc.symbols
    for fmt in ("bool",) + ng.NUMERIC_FORMATS:
        ctx.require(sy[f"format:{fmt}"] > 0, f"format {fmt} never ran")
    for k in ("input:int", "input:float", "input:str", "input:garbage", "input:non-finite"):
        ctx.require(sy[k] > 0, f"{k} never ran")
    for k in ("point:grid", "point:tie", "point:near-tie", "point:between", "point:below-min", "point:above-max", "point:magnitude"):
        ctx.require(sy[k] > 0, f"{k} never ran")
    for k in ("cfg:none", "cfg:partial", "cfg:full", "cfg:negative-min", "cfg:fractional-step", "cfg:max=2^64-1", "cfg:min=-2^31", "cfg:max-off-grid", "cfg:origin-off-zero-grid"):
        ctx.require(sy[k] > 0, f"{k} never ran")
    ctx.require(sy["exact-tie"] >= 50, "fewer than 50 exact ties evaluated")
    ctx.require(sy["mode:int-exact"] > 100 and sy["mode:six-digit"] > 100, "one of the two oracle modes hardly ran")
    ctx.require(len(ctx.acc.outcomes) >= 8, "fewer than 8 distinct outcomes")
    if sy["accepted-under-binary-reading"]:
        ctx.note(f"{sy['accepted-under-binary-reading']} float inputs were accepted under their exact binary reading only")

"""C01, end-to-end legs: the real transports (IP connection, CoAP connection, BLE pairing) against the reference
accessories: honest sessions must interoperate in both directions with the accessory's own keys; structurally faulty
M2 replies must make the connection attempt fail and leave no session."""
from __future__ import annotations

from vt.ref import hap

FAULTS = ["honest", "flip-enc", "flip-pk", "drop-enc", "swap-state", "other-identity", "split-pk-sep", "split-enc-vendor", "split-enc-retry", "state-zero-ext", "state-doubled", "pk-twice-wrong-last", "enc-twice-wrong-last"]
IP_ONLY_FAULTS = ["auth-error-470", "m4-auth-error-470", "m4-auth-error-470-no-state", "m4-auth-error", "auth-error"]  # the accessory refuses: error TLV with HTTP 200 or inside a 4xx reply


def _edit(fault, seed):
    def flip(v, bit=3):
        b = bytearray(v)
        b[bit // 8 % len(b)] ^= 1 << (bit % 8)
        return bytes(b)

    if fault == "flip-enc":
        return lambda items: [(t, flip(v, 11) if t == hap.T_ENC else v) for t, v in items]
    if fault == "flip-pk":
        return lambda items: [(t, flip(v, 5) if t == hap.T_PK else v) for t, v in items]
    if fault == "drop-enc":
        return lambda items: [i for i in items if i[0] != hap.T_ENC]
    if fault.startswith("split-"):
        # one field cut in two around a foreign item: two short values to a TLV8 reader, never the authentic one
        which = hap.T_PK if "pk" in fault else hap.T_ENC
        mid = {"sep": (255, b""), "vendor": (0x80, b"\x01"), "retry": (8, b"\x01")}[fault.rsplit("-", 1)[1]]
        return lambda items: [x for t, v in items for x in ([(t, v[: len(v) // 2]), mid, (t, v[len(v) // 2:])] if t == which else [(t, v)])]
    if fault == "state-zero-ext":
        return lambda items: [(t, v + b"\x00" if t == hap.T_STATE else v) for t, v in items]
    if fault == "state-doubled":
        return lambda items: [x for t, v in items for x in ([(t, v), (t, b"\x00")] if t == hap.T_STATE else [(t, v)])]
    if fault in ("pk-twice-wrong-last", "enc-twice-wrong-last"):
        which = hap.T_PK if fault.startswith("pk") else hap.T_ENC
        return lambda items: [x for t, v in items for x in ([(t, v), (255, b""), (t, flip(v, 9))] if t == which else [(t, v)])]
    if fault == "swap-state":
        return lambda items: [(t, b"\x03" if t == hap.T_STATE else v) for t, v in items]
    return None


def case_e2e(p):
    try:
        return _case_e2e(p)
    except Exception as e:  # noqa: BLE001
        if p["fault"] == "honest":
            return [(f"e2e:{p['transport']}:honest-session-does-not-interoperate:{type(e).__name__}", {"transport": p["transport"], "err": str(e)[:200]})]
        raise


def _case_e2e(p):
    tr, fault = p["transport"], p["fault"]
    seed = p.get("seed", 0)
    det = {"transport": tr, "fault": fault}
    out = []
    if tr == "ip":
        from vt.env.iprig import IpRig, std_handler

        rig = IpRig(seed=seed)
        try:
            rig.acc.handler = std_handler()
            if fault == "other-identity":
                rig.acc.verify_fault = "wrong-id"
            elif fault in IP_ONLY_FAULTS:
                rig.acc.verify_fault = fault
            elif fault != "honest":
                rig.acc.verify_fault = _edit(fault, seed)
            try:
                rig.run(rig.pairing._ensure_connected(), horizon=30)
                ok = True
            except Exception as e:  # noqa: BLE001
                ok, err = False, e
            sess = rig.net.conns[-1].session if rig.net.conns else None
            if fault == "honest":
                if not ok or not sess.m3_ok or not sess.verified:
                    return [("e2e:ip:honest-session-not-established", det)]
                r = rig.run(rig.pairing.get_characteristics([(1, 9)]))
                rig.run(rig.pairing.put_characteristics([(1, 9, True)]))
                if sess.errors or r != {(1, 9): {"value": 1}}:
                    out.append(("e2e:ip:session-keys-do-not-interoperate", dict(det, errors=sess.errors)))
                pr = rig.conn.protocol
                if getattr(pr, "c2a_key", None) != sess.keys["c2a"] or getattr(pr, "a2c_key", None) != sess.keys["a2c"]:
                    out.append(("e2e:ip:controller-keys-differ-from-accessory-keys", det))
            else:
                if ok or rig.pairing.is_connected:
                    out.append((f"e2e:ip:session-established-despite-faulty-m2:{fault}", det))
        finally:
            rig.close()
    elif tr == "coap":
        from vt.env.coaprig import CoapRig

        rig = CoapRig(seed=seed)
        try:
            if fault == "other-identity":
                rig.acc.ident = hap.Identity(seed, "someone-else", b"99:99:99:99:99:99")
            elif fault != "honest":
                rig.acc.verify_reply_edit = _edit(fault, seed)
            try:
                rig.run(rig.pairing.list_accessories_and_characteristics(), horizon=60)
                ok = True
            except Exception:  # noqa: BLE001
                ok = False
            if fault == "honest":
                if not ok or not rig.acc.m3_ok:
                    return [("e2e:coap:honest-session-not-established", det)]
                r = rig.run(rig.pairing.get_characteristics([(1, 10)]))
                notes = []
                rig.pairing.dispatcher_connect(lambda ev: notes.append(ev))
                code = rig.deliver_event([(10, b"\x09\x00\x00\x00")])
                if rig.acc.errors or r != {(1, 10): {"value": 50}}:
                    out.append(("e2e:coap:session-keys-do-not-interoperate", dict(det, errors=rig.acc.errors)))
                if str(code) != "2.03 Valid" or notes != [{(1, 10): {"value": 9}}]:
                    out.append(("e2e:coap:event-under-event-key-not-accepted", dict(det, code=str(code), notes=repr(notes))))
            else:
                if ok or rig.pairing.is_connected or rig.acc.session is not None:
                    out.append((f"e2e:coap:session-established-despite-faulty-m2:{fault}", det))
        finally:
            rig.close()
    else:
        from vt.env.blerig import BleRig

        rig = BleRig(seed=seed)
        try:
            if fault == "other-identity":
                rig.acc.ident = hap.Identity(seed, "someone-else", b"99:99:99:99:99:99")
            elif fault != "honest":
                rig.acc.verify_reply_edit = _edit(fault, seed)
            try:
                r = rig.run(rig.pairing.get_characteristics([(1, 10)]), horizon=120)
                ok = True
            except Exception:  # noqa: BLE001
                ok = False
            if fault == "honest":
                if not ok or not rig.acc.m3_ok or rig.acc.errors or r != {(1, 10): {"value": 50}}:
                    return [("e2e:ble:honest-session-does-not-interoperate", dict(det, errors=rig.acc.errors))]
                k1 = rig.acc.secure["c2a"]
                rig.run(rig.pairing.close())
                r2 = rig.run(rig.pairing.get_characteristics([(1, 9)]))
                rig.run(rig.pairing.put_characteristics([(1, 9, True)]))
                if not getattr(rig.acc, "resumed", False):
                    out.append(("e2e:ble:second-session-did-not-resume", det))
                if rig.acc.errors or r2 != {(1, 9): {"value": False}}:
                    out.append(("e2e:ble:resumed-session-keys-do-not-interoperate", dict(det, errors=rig.acc.errors)))
                if rig.acc.secure["c2a"] == k1:
                    out.append(("e2e:ble:resumed-session-reuses-previous-keys", det))
            else:
                if ok or rig.pairing.is_connected or rig.acc.secure is not None:
                    out.append((f"e2e:ble:session-established-despite-faulty-m2:{fault}", det))
        finally:
            rig.close()
    return out


def case_ble_resume_refused(p):
    """A BlePairing that verified once reconnects; its resume request is answered with an error / with a resume reply whose tag comes from a
    wrong secret / the fallback full verify is refused at M4.  The operation fails, and nothing of the application travels to that peer in the
    clear afterwards."""
    from vt.env.blerig import BleRig
    from vt.ref import tlv8

    rig = BleRig(seed=p.get("seed", 0))
    out = []
    try:
        rig.run(rig.pairing.get_characteristics([(1, 10)]), horizon=120)
        if not rig.acc.m3_ok:
            return [("e2e:ble:honest-session-does-not-interoperate", {})]
        rig.run(rig.pairing.close())
        how = p["how"]
        if how == "error":
            rig.acc.resume_reply_override = [(hap.T_STATE, b"\x02"), (hap.T_ERROR, b"\x02")]
        elif how == "wrong-tag":
            rig.acc.resume_reply_override = [(hap.T_STATE, b"\x02"), (hap.T_METHOD, bytes([hap.M_RESUME])), (hap.T_SESSID, b"\x11" * 8), (hap.T_ENC, b"\x22" * 16)]
        elif how == "m4-refused":
            rig.acc.resumable.clear()  # (the accessory forgot the session: full verify follows)
            rig.acc.controllers.clear()  # ... and no longer knows this controller: M4 carries the authentication error
        plain = []
        orig = rig.acc.gatt_write

        def gatt_write(iid, data, orig=orig):
            if rig.acc.secure is None and iid not in (22, 21):
                plain.append((iid, bytes(data)[:8]))
            return orig(iid, data)

        rig.acc.gatt_write = gatt_write
        raised = []
        for call in (rig.pairing.put_characteristics([(1, 9, True)]), rig.pairing.get_characteristics([(1, 9)])):
            try:
                rig.run(call, horizon=120)
                raised.append(None)
            except Exception as e:  # noqa: BLE001
                raised.append(type(e).__name__)
        det = {"how": how, "outcomes": raised, "plain_requests": [(i, d.hex()) for i, d in plain][:3]}
        if plain:
            out.append((f"e2e:ble:application-request-sent-in-the-clear-after-refused-verify:{how}", det))
        if how != "m4-refused" and raised[0] is None and rig.acc.secure is None:
            out.append((f"e2e:ble:operation-succeeds-without-a-verified-session:{how}", det))
    finally:
        rig.close()
    return out


def case_two_pairings(p):
    """Two pairings with different accessories in one process (BLE keeps a resumable session per pairing).  What one pairing learnt in its
    session is its own: the other pairing's first pair-verify is a full one - it has no session to resume - and ends with keys the OTHER
    accessory derived."""
    from vt.env.blerig import BleRig

    out = []
    seed = p.get("seed", 0)
    a = BleRig(seed=seed)
    try:
        a.run(a.pairing.get_characteristics([(1, 10)]), horizon=120)
        if not a.acc.m3_ok:
            return [("e2e:ble:honest-session-does-not-interoperate", {"which": "first pairing"})]
        sid_a = getattr(a.pairing, "_session_id", None)
    finally:
        a.close()
    b = BleRig(seed=seed + 11, acc_id=b"A1:B2:C3:D4:E5:F6")
    try:
        try:
            r = b.run(b.pairing.get_characteristics([(1, 10)]), horizon=120)
        except Exception as e:  # noqa: BLE001
            return [(f"e2e:ble:second-pairing-in-the-process-cannot-connect:{type(e).__name__}", {"err": str(e)[:160]})]
        if getattr(b.acc, "resume_requests", 0):
            out.append(("e2e:ble:pairing-without-an-earlier-session-asks-to-resume-one", {"resume_requests": b.acc.resume_requests, "first_pairing_session_id": bytes(sid_a).hex() if sid_a else None}))
        if not b.acc.m3_ok or b.acc.errors or r != {(1, 10): {"value": 50}}:
            out.append(("e2e:ble:second-pairing-session-does-not-interoperate", {"errors": b.acc.errors}))
    finally:
        b.close()
    return out


def case_coap_resession(p):
    """CoAP: a session is established, lost (the accessory restarted and answers 4.04; or the application asks for a reconnect), and pair-verify
    runs again on the SAME pairing / connection objects.  After it both ends agree on all THREE keys of the NEW session: requests work, an event
    under the new event key is delivered, and an event sealed under the event key of the session that is gone is not."""
    from vt.env.coaprig import CoapRig

    out = []
    det = {"how": p["how"], "sessions": p.get("sessions", 2)}
    rig = CoapRig(seed=p.get("seed", 0))
    try:
        rig.run(rig.pairing.list_accessories_and_characteristics(), horizon=60)
        notes = []
        rig.pairing.dispatcher_connect(lambda ev: notes.append(dict(ev)))
        olds = []
        for n in range(1, p.get("sessions", 2)):
            if rig.acc.session is None:
                return [("e2e:coap:honest-session-not-established", det)]
            if p.get("event_in_old_session", True):
                rig.deliver_event([(10, bytes([n, 0, 0, 0]))])
            olds.append(dict(rig.acc.session))
            if p["how"] == "accessory-restart":
                rig.acc.session = None  # every further request is answered 4.04
            elif p["how"] == "reconnect-soon":
                rig.run(rig.pairing.connection.reconnect_soon()) if hasattr(rig.pairing.connection, "reconnect_soon") else None
                rig.acc.session = None
            for _ in range(3):
                try:
                    r = rig.run(rig.pairing.get_characteristics([(1, 10)]))
                    break
                except Exception:  # noqa: BLE001
                    r = None
            if r != {(1, 10): {"value": 50}} or rig.acc.session is None:
                return [("e2e:coap:no-new-session-after-the-old-one-was-lost", dict(det, nth=n, got=repr(r)[:80]))]
        del notes[:]
        code = rig.deliver_event([(10, b"\x63\x00\x00\x00")])
        if str(code) != "2.03 Valid" or notes != [{(1, 10): {"value": 0x63}}]:
            out.append(("e2e:coap:event-under-the-new-sessions-event-key-not-accepted", dict(det, code=str(code), notes=repr(notes)[:120])))
        del notes[:]
        cur = rig.acc.session
        for k, old in enumerate(olds):
            for ctr in sorted({0, old["ev_ctr"], max(old["ev_ctr"] - 1, 0), cur["ev_ctr"]}):
                rig.acc.session = dict(old, ev_ctr=ctr)
                try:
                    rig.deliver_event([(10, b"\x77\x00\x00\x00")])
                except Exception:  # noqa: BLE001
                    pass
                finally:
                    rig.acc.session = cur
                if notes:
                    out.append(("e2e:coap:event-under-the-event-key-of-a-lost-session-accepted", dict(det, old_session=k, counter=ctr, notes=repr(notes)[:120])))
                    del notes[:]
        r = rig.run(rig.pairing.get_characteristics([(1, 10)]))
        if rig.acc.errors or r != {(1, 10): {"value": 50}}:
            out.append(("e2e:coap:session-keys-do-not-interoperate", dict(det, errors=rig.acc.errors[:2], after="events of a lost session were shown")))
    finally:
        rig.close()
    return out


CASES = {"e2e": case_e2e, "two_pairings": case_two_pairings, "ble_resume_refused": case_ble_resume_refused, "coap_resession": case_coap_resession}


def plan():
    return [("e2e", [{"rec": 0, "eph": 0, "style": tr, "transport": tr, "fault": f}]) for tr in ("ip", "coap", "ble") for f in FAULTS] + \
        [("e2e", [{"rec": 0, "eph": 0, "style": "ip", "transport": "ip", "fault": f}]) for f in IP_ONLY_FAULTS] + \
        [("coap_resession", [{"rec": 0, "eph": 0, "style": "coap", "transport": "coap", "fault": f"resession:{h_}:{n}:{e_}", "how": h_, "sessions": n, "event_in_old_session": e_}])
         for h_ in ("accessory-restart", "reconnect-soon") for n in (2, 3) for e_ in (True, False)] + \
        [("two_pairings", [{"rec": 0, "eph": 0, "style": "ble", "transport": "ble", "fault": "two-pairings"}])] + \
        [("ble_resume_refused", [{"rec": 0, "eph": 0, "style": "ble", "transport": "ble", "fault": "resume-refused:" + h_, "how": h_}]) for h_ in ("error", "wrong-tag", "m4-refused")]

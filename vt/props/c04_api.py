"""C04, API leg: error replies inside histories of pairing attempts through the public discovery API of each transport (the rigs of C03's API
leg).  The accessory refuses the next k requests of one pair-setup step (M1, M3 or M5) with an error code - at the first attempt, or at the
attempt that follows a failed one (where BLE restarts the exchange by itself).  Whatever operation received such a reply fails with the class
documented for the code and returns nothing; nothing is retried behind the caller's back into a success."""
from __future__ import annotations

from vt.ref import hap

RIGHT, WRONG = "111-22-333", "111-22-334"
MAPPED = {"02": "AuthenticationError", "03": "BackoffError", "04": "MaxPeersError", "05": "MaxTriesError", "06": "UnavailableError", "07": "BusyError", "01": "InvalidError", "08": "InvalidError"}
PRELUDES = {"first": [], "after-wrong-code": ["start", "wrong"], "after-wrong-code-restarted": ["start", "wrong", "start"], "after-two-wrong-codes": ["start", "wrong", "wrong"]}


def case_api_refusal(p):
    """p: transport, prelude (name), req (state of the refused request: 1/3/5), code (hex), times (how many requests in a row are refused)."""
    from vt.env.setuprig import RIGS

    out = []
    rig = RIGS[p["transport"]](seed=p.get("seed", 0))
    det = {k: p[k] for k in ("transport", "prelude", "req", "code", "times")}
    try:
        for op in PRELUDES[p["prelude"]]:
            if op == "start":
                rig.start()
            elif rig.finish_fn is not None:
                rig.finish(WRONG)
        hap.SetupService.REFUSE = {p["req"]: [bytes.fromhex(p["code"])] * p["times"]}
        # the operations that follow: a start (if none is pending, or for M1 at the first attempt) and a finish with the right code
        ops = (["start"] if rig.finish_fn is None else []) + ["right"]
        trace = []
        for op in ops:
            before = len(rig.log)
            if op == "start":
                exc = rig.start()
                ret = None
            else:
                if rig.finish_fn is None:
                    break
                ret, exc = rig.finish(RIGHT)
            new = rig.log[before:]
            refused = [v for _, v in new if isinstance(v, str) and v.startswith("refused:")]
            trace.append((op, type(exc).__name__ if exc else ("ret" if ret is not None else "ok"), [list(x) for x in new]))
            if not refused:
                continue
            d = dict(det, op=op, trace=trace, refusals_seen_by_this_operation=len(refused))
            want = MAPPED[p["code"]]
            if ret is not None:
                out.append((f"api:operation-answered-with-error-{p['code']}-returned-pairing-data", d))
            elif exc is None:
                out.append((f"api:operation-answered-with-error-{p['code']}-completed", d))
            elif type(exc).__name__ != want:
                out.append((f"api:error-{p['code']}-raised-as-{type(exc).__name__}-instead-of-{want}", dict(d, err=str(exc)[:120])))
            elif len(refused) > 1:
                out.append((f"api:request-repeated-after-error-{p['code']}-behind-the-callers-back", d))
            break
        p["_refused"] = any("refused:" in str(t[2]) for t in trace)
    finally:
        hap.SetupService.REFUSE = {}
        rig.close()
    return out


CASES = {"api_refusal": case_api_refusal}


def plan(tier):
    quick = tier == "quick"
    cells = []
    for t in ("ip", "coap", "ble"):
        for prelude in PRELUDES:
            for step in (1, 3, 5):
                for code in (("07", "05", "02") if quick else sorted(MAPPED)):
                    for times in ((1, 3) if quick else (1, 2, 3, 6)):
                        cells.append(("api_refusal", {"transport": t, "prelude": prelude, "req": step, "code": code, "times": times, "step": f"api-setup-m{step + 1}", "err": code, "state": "expected", "style": t}))
    return cells

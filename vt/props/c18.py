"""C18 BLE encrypted broadcast notifications: explicit-state history search over advertisements fed to the real
BleController._device_detected with a loaded BlePairing (cached accessory state, broadcast key, state number),
against a reference model (accept only if authentic, inner counter = nonce counter, state number newer than last)."""
from __future__ import annotations

import struct

from cryptography.hazmat.primitives.ciphers.aead import ChaCha20Poly1305

from vt import core, vloop
from vt.ref import crypto as C

META = dict(
    level="model_checking",
    engine="E1",
    technique="explicit-state breadth-first search over advertisement histories (state = last accepted state number + listener log, reconstructed by replaying the history on a fresh real BlePairing) with a reference acceptance model checked on every transition, plus exhaustive single-bit corruption from every base state",
    text="histories over {genuine with state number last+1, +2, +50, +99, last, last-1, last-5, +100, +150; wrong key; right header id but sealed for another advertising id; inner counter != nonce "
    "counter; truncated payloads 0..15 bytes; unknown iid} from several base state numbers, every single-bit flip of payload+tag and of the advertising id, formats x values; oracle: a "
    "notification reaches listeners / changes state only if authentic, inner = nonce counter and newer than the last accepted one; an accepted one is delivered under (1,iid) with the "
    "format's decoding and advances description.state_num to its GSN; otherwise nothing changes; the scanner callback never raises Base states include the last state numbers before 65535, replays of broadcasts recorded long ago under the same key, and the empty payload. Also a process restart on the same characteristic cache (what the accessory's regular advertisement had made durable is not forgotten), "
    "and a connected-session leg (c18_conn.py): a real BlePairing with a GATT session against the reference accessory at state number 65534 / 300 - subscribe, start-notify, GATT notification (once-per-session bump, roll-over, key request "
    "held in flight and released), link drop, reconnect - with a replay of a finished epoch's broadcast at every point. Also: broadcasts far ahead that are refused now and shown again, byte for byte, after the window moved over them; runs of 320 distinct undecryptable advertisements as one step; every genuine broadcast 1..99 ahead for a known characteristic has to be accepted; repeated copies of an accepted broadcast for characteristics that report by broadcast. The pairing's scalar attributes are part of the canonical state. In the connected-session leg acceptance of a fresh genuine broadcast is demanded too whenever the pairing still holds the key. Also with the application's listener away for a while (what was accepted meanwhile stays accepted).",
    note="a 4-byte tag is forgeable with probability 2^-32 per try by design (not enumerable); beyond 99 ahead acceptance is allowed, not demanded",
    design_ref="DESIGN.md §4 C18",
    rule="state = canonical (description.state_num, cached state_num, listener log length); transition = one advertisement processed by the real callback; history depth as reported",
)

ADV_ID = bytes.fromhex("aabbccddeeff")
DEV_ID = "aa:bb:cc:dd:ee:ff"
OTHER_ID = bytes.fromhex("112233445566")
ADV_ID_B = bytes.fromhex("a1b2c3d4e5f6")
DEV_ID_B = "a1:b2:c3:d4:e5:f6"
KEY_B = C.det_bytes("c18", "bcast-neighbour")
KEY = C.det_bytes("c18", "bcast")
WRONG_KEY = C.det_bytes("c18", "wrong")
CHARS = {9: "bool", 10: "uint8", 11: "uint16", 12: "uint32", 13: "uint64", 14: "int", 15: "float", 16: "string"}
FMT = {"bool": "?", "uint8": "B", "uint16": "H", "uint32": "I", "uint64": "Q", "int": "i", "float": "f"}


CHARS2 = {9: "uint8", 10: "bool", 11: "float", 13: "uint32", 14: "uint16", 15: "uint8", 16: "string", 17: "int"}  # after a configuration change: other formats, iid 12 gone, 17 new


def accessories(table=None):
    chars = [{"iid": 2, "type": "23", "perms": ["pr"], "format": "string", "value": "Acc"}]
    # (permissions vary: an event-only characteristic and a vendor one whose signature gave no permissions at all - a broadcast for them is a
    # broadcast like any other)
    svc2 = [{"iid": i, "type": f"{0x100 + i:X}", "perms": {12: ["ev"], 15: [], 14: ["pr", "ev"]}.get(i, ["pr", "pw", "ev"]), "format": f} for i, f in (table or CHARS).items()]
    return [{"aid": 1, "services": [{"iid": 1, "type": "3E", "characteristics": chars}, {"iid": 8, "type": "43", "characteristics": svc2}]}]


def seal(gsn_nonce, gsn_inner, iid, value8, key=KEY, aad=ADV_ID, tag_len=4):
    pt = struct.pack("<HH", gsn_inner & 0xFFFF, iid) + value8
    full = ChaCha20Poly1305(key).encrypt(b"\x00" * 4 + struct.pack("<Q", gsn_nonce), pt, aad)
    return full[: len(pt)] + full[len(pt) : len(pt) + tag_len]


def adv_bytes(header_id, payload):
    return bytes([0x11, 0x36]) + header_id + payload


class Rig:
    def __init__(self, last, with_loop=True):
        from aiohomekit.characteristic_cache import CharacteristicCacheMemory
        from aiohomekit.controller.ble.controller import BleController

        self.loop = vloop.VirtualLoop().install()
        cache = self.cache = CharacteristicCacheMemory()
        self.floor = None  # state number carried by the accessory's latest regular advertisement (what a restart may not fall behind)
        cache.async_create_or_update_map(DEV_ID.upper(), 1, accessories(), KEY.hex(), last)
        self.controller = BleController(cache)
        self.pairing_data = {"Connection": "BLE", "AccessoryPairingID": DEV_ID.upper(), "AccessoryAddress": "00:11:22:33:44:55",
                             "AccessoryLTPK": "00" * 32, "iOSPairingId": "x", "iOSDeviceLTSK": "00" * 32, "iOSDeviceLTPK": "00" * 32}
        self.pairing = self.controller.load_pairing("alias", self.pairing_data)
        self.has_discovery = False
        self.first_pairing_id = id(self.pairing)
        self.log = []
        self.listening = True
        self._unlisten = self.pairing.dispatcher_connect(lambda ev: self.log.append(dict(ev)))
        self.avail = []  # what availability listeners were told
        self.pairing.dispatcher_availability_changed(lambda a: self.avail.append(bool(a)))
        self.model_last = last
        self.chars = dict(CHARS)
        # a second accessory paired on the same controller, with its own key and identifiers, at the same state number
        cache.async_create_or_update_map(DEV_ID_B.upper(), 1, accessories(), KEY_B.hex(), last)
        self.pairing_b = self.controller.load_pairing("neighbour", {"Connection": "BLE", "AccessoryPairingID": DEV_ID_B.upper(), "AccessoryAddress": "00:11:22:33:44:66",
                                                                   "AccessoryLTPK": "00" * 32, "iOSPairingId": "x", "iOSDeviceLTSK": "00" * 32, "iOSDeviceLTPK": "00" * 32})
        self.log_b = []
        self.pairing_b.dispatcher_connect(lambda ev: self.log_b.append(dict(ev)))
        self.model_last_b = last
        self.neighbour_payloads = []

    def state_b(self):
        return (self.pairing_b.description.state_num if self.pairing_b.description else None, len(self.log_b))

    def feed(self, data: bytes, address="00:11:22:33:44:55", run=True):
        from bleak.backends.device import BLEDevice
        from bleak.backends.scanner import AdvertisementData

        dev = BLEDevice(address, "Acc", {})
        adv = AdvertisementData(local_name="Acc", manufacturer_data={76: data}, service_data={}, service_uuids=[], tx_power=None, rssi=-60, platform_data=())
        self.controller._device_detected(dev, adv)
        if run:
            self.loop.run_until_idle()

    def state(self):
        return (self.pairing.description.state_num if self.pairing.description else None, len(self.log))

    def close(self):
        self.loop.shutdown()


def build(sym, last, arg=None):
    """-> (advertisement bytes, model verdict dict(authentic, inner_ok, gsn, iid, value8))."""
    iid, val = 11, struct.pack("<Q", 0x1234)
    rel = {"+1": 1, "+2": 2, "+3": 3, "+50": 50, "+99": 99, "same": 0, "-1": -1, "-5": -5, "+100": 100, "+150": 150}
    if sym in rel:
        g = last + rel[sym]
        if g < 0 or g > 0xFFFF:
            return None
        return adv_bytes(ADV_ID, seal(g, g, iid, val)), dict(authentic=True, inner_ok=True, gsn=g, iid=iid, value8=val)
    if sym.startswith("old:"):
        # a genuine broadcast recorded long ago under the same key (absolute state number), replayed now
        g = int(sym[4:])
        if g > last:
            return None
        return adv_bytes(ADV_ID, seal(g, g, iid, val)), dict(authentic=True, inner_ok=True, gsn=g, iid=iid, value8=val)
    if sym == "empty-payload":
        return adv_bytes(ADV_ID, b""), dict(authentic=False, gsn=last + 1)
    g = last + 1
    if sym == "wrong-key":
        return adv_bytes(ADV_ID, seal(g, g, iid, val, key=WRONG_KEY)), dict(authentic=False, gsn=g)
    if sym == "other-adv-id-aad":
        return adv_bytes(ADV_ID, seal(g, g, iid, val, aad=OTHER_ID)), dict(authentic=False, gsn=g)
    if sym == "other-header-id":
        return adv_bytes(OTHER_ID, seal(g, g, iid, val)), dict(authentic=False, gsn=g)
    if sym == "foreign-id-consistent":
        # sealed with the right key and a fresh state number but for ANOTHER advertising identifier (field and AAD agree), sent from this accessory's bluetooth address
        return adv_bytes(OTHER_ID, seal(g, g, iid, val, aad=OTHER_ID)), dict(authentic=False, gsn=g)
    if sym == "inner-mismatch":
        return adv_bytes(ADV_ID, seal(g, g + 1, iid, val)), dict(authentic=True, inner_ok=False, gsn=g, iid=iid, value8=val)
    if sym == "inner-mismatch-old":
        return adv_bytes(ADV_ID, seal(g, max(0, last - 1), iid, val)), dict(authentic=True, inner_ok=False, gsn=g, iid=iid, value8=val)
    if sym == "trunc":
        p = seal(g, g, iid, val)[:arg]
        return adv_bytes(ADV_ID, p), dict(authentic=False, gsn=g)
    if sym == "bitflip":
        p = bytearray(seal(g, g, iid, val))
        p[arg // 8] ^= 1 << (arg % 8)
        return adv_bytes(ADV_ID, bytes(p)), dict(authentic=False, gsn=g)
    if sym == "idflip":
        h = bytearray(ADV_ID)
        h[arg // 8] ^= 1 << (arg % 8)
        return adv_bytes(bytes(h), seal(g, g, iid, val)), dict(authentic=False, gsn=g)
    if sym == "unknown-iid":
        return adv_bytes(ADV_ID, seal(g, g, 999, val)), dict(authentic=True, inner_ok=True, gsn=g, iid=999, value8=val, unknown_iid=True)
    if sym in ("+1:iid12", "+1:iid15"):
        iid = int(sym[-2:])
        val = struct.pack("<f", 21.5) + bytes(4) if iid == 15 else struct.pack("<Q", 55)
        return adv_bytes(ADV_ID, seal(g, g, iid, val)), dict(authentic=True, inner_ok=True, gsn=g, iid=iid, value8=val)
    if sym == "value":
        iid, val = arg
        return adv_bytes(ADV_ID, seal(g, g, iid, val)), dict(authentic=True, inner_ok=True, gsn=g, iid=iid, value8=val)
    raise core.HarnessError(sym)


FLOOD = 320
SYMS = ["far:+120", "replay-rec", "pair:+2|+2", "pair:+3|+2", "pair:+1|+2", "pair:+50|+99", "+1", "+2", "+50", "+99", "same", "-1", "-5", "+100", "+150", "wrong-key", "other-adv-id-aad", "other-header-id", "foreign-id-consistent", "inner-mismatch", "inner-mismatch-old", "unknown-iid", "old:0", "old:1", "old:40", "old:98", "empty-payload", "neighbour:+1", "cross:from-neighbour", "db-swap", "+1:iid12", "+1:iid15"]


def _utf8(b):
    try:
        bytes(b).decode("utf-8")
        return True
    except UnicodeDecodeError:
        return False


def step(rig: Rig, sym, arg=None):
    """Apply one symbol to the real code and judge it against the model.  -> (violations, applied?)"""
    last = rig.model_last
    if sym == "neighbour:+1":
        # a genuine next broadcast of the OTHER accessory: it is that pairing's business alone
        g = rig.model_last_b + 1
        if g > 0xFFFF:
            return [], False
        payload = seal(g, g, 10, struct.pack("<Q", 0x77), key=KEY_B, aad=ADV_ID_B)
        before, before_b = rig.state(), rig.state_b()
        try:
            rig.feed(adv_bytes(ADV_ID_B, payload), address="00:11:22:33:44:66")
        except Exception as e:  # noqa: BLE001
            return [(f"scanner-callback-raises:{type(e).__name__}:neighbour", {"sym": sym, "err": str(e)[:160]})], True
        out = []
        if rig.state() != before:
            out.append(("neighbours-notification-changes-this-pairing", {"sym": sym, "before": before, "after": rig.state()}))
        if rig.state_b()[0] != g or rig.state_b()[1] != before_b[1] + 1:
            out.append(("genuine-next-notification-rejected:neighbour", {"sym": sym, "state": rig.state_b()}))
        rig.model_last_b = g
        rig.neighbour_payloads.append((g, payload))
        return out, True
    if sym.startswith("pair:"):
        # two advertisements reach the scanner callback within ONE loop iteration (a burst, a scanner that batches): judged one after the other
        # by the model, observed after both
        a, b = sym[5:].split("|")
        ba, bb = build(a, last), build(b, last)
        if ba is None or bb is None:
            return [], False
        before = rig.state()
        nlog = len(rig.log)
        try:
            rig.feed(ba[0], run=False)
            rig.feed(bb[0], run=False)
            rig.loop.run_until_idle()
        except Exception as e:  # noqa: BLE001
            return [(f"scanner-callback-raises:{type(e).__name__}:pair", {"sym": sym, "err": str(e)[:160]})], True
        cur, want = last, []
        for _, m in (ba, bb):
            if m["authentic"] and m.get("inner_ok") and m["gsn"] > cur:
                cur = m["gsn"]
                want.append(m["gsn"])
        new = rig.log[nlog:]
        out = []
        det = {"sym": sym, "last": last, "delivered": len(new), "expected_deliveries": len(want), "state_after": rig.state()[0], "expected_state": cur}
        if len(new) > len(want):
            out.append(("notification-accepted-though-stale:two-in-one-loop-iteration", det))
        elif len(new) < len(want):
            out.append(("genuine-notification-lost:two-in-one-loop-iteration", det))
        if rig.state()[0] != cur and not out:
            out.append(("state-number-after-two-notifications-in-one-loop-iteration-wrong", det))
        rig.model_last = cur
        return out, True
    if sym == "restart":
        # the process ends and a new one starts on the same characteristic cache: a new controller, the pairings loaded again, no discovery yet.
        # Whatever the accessory's regular advertisement had already told the old process is not forgotten.
        if rig.floor is None:
            return [], False
        from aiohomekit.controller.ble.controller import BleController

        before = rig.state()
        rig.controller = BleController(rig.cache)
        rig.pairing = rig.controller.load_pairing("alias", rig.pairing_data)
        rig.pairing.dispatcher_connect(lambda ev: rig.log.append(dict(ev)))
        rig.listening = True
        rig.pairing_b = rig.controller.load_pairing("neighbour", dict(rig.pairing_data, AccessoryPairingID=DEV_ID_B.upper(), AccessoryAddress="00:11:22:33:44:66"))
        rig.pairing_b.dispatcher_connect(lambda ev: rig.log_b.append(dict(ev)))
        rig.has_discovery = False
        rig.n_restarts = getattr(rig, "n_restarts", 0) + 1
        rig.loop.run_until_idle()
        after = rig.state()
        out = []
        if len(rig.log) != before[1]:
            out.append(("restart-reaches-listeners", {"before": before, "after": after}))
        if after[0] is None or after[0] < rig.floor:
            out.append(("restarted-pairing-falls-behind-the-state-number-of-the-last-regular-advertisement", {"tracked": after[0], "advertised": rig.floor, "last_accepted": rig.model_last}))
        elif after[0] > rig.model_last:
            out.append(("restarted-pairing-is-ahead-of-every-accepted-state-number", {"tracked": after[0], "last_accepted": rig.model_last}))
        else:
            rig.model_last = after[0]  # (the new process legitimately knows no more than what was made durable)
        rig.floor = None
        return out, True
    if sym in ("regular-adv", "reload-pairing"):
        if sym == "reload-pairing" and not rig.has_discovery:
            return [], False  # (a pairing re-loaded before the accessory's regular advertisement was ever seen starts from the cache: outside this property)
        before = rig.state()
        if sym == "regular-adv":
            # the accessory's regular (0x06) advertisement carrying its current state number: a discovery exists from now on
            from vt.props.c19 import mfr_data

            rig.feed(mfr_data(DEV_ID, gsn=max(rig.model_last, 1), cn=1))
            rig.has_discovery = True
            rig.floor = max(rig.model_last, 1)
        else:
            # the application loads the pairing again on the same controller (reload, set-up retry): what was accepted stays accepted
            rig.pairing = rig.controller.load_pairing("alias", rig.pairing_data)
            rig.pairing.dispatcher_connect(lambda ev: rig.log.append(dict(ev)))
            rig.listening = True
        rig.loop.run_until_idle()
        after = rig.state()
        out = []
        if len(rig.log) != before[1]:
            out.append((f"{sym}-reaches-listeners", {"before": before, "after": after}))
        if after[0] is not None and before[0] is not None and after[0] < rig.model_last and sym == "reload-pairing":
            out.append(("reloaded-pairing-forgets-the-last-accepted-state-number", {"tracked": after[0], "last_accepted": rig.model_last}))
        return out, True
    if sym == "db-swap":
        # the accessory's configuration changed and its database was fetched again: from now on broadcasts are decoded against the NEW one
        rig.chars = dict(CHARS2) if rig.chars == CHARS else dict(CHARS)
        before = rig.state()
        rig.pairing.restore_accessories_state(accessories(rig.chars), (rig.pairing.config_num or 1) + 1, KEY, rig.pairing.state_num)
        rig.loop.run_until_idle()
        if rig.state() != before:
            return [("database-replacement-changes-state-number-or-notifies", {"before": before, "after": rig.state()})], True
        return [], True
    if sym in ("listener:off", "listener:on"):
        # the application's listener goes away for a while (set-up not finished, a reload): broadcasts are judged all the same - what was
        # accepted while nobody listened stays accepted, a replay of it is a replay when somebody listens again
        if (sym == "listener:off") != rig.listening or id(rig.pairing) != rig.first_pairing_id:
            return [], False
        if rig.listening:
            rig._unlisten()
        else:
            rig._unlisten = rig.pairing.dispatcher_connect(lambda ev: rig.log.append(dict(ev)))
        rig.listening = not rig.listening
        return [], True
    if sym.startswith("far:"):
        # a genuine broadcast far ahead of what this pairing has accepted (it missed a lot): kept, byte for byte, for `replay-rec`
        b = build("+1", last + int(sym[5:]) - 1)
        if b is None:
            return [], False
        rig.recorded = (b[1]["gsn"], b[0], b[1])
    elif sym == "replay-rec":
        # the bytes of that broadcast again (advertisements repeat; a scanner may hand over a cached one): judged like any other, at ITS state number
        if getattr(rig, "recorded", None) is None:
            return [], False
        b = (rig.recorded[1], rig.recorded[2])
    elif sym.startswith("flood:"):
        # a long run of advertisements that cannot be this accessory's (a neighbourhood of other controllers' accessories re-using the address,
        # a jammed channel: hundreds within seconds, every one different).  Each is judged; the pairing comes out of it as it went in.
        out = []
        before = rig.state()
        for k in range(FLOOD):
            fb = build("bitflip", last, k % 128) if sym == "flood:bitflips" else (adv_bytes(ADV_ID, seal(last + 1, last + 1, 11, struct.pack("<Q", k), key=WRONG_KEY)), None)
            try:
                rig.feed(fb[0], run=k % 50 == 49)
            except Exception as e:  # noqa: BLE001
                return [(f"scanner-callback-raises:{type(e).__name__}:{sym}", {"sym": sym, "nth": k, "err": str(e)[:160]})], True
        rig.loop.run_until_idle()
        if rig.state() != before:
            out.append((f"notification-accepted-though-forged:{sym}", {"sym": sym, "before": before, "after": rig.state()}))
        return out, True
    if sym == "cross:from-neighbour":
        # the neighbour's latest genuine payload, byte for byte, presented under THIS accessory's advertising identifier and address
        if not rig.neighbour_payloads:
            return [], False
        g, payload = rig.neighbour_payloads[-1]
        b = (adv_bytes(ADV_ID, payload), dict(authentic=False, gsn=g))
    elif not sym.startswith(("far:", "replay-rec")):
        b = build(sym, last, arg)
    if b is None:
        return [], False
    data, m = b
    before = rig.state()
    nlog = len(rig.log)
    av_before = (len(rig.avail), bool(rig.pairing.is_available))
    out = []
    det = {"sym": sym, "arg": arg, "last": last}
    try:
        rig.feed(data)
    except Exception as e:  # noqa: BLE001
        kind = "unknown-iid" if m.get("unknown_iid") else ("truncated" if sym == "trunc" else sym)
        return [(f"scanner-callback-raises:{type(e).__name__}:{kind}", dict(det, err=str(e)[:160]))], True
    after = rig.state()
    new = rig.log[nlog:]
    legit = m["authentic"] and m.get("inner_ok") and m["gsn"] > last
    undeliverable = m.get("unknown_iid") or m.get("iid") not in rig.chars or (m.get("iid") == 16 and not _utf8(m.get("value8", b"")))
    accepted = bool(new) or after[0] != before[0]
    av_after = (len(rig.avail), bool(rig.pairing.is_available))
    if av_after != av_before and not legit:
        # "heard from the accessory" is state too: only an authentic, fresh broadcast may say so
        why = "forged" if not m["authentic"] else ("inner-counter-mismatch" if not m.get("inner_ok") else "stale")
        out.append((f"{why}-broadcast-changes-availability:{sym}", dict(det, available_before=av_before[1], available_after=av_after[1], listeners_told=rig.avail[av_before[0]:])))
    if accepted and not legit:
        why = "forged" if not m["authentic"] else ("inner-counter-mismatch" if not m.get("inner_ok") else "stale")
        out.append((f"notification-accepted-though-{why}:{sym}", dict(det, log=new, state=after)))
    if accepted and legit and undeliverable:
        # authentic and fresh but no characteristic / no decodable value: nothing may reach listeners; the state number may advance
        if new:
            out.append(("undeliverable-notification-reached-listeners", dict(det, log=new)))
        if after[0] == m["gsn"]:
            rig.model_last = m["gsn"]
    elif accepted and legit and not rig.listening:
        # nobody to deliver to: the state number advances all the same
        if after[0] != m["gsn"]:
            out.append(("accepted-notification-did-not-advance-state-number", dict(det, state_num=after[0], gsn=m["gsn"], listener_registered=False)))
        rig.model_last = m["gsn"]
    elif accepted and legit:
        iid, v8 = m["iid"], m["value8"]
        fmt = rig.chars.get(iid)
        if len(new) != 1 or list(new[0].keys()) != [(1, iid)]:
            out.append(("accepted-notification-delivered-under-wrong-key-or-not-once", dict(det, log=new)))
        elif fmt in FMT:
            want = struct.unpack_from("<" + FMT[fmt], v8)[0]
            got = new[0][(1, iid)].get("value")
            if got != want and not (fmt == "float" and isinstance(got, float) and (got != got) and (want != want)):
                out.append((f"accepted-notification-value-wrong:{fmt}", dict(det, got=got, want=want)))
        if after[0] != m["gsn"]:
            out.append(("accepted-notification-did-not-advance-state-number", dict(det, state_num=after[0], gsn=m["gsn"])))
        rig.model_last = m["gsn"]
    if not accepted and sym == "+1":
        out.append(("genuine-next-notification-rejected", det))  # vacuity guard on the positive path
    elif not accepted and legit and not undeliverable and m["gsn"] - last <= 99 and m["gsn"] <= 0xFFFF:
        # ... and the rest of the positive path: authentic, inner counter right, 1..99 ahead of the last accepted one (the window the
        # quantifier names, 'last+k (k<100)'), for a characteristic the database knows
        out.append((f"genuine-notification-inside-the-window-rejected:{sym}", dict(det, gsn=m["gsn"], ahead_by=m["gsn"] - last)))
    return out, True


def case_history(p):
    rig = Rig(p["base"])
    try:
        for sym, arg in p["history"]:
            v, _ = step(rig, sym, tuple(arg) if isinstance(arg, list) else arg)
            if v:
                return v
        return []
    finally:
        rig.close()


CASES = {"history": case_history}
from vt.props import c18_conn  # noqa: E402

CASES.update(c18_conn.CASES)


def _conn(item, seed, tier):
    from vt import explore

    acc = core.Acc()
    p, root, depth = item
    explore.explore(lambda: c18_conn.ConnH(p), acc, depth=depth, case="conn", params=p, root=root, prune=True, finish=True)
    return acc


def disc_state(rig):
    """what the controller's discovery for this accessory holds (the pairing may share that object or hold its own): part of the canonical state"""
    d = rig.controller.discoveries.get(DEV_ID)
    if d is None:
        return None
    from vt import canon as _c

    return (getattr(d.description, "state_num", None), d.description is rig.pairing.description, _c.canon(rig.pairing, depth=1, skip=("controller", "_accessories_state", "pairing_data", "_pairing_data", "listeners", "availability_listeners", "config_changed_listeners", "device", "client", "description", "ble_advertisement", "_last_seen")))


def pairing_state(rig):
    """every scalar the pairing object holds (a memo of the last refused payload, a failure counter, ...): histories that differ here may have different futures"""
    from vt import canon as _c

    return _c.canon(rig.pairing, depth=1, skip=("controller", "_accessories_state", "pairing_data", "_pairing_data", "listeners", "availability_listeners", "config_changed_listeners", "device", "client", "description", "ble_advertisement", "_last_seen"))


def durable(rig):
    """what a new process would start from (the cached copy of the pairing's state): two histories that differ only here have different futures after a restart"""
    st = getattr(rig.pairing, "_accessories_state", None)
    return (getattr(st, "state_num", None), getattr(st, "config_num", None), getattr(st, "broadcast_key", None))


def seen_iids(rig):
    """iids for which a broadcast was accepted so far (what a per-iid memo inside the pairing could hold): part of the canonical state"""
    return {k[1] for ev in rig.log for k in ev}


def _bfs(item, seed, tier):
    """BFS over histories from one base state; prune on canonical state (state_num, log length parity is irrelevant: state_num only)."""
    acc = core.Acc()
    base, depth, syms = item[:3]
    first = item[3] if len(item) > 3 else None  # (the search split by first symbol, for parallelism: pruning is then per part)
    seen = {}
    frontier = [()]
    for d in range(depth):
        nxt = []
        for hist in frontier:
            for sym in syms if d or first is None else [first]:
                rig = Rig(base)
                try:
                    ok = True
                    for s, a in hist:
                        step(rig, s, a)
                    v, applied = step(rig, sym)
                    if not applied:
                        continue
                    acc.transitions += 1
                    acc.symbols[sym] += 1
                    h2 = hist + ((sym, None),)
                    for sig, detail in v:
                        acc.violation(sig, "history", {"base": base, "history": [list(x) for x in h2]}, detail)
                    acc.case(key=("h", base, h2), outcome="violation" if v else f"last={'moved' if rig.model_last != base else 'same'}", sample={"base": base, "history": [s for s, _ in h2]})
                    acc.traces += 1
                    key = (rig.state()[0], rig.model_last, rig.state_b()[0], rig.model_last_b, len(rig.neighbour_payloads) > 0, rig.chars == CHARS, tuple(sorted(seen_iids(rig))), rig.has_discovery, id(rig.pairing) != rig.first_pairing_id, disc_state(rig), rig.floor, getattr(rig, "n_restarts", 0), durable(rig), pairing_state(rig), getattr(rig, "recorded", (None,))[0], rig.listening)
                    if v or key in seen:
                        continue
                    seen[key] = h2
                    acc.state_keys.add(core.h64(("c18", base, key)))
                    nxt.append(h2)
                finally:
                    rig.close()
        frontier = nxt
    return acc


def _flips(item, seed, tier):
    acc = core.Acc()
    base, kind, args = item
    for a in args:
        rig = Rig(base)
        try:
            v, _ = step(rig, kind, a)
            acc.transitions += 1
            acc.symbols[kind] += 1
            acc.traces += 1
            acc.case(key=(kind, base, a), outcome="violation" if v else "ignored", sample={"base": base, "sym": kind, "arg": a})
            for sig, detail in v:
                acc.violation(sig, "history", {"base": base, "history": [[kind, a]]}, detail)
        finally:
            rig.close()
    return acc


def run(ctx):
    quick = ctx.tier == "quick"
    bases = [1, 300, 65000, 65437, 65500, 65535] if quick else [1, 2, 7, 99, 300, 40000, 65436, 65437, 65438, 65500, 65534, 65535]
    depth = 2 if quick else 5
    work = [(b, depth, SYMS) for b in bases]
    # deeper on the symbols that carry state across steps (database replacement, the neighbour pairing, per-characteristic history)
    CARRY = ["+1", "+1:iid12", "+1:iid15", "db-swap", "neighbour:+1", "cross:from-neighbour", "same", "old:1", "unknown-iid", "regular-adv", "reload-pairing", "restart", "-1", "pair:+2|+2", "pair:+3|+2", "pair:+1|+1", "pair:+2|+3"]
    work += [(b, 4 if quick else 6, CARRY) for b in ([300] if quick else [1, 300, 65500])]
    # broadcasts the pairing has to refuse now and may have to accept later (far ahead, then the window moves over them); long runs of forgeries
    FAR = ["far:+120", "far:+150", "replay-rec", "+1", "+50", "+99", "same", "regular-adv", "wrong-key", "restart"]
    work += [(b, 4, FAR, f) for b in ([300] if quick else [300, 65300]) for f in FAR if f != "replay-rec"]
    LI = ["listener:off", "listener:on", "+1", "+2", "same", "-1", "old:1", "regular-adv", "wrong-key"]
    work += [(b, 4 if quick else 5, LI, f) for b in ([300] if quick else [300, 65500]) for f in ("listener:off", "+1")]
    FL = ["flood:wrong-key", "+1", "far:+120", "replay-rec"] if quick else ["flood:wrong-key", "flood:bitflips", "+1", "far:+120", "replay-rec"]
    work += [(b, 2, FL, f) for b in [300] for f in FL if f != "replay-rec"]
    ctx.pmap(_bfs, work)
    # broadcasts while the pairing holds a GATT session (the once-per-session bump of the state number, the roll-over and its key request in flight)
    from vt import explore as _ex

    cw = []
    for cp, d in ((dict(base=65534), 6 if quick else 8), (dict(base=300, alphabet=["sub", "timer", "notify", "bcast:old", "drop", "use"]), 5 if quick else 7),
                  (dict(base=300, alphabet=c18_conn.ALPH_POLL), 8 if quick else 9),
                  # subscribed characteristics the accessory reports by broadcast: a repeated copy of an accepted broadcast, nothing else going on
                  (dict(base=300, ev_flags=(9, 10), alphabet=["sub", "timer", "drop", "bcast:+1", "bcast:same", "regular-adv", "use"]), 6 if quick else 7)):
        cp = dict(cp, seed=ctx.seed)
        cw += [(cp, r, d) for r in _ex.roots(lambda: c18_conn.ConnH(cp), 2)]
    ctx.pmap(_conn, cw)
    ctx.bounds.update(connected_leg=dict(alphabet=c18_conn.ALPH, bases=[65534, 300], depth=6 if quick else 8))
    flips = []
    for b in bases:
        bits = list(range(16 * 8))
        for i in range(0, len(bits), 8):
            flips.append((b, "bitflip", bits[i : i + 8]))
        flips.append((b, "idflip", list(range(48))[:: 4 if quick else 1]))
        flips.append((b, "trunc", list(range(16))))
    vals = []
    for iid, f in CHARS.items():
        for v8 in (bytes(8), b"\x01" + bytes(7), b"\xff" * 8, struct.pack("<Q", 0x0102030405060708), struct.pack("<f", 21.5) + bytes(4)):
            vals.append((iid, v8))
    flips.append((bases[0], "value", vals))
    ctx.pmap(_flips, flips)
    ctx.exhaustive = True
    ctx.bounds.update(bases=bases, depth=depth, symbols=SYMS, bit_flips="all 128 payload+tag bits" , id_bits=48)
    for s in SYMS + ["bitflip", "trunc", "value"]:
        ctx.require(ctx.acc.symbols[s] > 0, f"symbol {s} never applied")

"""C12 subscriptions survive reconnects, every event reaches every listener once: E1 depth-bounded exploration of
subscribe/unsubscribe/drop/listener/event histories against a real IpPairing on the virtual loop."""
from __future__ import annotations

import json

from vt import canon as _canon
from vt import core, explore
from vt.env.iprig import IpRig, std_handler
from vt.ref import ipacc

META = dict(
    level="model_checking",
    engine="E1",
    technique="stateless exhaustive depth-bounded exploration (DFS over all histories, canonical-state pruning) of subscribe/unsubscribe calls, peer drops (also inside a subscription request), listener changes and event bursts against the real IpPairing on a virtual-time event loop",
    text="all histories up to depth D over {subscribe/unsubscribe of overlapping sets over aids 1,2; peer drop; arm 'cut the next subscription request'; add/remove listener; "
    "raising listener; events: single, two per read, split across reads, empty body, non-JSON body; (thorough) a listener that unregisters itself}; oracle: after every "
    "successful secure (re)connection the accessory's per-session ev registrations include pairing.subscriptions unless a subscription request was cut off, every listener "
    "saw the {} 'back' callback, every event reaches every then-registered listener exactly once in order keyed (aid,iid), a raising listener neither starves others nor "
    "closes the transport Also: accessories that refuse one characteristic of a request (207 with a row per characteristic), every block boundary inside an EVENT x HTTP style x {one read, two reads} followed by a second event, and configurations under byte-wise reads / reads ending inside a block / chunked lower-case HTTP. CoAP subscriptions: all histories up to length 4 (5) over {subscribe / unsubscribe of overlapping sets, mDNS endpoint change, use, accessory restart, event}: the accessory's current session has a registration for everything subscribed whenever the pairing is connected. BLE leg (c12_ble.py): all histories up to depth D over {subscribe calls with overlapping sets, the start-notify timer, "
    "a change announced by an empty GATT notification, a burst over all enabled characteristics, a storm on one, link drop, reconnect by the next use, one CCCD write that fails while the link stays up, a raising listener} "
    "against a real BlePairing and the reference GATT accessory: every subscription has notifications enabled on the live connection once quiescent, every announced change ends up delivered, deliveries follow the accessory's value history. Also: subscription sets of 40 / 45 characteristics (requests and re-subscriptions beyond one 1024-byte block); events that reach a disconnected BLE pairing as encrypted broadcasts, with repeated copies of an accepted broadcast (the connected-session harness of C18 with characteristics that report by broadcast): the event is delivered once. Also the application closing the pairing's connection and using it again.",
    note="bounded depth D; the accessory model registers ev per session as HAP specifies and never pushes events on its own",
    design_ref="DESIGN.md §4 C12",
    rule="state = canonical (subscriptions, accessory registrations, listeners, logs, flags); transition = one history symbol; execution = maximal path",
)

SETS = {"A": [(1, 9), (1, 10)], "B": [(1, 10), (2, 9)], "C": [(2, 10), (1, 9), (2, 9), (1, 10)]}  # C: accessory ids interleaved, as a caller (or a set) may pass them
# Z / Y: a bridge's worth of characteristics - the requests that carry them (and the re-subscription after a reconnect) do not fit one 1024-byte block
SETS["Z"] = [(1, 100 + i) for i in range(45)]
SETS["Y"] = [(2 + i // 20, 100 + i) for i in range(40)]
ALPH_BIG = ["sub:Z", "sub:Y", "sub:A", "unsub:A", "unsub:Z", "drop", "ev1"]
ALPH_SUBS = ["sub:A", "sub:B", "sub:C", "unsub:A", "unsub:B", "drop", "arm-cut", "ev1", "L2+"]
ALPH_OFFLINE = ["sub:A", "sub:C", "unsub:A", "offline", "online", "drop", "ev1"]
ALPH_EVENTS = ["L2+", "L2-", "R+", "ev1", "ev2", "ev-split", "ev-split-stall", "ev-empty", "ev-nonjson", "drop", "sub:A"]
ALPH_SELF = ["S+", "A+", "L2+", "ev1", "ev2", "R+", "drop"]


class H(explore.Harness):
    def __init__(self, p):
        self.p = p
        self.alphabet = p["alphabet"]
        self.rig = IpRig(seed=p.get("seed", 0), auto=True, env=p.get("env"))
        self.loop, self.net, self.pairing = self.rig.loop, self.rig.net, self.rig.pairing
        self.viol = []
        self.cut_armed = False
        self.cutoff_happened = False
        self.nev = 0
        self.optional = {}  # listener name -> deliveries it may or may not see (the event that was being dispatched when it was registered)
        self.logs = {}  # listener name -> list of received events
        self.expected = {}  # listener name -> list of expected (key, value) in order
        self.back_expected = {}
        self.unreg = {}
        self.drops = 0
        self.closes = 0
        self.model_subs = set()  # what the caller subscribed to (the property's subject), independent of the library's bookkeeping
        self.offline = False
        self.depth_used = 0
        self.rig.acc.handler = self._handler
        self._add_listener("L1")
        # a neighbour: another pairing of the same kind in the same process (another accessory, never connected), with a listener of its own.
        # Whatever happens to THIS pairing is none of its business.
        from aiohomekit.controller.ip.pairing import IpPairing

        nd = dict(self.pairing.pairing_data, AccessoryPairingID="11:22:33:44:55:66", AccessoryIP="10.9.9.9", AccessoryIPs=["10.9.9.9"])
        self.neighbour = IpPairing(self.rig.controller, nd)
        self.nlog = []
        self.neighbour.dispatcher_connect(lambda ev: self.nlog.append(dict(ev)))
        self.secure_connections = 0
        try:
            self.rig.connect()
        except Exception as e:  # noqa: BLE001
            # an honest accessory (whatever legal spelling / block sizes this configuration gives it) that the controller cannot even connect to
            self.viol.append((f"initial-connection-to-an-honest-accessory-fails:{type(e).__name__}", {"env": p.get("env"), "err": str(e)[:160]}))
        self.loop.run_until_idle()
        self._post()

    # ---- accessory
    def _handler(self, sess, method, target, headers, body):
        if method == "PUT" and target == "/characteristics":
            if self.cut_armed:
                self.cut_armed = False
                # the property excuses the fall-back to polling only after a SUBSCRIPTION request was cut off; a cut-off request that only
                # turns events off is no such request: what is still subscribed has to be asked for again after the reconnect
                if any(c.get("ev") for c in json.loads(body).get("characteristics", [])):
                    self.cutoff_happened = True
                else:
                    self.unsub_cut = True
                conn = next(c for c in self.net.conns if getattr(c, "session", None) is sess)
                self.loop.call_soon(conn.peer_close)
                return None
            if not hasattr(sess, "ev"):
                sess.ev = set()
            refused = {tuple(x) for x in self.p.get("refuse", ())}
            rows = []
            for c in json.loads(body)["characteristics"]:
                key = (c["aid"], c["iid"])
                if "ev" in c and key in refused and c["ev"]:
                    rows.append({"aid": c["aid"], "iid": c["iid"], "status": -70406})  # notification not supported for this characteristic
                    continue
                if "ev" in c:
                    (sess.ev.add if c["ev"] else sess.ev.discard)(key)
                rows.append({"aid": c["aid"], "iid": c["iid"], "status": 0})
            if any(r["status"] for r in rows):
                # HAP 6.7.2.2: if any write fails the reply is 207 Multi-Status with a row for EVERY characteristic of the request
                return 207, json.dumps({"characteristics": rows}).encode(), "application/hap+json"
            return 204, b"", None
        return std_handler()(sess, method, target, headers, body)

    def _cur(self):
        tr = self.pairing.connection.transport
        for c in self.net.conns:
            if tr is not None and c.transport is tr:
                return c
        return None

    # ---- listeners
    def _add_listener(self, name):
        log = self.logs.setdefault(name, [])
        self.expected.setdefault(name, [])

        if name.startswith("R"):
            def raiser(ev, log=log):
                log.append(dict(ev))
                raise RuntimeError("listener failure")

            kind = self.p.get("raiser", "function")
            if kind == "partial":  # listeners need not be plain functions: functools.partial, callable objects, mocks
                import functools

                cb = functools.partial(raiser)
            elif kind == "object":
                class _Callable:
                    def __call__(self_, ev):
                        raiser(ev)

                cb = _Callable()
            else:
                cb = raiser
        elif name.startswith("A"):
            def cb(ev, log=log, name=name):
                # a listener that, on its first event, registers ANOTHER listener (an integration that sets an entity up when it first hears of it)
                log.append(dict(ev))
                if ev and "N" not in self.unreg and "N" not in self.logs:
                    self.optional["N"] = [(k, v.get("value")) for k, v in ev.items()]
                    self._add_listener("N")
                    # what was sent in the same read BEHIND the event being dispatched is owed to the new listener like any later event
                    se = getattr(self, "step_events", [])
                    if self.optional["N"] and self.optional["N"][0] in se:
                        self.expected["N"] = list(se[se.index(self.optional["N"][0]) + 1:])
        elif name.startswith("S"):
            def cb(ev, log=log, name=name):
                log.append(dict(ev))
                if ev:
                    self.unreg.pop(name)()
        else:
            def cb(ev, log=log):
                log.append(dict(ev))
        self.unreg[name] = self.pairing.dispatcher_connect(cb)

    def menu(self):
        m = []
        for a in self.alphabet:
            if a == "L2+" and "L2" in self.unreg:
                continue
            if a == "L2-" and "L2" not in self.unreg:
                continue
            if a == "R+" and "R" in self.unreg:
                continue
            if a == "S+" and ("S" in self.unreg or "S" in self.logs):
                continue
            if a == "A+" and ("A" in self.unreg or "A" in self.logs):
                continue
            if a == "drop" and (self.drops >= self.p.get("max_drops", 2) or self._cur() is None):
                continue
            if a == "offline" and (self.offline or self.drops >= self.p.get("max_drops", 2)):
                continue
            if a == "online" and not self.offline:
                continue
            if a == "arm-cut" and (self.cut_armed or self.cutoff_happened or getattr(self, "unsub_cut", False)):
                continue
            if a.startswith("ev") and self._cur() is None:
                continue
            if a == "close" and (self.closes >= 2 or self._cur() is None):
                continue
            m.append(a)
        return m

    def take(self, i):
        label = self.menu()[i]
        self.depth_used += 1
        k, _, arg = label.partition(":")
        cur = self._cur()
        if k == "sub":
            self.model_subs |= set(SETS[arg])
            self._run(self.pairing.subscribe(list(SETS[arg])))
        elif k == "unsub":
            self.model_subs -= set(SETS[arg])
            self._run(self.pairing.unsubscribe(list(SETS[arg])))
        elif k == "offline":
            # the accessory goes away: new connections are refused and the current one drops
            self.offline = True
            self.drops += 1
            self.net.auto = lambda att: ("refuse",)
            if cur is not None:
                cur.peer_close()
        elif k == "online":
            self.offline = False
            self.net.auto = lambda att: ("ok", att["hosts"][0])
            self.loop.run_until_idle()
            for _ in range(60):  # let the back-off timers run until the connector gets through
                if self.pairing.is_connected or not self.loop.fire_next_timer():
                    break
                self.loop.run_until_idle()
        elif k == "close":
            # the application closes the pairing's connection (not the pairing): whatever it subscribed to stays its subscription, and the
            # next use - or a nudge from discovery - brings the connection back with all of it
            self.closes += 1
            self._run(self.pairing.close())
        elif k == "use":
            self._run(self.pairing.get_characteristics([(1, 9)]))
            for _ in range(40):
                if self.pairing.is_connected or not self.loop.fire_next_timer():
                    break
                self.loop.run_until_idle()
        elif k == "drop":
            self.drops += 1
            cur.peer_close()
        elif k == "arm-cut":
            self.cut_armed = True
        elif k == "L2+":
            self._add_listener("L2")
        elif k == "L2-":
            self.unreg.pop("L2")()
        elif k == "R+":
            self._add_listener("R")
        elif k == "S+":
            self._add_listener("S")
        elif k == "A+":
            self._add_listener("A")
        elif k in ("ev1", "ev2", "ev-split", "ev-split-stall"):
            msgs = b""
            self.step_events = []
            for _ in range(2 if k == "ev2" else 1):
                self.nev += 1
                self.step_events.append(((1, 9), self.nev))
                msgs += ipacc.event_message(ipacc.jbody({"characteristics": [{"aid": 1, "iid": 9, "value": self.nev}]}))
                for name in list(self.unreg):
                    self.expected[name].append(((1, 9), self.nev))
                    if name.startswith("S"):
                        pass
            wire = cur.session.respond(msgs, sizes=[40] if k.startswith("ev-split") else None)
            if k.startswith("ev-split"):
                h = len(wire) // 2 + 3
                cur.send(wire[:h])
                self.loop.run_until_idle()
                if k == "ev-split-stall":
                    self.loop.advance(45.0)  # the stream stalls for longer than any timer of the library before the rest arrives
                cur.send(wire[h:])
            else:
                cur.send(wire)
        elif k == "ev-empty":
            cur.send(cur.session.respond(ipacc.event_message(b"")))
        elif k == "ev-nonjson":
            cur.send(cur.session.respond(ipacc.event_message(b"<html>not json</html>")))
        self.loop.run_until_idle()
        # a self-unregistering listener stops being expected after its first event
        for name in list(self.expected):
            if name.startswith("S") and name not in self.unreg:
                seen = [e for e in self.expected[name]]
                self.expected[name] = seen[:1]
        self._post()

    def _run(self, coro):
        t = self.loop.create_task(coro)
        self.loop.run_until_idle()
        guard = 0
        while not t.done() and guard < 50:
            if not self.loop.fire_next_timer():
                break
            self.loop.run_until_idle()
            guard += 1
        if not t.done():
            self.viol.append(("caller-hangs", {}))
            t.cancel()
        elif not t.cancelled() and t.exception() is not None:
            from aiohomekit.exceptions import AccessoryDisconnectedError

            if not isinstance(t.exception(), AccessoryDisconnectedError):  # a cut-off request may fail with a disconnection error
                self.viol.append((f"subscribe-call-raises:{type(t.exception()).__name__}", {"err": str(t.exception())[:200]}))

    # ---- oracle, evaluated at quiescent states
    def _post(self):
        if self.nlog or self.neighbour.subscriptions:
            self.viol.append(("neighbour-pairing-disturbed", {"delivered_to_its_listener": self.nlog[:2], "its_subscriptions": sorted(self.neighbour.subscriptions)}))
            self.nlog.clear()
        n_secure = sum(1 for c in self.net.conns if getattr(c, "session", None) is not None and c.session.verified)
        if n_secure > self.secure_connections:
            new = n_secure - self.secure_connections
            self.secure_connections = n_secure
            for name in self.unreg:
                self.back_expected[name] = self.back_expected.get(name, 0) + new
        cur = self._cur()
        if self.pairing.is_connected and cur is not None:
            reg = getattr(cur.session, "ev", set())
            missing = (set(self.pairing.subscriptions) | self.model_subs) - reg - {tuple(x) for x in self.p.get("refuse", ())}
            if missing and not self.cutoff_happened:
                self.viol.append(("subscriptions-not-restored-on-live-session", {"missing": sorted(missing), "caller_subscribed": sorted(self.model_subs), "library_subscriptions": sorted(self.pairing.subscriptions), "registered": sorted(reg)}))
            extra = reg - set(self.pairing.subscriptions) - self.model_subs
            if extra and not self.cutoff_happened:
                self.viol.append(("unsubscribed-characteristic-still-registered", {"extra": sorted(extra)}))
        for name, log in self.logs.items():
            got = [(k, v.get("value")) for ev in log for k, v in ev.items()]
            exp = self.expected[name]
            opt = self.optional.get(name)
            if opt and got[: len(opt)] == opt and exp[: len(opt)] != opt:
                got = got[len(opt):]
            if got != exp[: len(got)] or (len(got) != len(exp)):
                dup = len(got) != len(set(got))
                sig = "event-delivered-twice" if dup else ("event-lost-for-listener" if len(got) < len(exp) else "event-order-or-key-wrong")
                self.viol.append((f"{sig}:{name[0]}", {"listener": name, "got": got[-4:], "expected": exp[-4:], "raising_registered": "R" in self.unreg}))
            backs = sum(1 for ev in log if ev == {})
            if name in self.unreg and backs != self.back_expected.get(name, 0):
                self.viol.append((f"connection-back-callback-count-wrong:{name[0]}", {"listener": name, "got": backs, "expected": self.back_expected.get(name, 0)}))
        if cur is not None and cur.transport.is_closing() and cur.peer_open and not self.cutoff_happened:
            self.viol.append(("transport-closed-by-controller", {"raising_registered": "R" in self.unreg}))

    def violations(self):
        v, self.viol = self.viol, []
        return v

    def canon(self):
        cur = self._cur()
        return (
            getattr(self, "unsub_cut", False), tuple(sorted(self.pairing.subscriptions)), tuple(sorted(self.model_subs)), self.offline, tuple(sorted(getattr(cur.session, "ev", set()))) if cur else None, tuple(sorted(self.unreg)), self.cut_armed, self.cutoff_happened,
            self.pairing.supports_subscribe, bool(self.pairing.is_connected), self.drops, self.closes, tuple(sorted((k, len(v)) for k, v in self.logs.items())), "S" in self.logs,
            _canon.canon(self.pairing, depth=3, skip=("controller", "_accessories_state", "pairing_data", "_pairing_data", "listeners", "availability_listeners", "config_changed_listeners",
                                                     "owner", "_loop", "_connect_lock", "_connector", "description", "c2a_key", "a2c_key", "encryptor", "decryptor", "c2a_counter", "a2c_counter")),
            tuple(sorted(round(h._when - self.loop.time(), 6) for h in self.loop._scheduled if not h._cancelled)), _canon.tasks_sig(self.loop),
        )

    def finish(self):
        return []

    def outcome(self):
        return f"subs={len(self.pairing.subscriptions)},conns={self.secure_connections},cut={self.cutoff_happened},events={self.nev},listeners={len(self.unreg)}"

    def close(self):
        try:
            self.rig.close()
        except Exception:  # noqa: BLE001
            pass


def case_explore(p):
    h, trace = explore.run_prefix(lambda: H(p), tuple(p.get("choices", ())))
    try:
        return [(s, dict(detail=d, trace=trace)) for s, d in h.violations()]
    finally:
        h.close()


def case_event_splits(p):
    """Every position at which the accessory may end an encrypted block inside an EVENT (= the read boundary its HTTP layer sees), for one
    HTTP style of the event (Content-Length, chunked, ...), followed by a second event: each must reach the listener exactly once, in order,
    and the connection must stay up."""
    out = []
    style = p.get("style")
    ev = lambda n: ipacc.event_message(ipacc.jbody({"characteristics": [{"aid": 1, "iid": 9, "value": n}]}))  # noqa: E731
    plain1 = ipacc.restyle(ev(1), style) if style else ev(1)
    nrun = 0
    # the accessory's session layer as a byte stream: blocks cut without regard to message boundaries, so the tail of one event shares its block
    # with the events queued right behind it
    plain_all = plain1 + (ipacc.restyle(ev(2), style) if style else ev(2)) + (ipacc.restyle(ev(3), style) if style else ev(3))
    for sizes in [[k, 1024] for k in range(1, len(plain1) + 1, 1 if not p.get("coarse") else 3)] + [[k] for k in (1, 2, 3, 5, 16, 31, 64, 100)]:
        h = H(dict(alphabet=[], seed=p.get("seed", 0)))
        try:
            cur = h._cur()
            for f in cur.session.framer.seal_frames(plain_all, sizes):
                if h._cur() is None:
                    break
                h._cur().send(f)
                h.loop.run_until_idle()
            got = [(key, v.get("value")) for e in h.logs["L1"] for key, v in e.items()]
            nrun += 1
            if got != [((1, 9), 1), ((1, 9), 2), ((1, 9), 3)] or not h.pairing.is_connected or h.secure_connections != 1:
                out.append(("event-lost-or-connection-dropped-when-blocks-straddle-messages", {"style": style, "block_sizes": sizes, "got": got, "connected": bool(h.pairing.is_connected)}))
                break
        finally:
            h.close()
    for k in range(1, len(plain1)) if not out else ():
        for mode in ("one-read", "two-reads"):
            h = H(dict(alphabet=[], seed=p.get("seed", 0)))
            try:
                cur = h._cur()
                frames = cur.session.framer.seal_frames(plain1, [k, 1024])
                if mode == "one-read":
                    cur.send(b"".join(frames))
                else:
                    cur.send(frames[0])
                    h.loop.run_until_idle()
                    cur.send(b"".join(frames[1:]))
                h.loop.run_until_idle()
                plain2 = ipacc.restyle(ev(2), style) if style else ev(2)
                if h._cur() is not None:
                    h._cur().send(h._cur().session.respond(plain2))
                h.loop.run_until_idle()
                got = [(key, v.get("value")) for e in h.logs["L1"] for key, v in e.items()]
                nrun += 1
                if got != [((1, 9), 1), ((1, 9), 2)] or not h.pairing.is_connected or h.secure_connections != 1:
                    out.append(("event-lost-or-connection-dropped-at-some-block-boundary", {"style": style, "first_block_bytes": k, "mode": mode, "got": got, "connected": bool(h.pairing.is_connected), "event_wire": plain1.decode("latin-1")}))
                    break
            finally:
                h.close()
        if out:
            break
    p["_n"] = nrun
    return out


COAP_SUBS = ["sub:A", "sub:B", "sub:C", "unsub:A", "endpoint-change", "use", "accessory-restarts", "event"]
COAP_SETS = {"A": [(1, 9), (1, 10)], "B": [(1, 10), (2, 13)], "C": [(1, 10)]}


def case_coap_subs(p):
    """The subscription half of the property on CoAP: histories over {subscribe / unsubscribe of overlapping sets, an endpoint change announced
    by mDNS (the session is given up), a use (which reconnects), an accessory that restarted (its session and registrations are gone), an
    event}.  Whenever the pairing is connected and quiescent, the accessory's CURRENT session has a registration for everything subscribed."""
    from vt.env.coaprig import CoapRig
    from vt.env.reconn import mk_description
    from vt.ref import coapacc

    rig = CoapRig(seed=p.get("seed", 0))
    out = []
    try:
        got = []
        rig.pairing.dispatcher_connect(lambda ev: got.append(dict(ev)))
        rig.pairing.description = mk_description(["fd00::5"], port=5683)
        rig.run(rig.pairing.list_accessories_and_characteristics())
        model = set()
        addr = "fd00::5"
        n = 0
        for k, sym in enumerate(p["history"]):
            kind, _, arg = sym.partition(":")
            det = {"history": p["history"][: k + 1]}
            try:
                if kind == "sub":
                    model |= set(COAP_SETS[arg])
                    rig.run(rig.pairing.subscribe(list(COAP_SETS[arg])))
                elif kind == "unsub":
                    model -= set(COAP_SETS[arg])
                    rig.run(rig.pairing.unsubscribe(list(COAP_SETS[arg])))
                elif kind == "endpoint-change":
                    addr = "fd00::6" if addr == "fd00::5" else "fd00::5"
                    rig.pairing._async_description_update(mk_description([addr], port=5683))
                    rig.loop.run_until_idle()
                elif kind == "use":
                    rig.run(rig.pairing.get_characteristics([(1, 9)]))
                elif kind == "accessory-restarts":
                    rig.acc.session = None
                elif kind == "event":
                    if rig.acc.session is not None and 10 in rig.acc.session.get("subs", ()) and rig.pairing.is_connected:
                        n += 1
                        before = len(got)
                        rig.deliver_event([(10, coapacc.pack_value(rig.acc.chars[10].format, n))])
                        if [ev for ev in got[before:] if (1, 10) in ev] != [{(1, 10): {"value": n}}]:
                            out.append(("coap-subs:event-for-a-subscribed-characteristic-not-delivered-exactly-once", dict(det, got=[{str(a): b for a, b in ev.items()} for ev in got[before:]])))
            except Exception as e:  # noqa: BLE001
                from aiohomekit.exceptions import HomeKitException

                if not isinstance(e, HomeKitException):
                    out.append((f"coap-subs:raises:{type(e).__name__}:{kind}", dict(det, err=str(e)[:160])))
                elif kind in ("sub", "unsub"):
                    break  # a (un)subscription request that failed on the way: the property excuses what follows
            rig.loop.run_until_idle()
            if rig.pairing.is_connected and rig.acc.session is not None:
                have = set(rig.acc.session.get("subs", ()))
                missing = sorted(i for _, i in model if i not in have)
                if missing:
                    out.append(("coap-subs:subscribed-characteristic-not-registered-in-the-current-session", dict(det, missing=missing, registered=sorted(have), subscribed=sorted(model))))
            if sorted(rig.pairing.subscriptions) != sorted(model):
                out.append(("coap-subs:pairing-subscriptions-differ-from-what-the-caller-asked-for", dict(det, pairing=sorted(rig.pairing.subscriptions), asked=sorted(model))))
            if out:
                break
    finally:
        rig.close()
    return out


COAP_EV = ["ev", "ev2", "ev-same-twice", "ev-novalue", "ev+novalue", "replay", "junk", "raiser"]  # -novalue: an entry that is only its header (the accessory reports a change without a value)


def case_coap_events(p):
    """The event half of the property on CoAP: a history over {genuine event, genuine event with two records, a duplicate of an earlier
    datagram, junk sent to the event resource, (once) a raising listener registered}: every genuine event reaches every listener exactly
    once, in order, keyed (aid, iid); duplicates and junk deliver nothing and do not disturb what follows."""
    from vt.env.coaprig import CoapRig
    from vt.ref import coapacc

    rig = CoapRig(seed=p.get("seed", 0))
    out = []
    try:
        rig.run(rig.pairing.list_accessories_and_characteristics())
        log = []
        rig.pairing.dispatcher_connect(lambda ev: log.append(dict(ev)))
        res = rig.contexts[-1].root._resources[()]
        sent, expect, n = [], [], 0

        class R:
            def __init__(self, payload):
                self.payload = payload

        for sym in p["history"]:
            if sym == "raiser":
                def bad(ev):
                    raise RuntimeError("listener failure")

                rig.pairing.dispatcher_connect(bad)
                continue
            if sym in ("ev-novalue", "ev+novalue"):
                items = []
                if sym == "ev+novalue":
                    n += 1
                    items.append((9, coapacc.pack_value(rig.acc.chars[9].format, True)))
                    expect.append(((1, 9), n))
                n += 1
                items.append((10, None))
                expect.append(((1, 10), n))
                payload = rig.acc.event(items)
                sent.append(payload)
            elif sym == "ev-same-twice":
                # one event PDU with two records for the SAME characteristic (motion detected, then cleared): two events, in that order
                items = []
                for _ in range(2):
                    n += 1
                    items.append((10, coapacc.pack_value(rig.acc.chars[10].format, n)))
                    expect.append(((1, 10), n))
                payload = rig.acc.event(items)
                sent.append(payload)
            elif sym in ("ev", "ev2"):
                items = []
                for _ in range(2 if sym == "ev2" else 1):
                    n += 1
                    iid = 9 if n % 2 else 10
                    items.append((iid, coapacc.pack_value(rig.acc.chars[iid].format, (n // 2) % 2 == 0 if iid == 9 else n)))
                    expect.append(((1, items[-1][0]), n))
                payload = rig.acc.event(items)
                sent.append(payload)
            elif sym == "replay":
                if not sent:
                    continue
                payload = sent[0]
            else:
                payload = b"\x00" * 24
            try:
                rig.run(res.render_put(R(payload)))
            except Exception as e:  # noqa: BLE001
                out.append((f"coap:event-resource-raises:{type(e).__name__}:{sym}", {"history": p["history"], "err": str(e)[:160]}))
                break
        got = [k for ev in log for k in ev]
        vals10 = [v.get("value") for ev in log for k, v in ev.items() if k == (1, 10) and isinstance(v.get("value"), int)]
        if not out and vals10 != sorted(vals10):
            out.append(("coap:events-of-one-characteristic-out-of-order", {"history": p["history"], "values": vals10}))
        if not out and got != [k for k, _ in expect]:
            dup = len(got) > len(expect)
            out.append((("coap:event-delivered-twice" if dup else "coap:event-lost-for-listener"), {"history": p["history"], "delivered": got, "sent": [k for k, _ in expect]}))
    finally:
        rig.close()
    return out


def case_ble_subs(p):
    from vt.props.c12_ble import BleSubH

    h, trace = explore.run_prefix(lambda: BleSubH(p), p["choices"])
    try:
        v = h.violations()
        if not v:
            v = h.finish()
        return [(s_, dict(detail=d, trace=trace)) for s_, d in v]
    finally:
        h.close()


def case_conn(p):
    from vt.props import c18_conn

    return [(s_, d) for s_, d in c18_conn.case_conn(p) if "repeated-broadcast" in s_]


CASES = {"conn": case_conn, "coap_subs": case_coap_subs, "ble_subs": case_ble_subs, "explore": case_explore, "event_splits": case_event_splits, "coap_events": case_coap_events}


def _work_coap(item, seed, tier):
    acc = core.Acc()
    for hist in item:
        p = {"history": list(hist), "seed": seed}
        v = case_coap_events(p)
        acc.case(key=("coap_events", tuple(hist)), outcome=f"coap_events:{'ok' if not v else v[0][0]}", sample={"case": "coap_events", "params": p}, symbols=("coap_events",) + tuple(f"coap:{s_}" for s_ in hist))
        acc.traces += 1
        for sig, detail in v:
            acc.violation(sig, "coap_events", p, detail)
    return acc


def _work_coap_subs(item, seed, tier):
    acc = core.Acc()
    for hist in item:
        p = {"history": list(hist), "seed": seed}
        v = case_coap_subs(p)
        acc.case(key=("coap_subs", tuple(hist)), outcome=f"coap_subs:{'ok' if not v else v[0][0]}", sample={"case": "coap_subs", "params": p}, symbols=("coap_subs",) + tuple(f"coapsub:{s_.split(':')[0]}" for s_ in hist))
        acc.traces += 1
        for sig, detail in v:
            acc.violation(sig, "coap_subs", p, detail)
    return acc


def _work_splits(item, seed, tier):
    acc = core.Acc()
    p = dict(item, seed=seed)
    v = case_event_splits(p)
    n = p.pop("_n", 1)
    acc.case(key=("event_splits", core.jsonable(p)), outcome=f"event_splits:{'ok' if not v else v[0][0]}", sample={"case": "event_splits", "params": p}, symbols=("event_splits", f"style:{p.get('style')}"))
    acc.extra["event_block_boundaries_run"] += n
    acc.traces += n
    for sig, detail in v:
        acc.violation(sig, "event_splits", p, detail)
    return acc


def _work(item, seed, tier):
    acc = core.Acc()
    p, root, depth = item
    explore.explore(lambda: H(p), acc, depth=depth, case="explore", params=p, root=root, prune=True, finish=False)
    return acc


def _work_bcast(item, seed, tier):
    """events that reach a disconnected BLE pairing as encrypted broadcasts (the connected-session harness of C18): an advertisement is repeated
    many times, the event it reports is delivered once.  Only that rule is judged here; what a broadcast may be accepted at all is C18's."""
    from vt.props import c18_conn

    acc = core.Acc()
    p, root, depth = item
    sub = core.Acc()
    explore.explore(lambda: c18_conn.ConnH(p), sub, depth=depth, case="conn", params=p, root=root, prune=True, finish=True)
    sub.viol = [v for v in sub.viol if "repeated-broadcast" in v["signature"]]
    for k in list(sub.viol_count):
        if "repeated-broadcast" not in k:
            del sub.viol_count[k]
    acc.merge(sub)
    return acc


def _work_ble(item, seed, tier):
    from vt.props.c12_ble import BleSubH

    acc = core.Acc()
    p, root, depth = item
    explore.explore(lambda: BleSubH(p), acc, depth=depth, case="ble_subs", params=p, root=root, prune=True, finish=True)
    return acc


def run(ctx):
    quick = ctx.tier == "quick"
    from vt.props import c12_ble

    ble_configs = [
        (dict(leg="ble"), 5 if quick else 7),
        (dict(leg="ble", raiser="A", alphabet=["sub:9+10+13+14", "timer", "change:9", "burst", "storm:10", "drop", "use"]), 5 if quick else 7),
        # accessories that answer no protocol-configuration request / have no service-signature characteristic
        (dict(leg="ble", acc="proto-reject", alphabet=["sub:9+10+13+14", "timer", "change:9", "burst", "drop", "use"]), 5 if quick else 7),
        (dict(leg="ble", acc="no-sig", alphabet=["sub:9+10+13+14", "timer", "change:9", "burst", "drop", "use"]), 5 if quick else 7),
        # from a non-initial state: subscribed, notifications running, then the link was lost and re-made by the next use
        (dict(leg="ble", prelude=["sub:9+10+13+14", "timer", "drop", "use"], max_drops=2, alphabet=["timer", "change:13", "burst", "storm:10", "drop", "use", "fail-start:13", "sub:9"]), 4 if quick else 6),
    ]
    work = []
    for p, d in ble_configs:
        p = dict(p, seed=ctx.seed)
        work += [(p, r, d) for r in explore.roots(lambda: c12_ble.BleSubH(p), 2)]
    ctx.pmap(_work_ble, work)
    ctx.bounds.update(ble_configs=[dict(alphabet=c.get("alphabet", c12_ble.ALPH), prelude=c.get("prelude", []), depth=d) for c, d in ble_configs])
    for s_ in ("burst", "storm", "fail-start", "change", "use"):
        ctx.require(ctx.acc.symbols[s_] > 0, f"BLE symbol {s_} never taken")
    from vt.props import c18_conn

    bp = dict(base=300, ev_flags=(9, 10), alphabet=["sub", "timer", "drop", "bcast:+1", "bcast:same", "regular-adv", "use"], seed=ctx.seed)
    bd = 6 if quick else 7
    ctx.pmap(_work_bcast, [(bp, r, bd) for r in explore.roots(lambda: c18_conn.ConnH(bp), 2)])
    ctx.bounds.update(ble_broadcast_copies=dict(alphabet=bp["alphabet"], depth=bd))
    ctx.require(ctx.acc.symbols["bcast"] > 0, "a broadcast was never delivered")
    configs = [
        (dict(alphabet=ALPH_SUBS, max_drops=2), 5 if quick else 7),
        (dict(alphabet=ALPH_EVENTS, max_drops=1, raiser="partial"), 4 if quick else 6),
        (dict(alphabet=["R+", "ev1", "ev2", "L2+", "drop"], max_drops=1, raiser="object"), 4 if quick else 5),
        (dict(alphabet=ALPH_OFFLINE, max_drops=2), 4 if quick else 6),
        # other environments: byte-wise reads with tiny blocks and chunked lower-case HTTP; reads ending inside a block
        (dict(alphabet=["sub:A", "unsub:A", "drop", "ev1", "ev2", "L2+", "ev-empty"], max_drops=1, env=dict(delivery="bytes", frames=[7], http="chunked-lower")), 4 if quick else 5),
        (dict(alphabet=["sub:C", "drop", "ev1", "ev2", "ev-nonjson", "R+"], max_drops=1, raiser="partial", env=dict(delivery="3/4", frames=[60], http="chunked-2")), 4 if quick else 5),
        # an accessory that refuses notifications for one characteristic of the request: 207 with a row for every characteristic
        (dict(alphabet=["sub:A", "sub:C", "unsub:A", "drop", "ev1"], max_drops=2, refuse=[(2, 10)]), 4 if quick else 6),
        (dict(alphabet=["sub:B", "sub:C", "unsub:B", "drop", "offline", "online"], max_drops=2, refuse=[(1, 10)]), 4 if quick else 5),
    ]
    configs.append((dict(alphabet=ALPH_SELF, max_drops=1), 4 if quick else 5))
    configs.append((dict(alphabet=ALPH_BIG, max_drops=2), 4))
    configs.append((dict(alphabet=["sub:A", "sub:B", "unsub:A", "close", "use", "drop", "ev1"], max_drops=1), 5 if quick else 6))
    work = []
    for p, d in configs:
        p = dict(p, seed=ctx.seed)
        rs = explore.roots(lambda: H(p), 2)
        work += [(p, r, d) for r in rs]
    ctx.bounds.update(configs=[dict(alphabet=c["alphabet"], depth=d) for c, d in configs])
    ctx.pmap(_work, work)
    import itertools

    hists = [h for n in range(1, (4 if quick else 6) + 1) for h in itertools.product(COAP_EV, repeat=n) if h.count("raiser") <= 1 and any(x.startswith("ev") for x in h)]
    ctx.pmap(_work_coap, [hists[i : i + 40] for i in range(0, len(hists), 40)])
    ctx.bounds.update(coap_event_histories=len(hists), coap_event_alphabet=COAP_EV)
    shists = [h for n in range(1, (4 if quick else 5) + 1) for h in itertools.product(COAP_SUBS, repeat=n) if any(x.startswith("sub") for x in h)]
    ctx.pmap(_work_coap_subs, [shists[i : i + 60] for i in range(0, len(shists), 60)])
    ctx.bounds.update(coap_subscription_histories=len(shists), coap_subscription_alphabet=COAP_SUBS)
    styles = [None, "chunked", "chunked-2", "chunked-lower"] + ([] if quick else ["lower", "upper", "mixed", "lws", "extra-headers", "no-ctype"])
    ctx.pmap(_work_splits, [dict(style=st) for st in styles])
    ctx.bounds.update(event_split_sweep="every block boundary inside an EVENT x HTTP style x {one read, two reads}", event_styles=styles)
    ctx.exhaustive = not ctx.acc.capped
    ctx.require(ctx.acc.extra["event_block_boundaries_run"] >= 400, "event split sweep too small")
    for s in ("sub", "unsub", "drop", "arm-cut", "ev1", "ev2", "ev-split", "ev-empty", "ev-nonjson", "L2+", "R+", "offline", "online"):
        ctx.require(ctx.acc.symbols[s] > 0, f"symbol {s} never taken")
    ctx.require(len(ctx.acc.outcomes) >= 6, "too few distinct outcomes")

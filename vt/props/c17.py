"""C17 HAP PDU fragmentation, reassembly and attribution (BLE, CoAP): bounded-exhaustive enumeration of
(fragment size x body length), of every fragmentation of a response, of every faulty fragment position and of
every outcome vector of a CoAP batch, on the real code against independent reference accessories
(vt/ref/blepdu.py, vt/ref/coappdu.py)."""
from __future__ import annotations

import itertools

from vt import core
from vt.ref import blepdu, coappdu, tlv8
from vt.ref.crypto import det_bytes

META = dict(
    level="exploration",
    engine="E3",
    technique="bounded-exhaustive enumeration (full cross products: fragment size x body length x plain/encrypted; all 2^(L-1) "
    "compositions of a response body into fragments; every faulty-fragment position; every per-item outcome vector of a CoAP "
    "batch) of the real ble_request/_write_pdu/_read_pdu/EncryptionKey and CoAP encode/decode_all_pdus + "
    "read/write/subscribe/unsubscribe mappings against independent reference accessories",
    text="BLE: ble_request is run against a reference GATT accessory (own reassembler, own ChaCha20-Poly1305 session) for every "
    "fragment budget 8..64 x body length 0..200 and realistic budgets (20,155,244,496,512) x lengths to 5000, plain and "
    "encrypted: every write must fit the negotiated size and reassemble to the same opcode/tid/iid/body; the accessory's "
    "response (echo, uniformly fragmented, and separately every composition of short bodies with every status) must come back "
    "as its status and body; a wrong tid in any fragment or a missing continuation flag in any continuation must make the call "
    "fail. CoAP: for every outcome vector over {ok empty, ok body, error status, wrong tid, wrong control, error+wrong control} "
    "of batches 1..N the decoded list and the dict returned by read/write/subscribe/unsubscribe (real EncryptionContext, "
    "fake aiocoap context, reference accessory) must attribute the i-th outcome to the i-th requested id and report every bad "
    "item as a per-item error without touching the others CoAP batches with an id missing from the controller's cached database are judged by what reaches the accessory (no value paired with another characteristic's id). Also: sequences of requests on one BLE session (counters live on across multi-fragment requests); attribution of reads under schedules of the gated BLE harness (cancel, timers, drops, accessory changes between reads). Also constant and periodic bodies (consecutive fragments byte-identical on a plain link). CoAP also: batches after 250..600 earlier exchanges on the session; 2..4 overlapping callers on one session.",
    note="content-independent: body bytes are a seeded fill pattern; statuses outside the seven defined ones, truncated batches "
    "and empty batches are outside the declared alphabet; reference layers and the cryptography wheel are trusted "
    "(cross-checked in selftest)",
    design_ref="DESIGN.md §4 C17",
    rule="a case = one (harness, parameters) execution: one ble_request call, one decode_all_pdus call or one batch operation; "
    "distinct = distinct parameters; non-trivial = all of them (every case runs the code under test on a full exchange)",
)

BLE_OPCODES = [1, 2, 3, 4, 5, 6, 7, 8]
BLE_TIDS = [1, 2, 127, 128, 253]
BLE_IIDS = [0, 1, 255, 256, 0x1234, 65535]
REAL_SIZES = [20, 155, 244, 496, 512]
COAP_IIDS = [700, 3, 65535, 12, 256, 9] + [1000 + 7 * i for i in range(300)]  # the first six as before; the rest for long batches
LENS = {"A": [1, 2, 8, 3, 1, 5], "B": [300, 1, 255, 2, 256, 4]}
SYM6 = ["ok:0", "ok:n", "err:r", "tid:n", "ctl:n", "errctl:r"]
SYM14 = ["ok:0", "ok:n", "err:1", "err:2", "err:3", "err:4", "err:5", "err:6", "errb:r", "tid:n", "tid:0", "ctl:n", "ctl:0", "errctl:r"]


def _fill(n, salt, mode=None):
    """mode None: every byte depends on its position; 'zeros' / 'ff': a constant body (a blank name, a cleared log - consecutive fragments
    of it are byte-identical on a plain link); an int: a pattern that repeats with that period (the fragment payload size, say)."""
    if mode == "zeros":
        return bytes(n)
    if mode == "ff":
        return b"\xff" * n
    if isinstance(mode, int) and mode > 0:
        return bytes(((i % mode) * 7 + salt) % 251 for i in range(n))
    return bytes(((i * 7 + salt * 13 + n) % 251) for i in range(n))


def _drive(coro):
    try:
        coro.send(None)
    except StopIteration as s:
        return s.value
    coro.close()
    raise core.HarnessError("fake GATT client suspended")


# ================================================================ BLE
class _Handle:
    properties = ["read", "write"]
    max_write_without_response_size = None
    uuid = "x"


class _Breach(Exception):
    """Raised by the fake GATT client when the controller did something a conformant accessory cannot follow."""


class _Rand:
    def __init__(self, tid):
        self.tid = tid
        self.used = 0

    def randrange(self, *a, **k):
        self.used += 1
        return self.tid

    def randint(self, *a, **k):
        self.used += 1
        return self.tid


class _Gatt:
    """GATT-level reference accessory: reassembles the request from the writes, hands out the scripted response fragments."""

    address = "00:00:00:00:00:01"

    def __init__(self, negotiated, session, responder):
        self.N = negotiated
        self.session = session
        self.responder = responder
        self.asm = blepdu.RequestAssembler()
        self.writes = []
        self.request = None
        self.queue = []
        self.problems = []
        self.reads = 0

    def determine_fragment_size(self, overhead, handle):
        return self.N - overhead

    def _breach(self, sig, **detail):
        self.problems.append((sig, detail))
        raise _Breach(sig)

    latency = None  # None: a write is delivered at once; 'size': it completes after a time growing with its size; 'inverse': shrinking with it

    fail_at = None  # (index of the write that fails, delivered?) - the stack reports an error for that write while the link stays up

    async def write_gatt_char(self, handle, data, response):
        data = bytes(data)
        if self.fail_at is not None and len(self.writes) == self.fail_at[0] and not getattr(self, "_failed", False):
            self._failed = True
            from bleak.exc import BleakError

            if not self.fail_at[1]:
                raise BleakError("write rejected")  # never reached the accessory
            try:
                await self._deliver(handle, data, response)
            finally:
                pass
            raise BleakError("write acknowledgement lost")  # reached the accessory, the acknowledgement did not reach us
        await self._deliver(handle, data, response)

    async def _deliver(self, handle, data, response):
        if self.latency:
            import asyncio

            # the radio takes its time, and not the same time for every write: the accessory sees the bytes when the write completes
            await asyncio.sleep((len(data) if self.latency == "size" else 1000 - len(data)) / 1000.0)
        self.writes.append(len(data))
        if self.request is not None:
            self._breach("ble:write-after-request-complete", index=len(self.writes) - 1)
        if self.session:
            pt = self.session.open(data)
            if pt is None:
                self._breach("ble:request-fragment-undecryptable", index=len(self.writes) - 1, length=len(data))
        else:
            pt = data
        try:
            r = self.asm.feed(pt)
        except blepdu.Malformed as e:
            self._breach(f"ble:request-fragment-malformed:{e}", index=len(self.writes) - 1, fragment=pt[:16])
        if r is not None:
            self.request = r
            self.queue = list(self.responder(r))

    async def read_gatt_char(self, handle):
        if self.request is None:
            self._breach("ble:read-before-request-complete", writes=self.writes[:8])
        if not self.queue:
            self._breach("ble:response-over-read", reads=self.reads)
        frag = self.queue.pop(0)
        self.reads += 1
        return bytearray(self.session.seal(frag) if self.session else frag)


class _HandleWNR(_Handle):
    properties = ["read", "write", "write-without-response"]
    max_write_without_response_size = 512


def _ble_call(f, enc, opcode, tid, iid, data, responder, seed=0, gattenv=None):
    """Run one real ble_request against the reference accessory.  -> (result or None, exception or None, gatt, rand)."""
    from aiohomekit import pdu as libpdu
    from aiohomekit.controller.ble import client as libclient
    from aiohomekit.controller.ble.key import DecryptionKey, EncryptionKey

    c2a, a2c = det_bytes(seed, "c17-c2a"), det_bytes(seed, "c17-a2c")
    session = blepdu.Session(c2a, a2c) if enc else None
    gatt = _Gatt(f + blepdu.TAG if enc else f, session, responder)
    ek = EncryptionKey(c2a) if enc else None
    dk = DecryptionKey(a2c) if enc else None
    rand = _Rand(tid)
    saved = libclient.random
    libclient.random = rand
    try:
        if gattenv:
            from vt import vloop

            gatt.latency = gattenv.get("latency")
            handle = _HandleWNR() if gattenv.get("wnr") else _Handle()
            loop = vloop.VirtualLoop().install()
            try:
                res = loop.run_coro(libclient.ble_request(gatt, ek, dk, libpdu.OpCode(opcode), handle, iid, data), 600.0)
            finally:
                loop.shutdown()
            return res, None, gatt, rand
        res = _drive(libclient.ble_request(gatt, ek, dk, libpdu.OpCode(opcode), _Handle(), iid, data))
        return res, None, gatt, rand
    except core.HarnessError:
        raise
    except Exception as e:  # noqa: BLE001
        return None, e, gatt, rand
    finally:
        libclient.random = saved


def _status_value(s):
    return getattr(s, "value", s)


def _check_request(gatt, rand, p, opcode, tid, iid, body, N):
    out = []
    big = [(i, n) for i, n in enumerate(gatt.writes) if n > N]
    if big:
        out.append(("ble:fragment-larger-than-negotiated", {**p, "negotiated": N, "offenders": big[:4], "writes": gatt.writes[:6]}))
    r = gatt.request
    if r is None:
        out.append(("ble:request-never-completed", {**p, "writes": gatt.writes[:6]}))
        return out
    if r.opcode != opcode:
        out.append(("ble:request-opcode-differs", {**p, "got": r.opcode}))
    if rand.used and r.tid != tid:
        out.append(("ble:request-tid-differs", {**p, "got": r.tid}))
    if r.iid != iid:
        out.append(("ble:request-iid-differs", {**p, "got": r.iid}))
    if r.body != body:
        out.append(("ble:request-body-differs", {**p, "got_len": len(r.body), "want_len": len(body), "got_head": r.body[:12], "want_head": body[:12]}))
    return out


def case_ble_request(p):
    """p: f (plaintext fragment budget), enc, L, opcode, tid, iid, none (pass data=None instead of b'' when L == 0), seed."""
    f, enc, L = p["f"], bool(p["enc"]), p["L"]
    opcode, tid, iid, seed = p["opcode"], p["tid"], p["iid"], p.get("seed", 0)
    body = _fill(L, seed + 1, p.get("fill"))
    data = None if (L == 0 and p.get("none")) else body
    N = f + blepdu.TAG if enc else f

    def responder(req):
        echo = bytes(b ^ 0x5A for b in req.body)
        return blepdu.response_fragments(req.tid, 0, echo, blepdu.uniform_parts(len(echo), f))

    res, exc, gatt, rand = _ble_call(f, enc, opcode, tid, iid, data, responder, seed, gattenv=p.get("gatt"))
    out = list(gatt.problems)
    out = [(s, {**p, **d}) for s, d in out]
    if exc is not None and not gatt.problems:
        out.append((f"ble:honest-exchange-raises:{type(exc).__name__}", {**p, "err": str(exc)[:200], "writes": gatt.writes[:6]}))
    out += _check_request(gatt, rand, p, opcode, tid, iid, body, N)
    if exc is None:
        want = bytes(b ^ 0x5A for b in body)
        try:
            status, got = res
            got = bytes(got)
        except Exception as e:  # noqa: BLE001
            return out + [("ble:response-result-shape", {**p, "err": repr(e)})]
        if _status_value(status) != 0:
            out.append(("ble:response-status-differs", {**p, "got": _status_value(status), "want": 0}))
        if got != want:
            out.append(("ble:response-body-differs", {**p, "got_len": len(got), "want_len": len(want), "unread_fragments": len(gatt.queue)}))
    return out


def _wrong_tid(tid, how):
    w = {"next": (tid + 1) & 0xFF, "prev": (tid - 1) & 0xFF, "flip7": tid ^ 0x80, "zero": 0, "ff": 0xFF}[how]
    if w == tid:
        w = (tid + 2) & 0xFF
    return w


def case_ble_response(p):
    """p: enc, tid, status, L, parts (body piece lengths, first may be 0) | bare, f (request budget),
    fault: None | {kind: tid-first | tid-cont | noflag-cont, k: fragment index, wt: how the wrong tid is made}."""
    enc, tid, status, L = bool(p["enc"]), p["tid"], p["status"], p["L"]
    seed = p.get("seed", 0)
    body = _fill(L, seed + 3, p.get("fill"))
    fault = p.get("fault")

    def responder(req):
        frags = blepdu.response_fragments(req.tid, status, body, p.get("parts"), bare=bool(p.get("bare")))
        if fault:
            k = fault["k"]
            if k >= len(frags) or (k == 0) != (fault["kind"] == "tid-first"):
                raise core.HarnessError(f"fault position does not exist: {p}")
            fr = bytearray(frags[k])
            if fault["kind"] in ("tid-first", "tid-cont"):
                fr[1] = _wrong_tid(req.tid, fault["wt"])
            else:
                fr[0] &= 0x7F
            frags[k] = bytes(fr)
        return frags

    res, exc, gatt, rand = _ble_call(p.get("f", 64), enc, 3, tid, 10, None, responder, seed)
    out = [(s, {**p, **d}) for s, d in gatt.problems]
    if fault:
        if exc is None and not gatt.problems:
            sig = {
                "tid-first": "ble:wrong-tid-accepted:first-fragment",
                "tid-cont": "ble:wrong-tid-accepted:continuation",
                "noflag-cont": "ble:missing-continuation-flag-accepted",
            }[fault["kind"]]
            out.append((sig, {**p, "returned": (_status_value(res[0]), bytes(res[1])[:16]) if isinstance(res, tuple) else repr(res)}))
        return out
    if exc is not None:
        if not gatt.problems:
            out.append((f"ble:honest-response-raises:{type(exc).__name__}", {**p, "err": str(exc)[:200]}))
        return out
    try:
        st, got = res
        got = bytes(got)
    except Exception as e:  # noqa: BLE001
        return out + [("ble:response-result-shape", {**p, "err": repr(e)})]
    if _status_value(st) != status:
        out.append(("ble:response-status-differs", {**p, "got": _status_value(st), "want": status}))
    if got != body:
        out.append(("ble:response-body-differs", {**p, "got": got[:16], "got_len": len(got), "want_len": L, "unread_fragments": len(gatt.queue)}))
    elif gatt.queue:
        out.append(("ble:response-fragments-left-unread", {**p, "unread_fragments": len(gatt.queue)}))
    return out


# ================================================================ CoAP
def _sym(sym, i):
    kind, _, arg = sym.partition(":")
    if arg == "r":
        arg = str(6 - (i % 6)) if kind == "errctl" else str(1 + (i % 6))
    return kind, arg


def _resp_item(sym, i, tid, val, wt, wc):
    """-> ((control, tid, status, body), expectation) ; expectation = ('ok', value bytes) | ('err',)"""
    kind, arg = _sym(sym, i)
    full = tlv8.encode([(1, val)])
    if kind == "ok":
        return (coappdu.TYPE_RESPONSE, tid, 0, b"" if arg == "0" else full), ("ok", b"" if arg == "0" else val)
    if kind == "err":
        return (coappdu.TYPE_RESPONSE, tid, int(arg), b""), ("err",)
    if kind == "errb":  # an error status that (unusually) carries a body: still an error, and the next item must not shift
        return (coappdu.TYPE_RESPONSE, tid, int(arg), full), ("err",)
    if kind == "tid":
        return (coappdu.TYPE_RESPONSE, _wrong_tid(tid, wt), 0, b"" if arg == "0" else full), ("err",)
    if kind == "ctl":
        return (wc, tid, 0, b"" if arg == "0" else full), ("err",)
    if kind == "errctl":
        return (wc, tid, int(arg), b""), ("err",)
    raise core.HarnessError(f"unknown symbol {sym}")


def _vals(n, lens, seed):
    return [_fill(LENS[lens][i % len(LENS[lens])], seed + 20 + i) for i in range(n)]


def case_coap_decode(p):
    """p: vec (outcome symbols), lens (scheme), wt, wc, start (starting tid)."""
    from aiohomekit.controller.coap import pdu as libpdu

    vec, start = list(p["vec"]), p.get("start", 0)
    n = len(vec)
    vals = _vals(n, p["lens"], p.get("seed", 0))
    items, exps = [], []
    for i, s in enumerate(vec):
        it, ex = _resp_item(s, i, (start + i) & 0xFF, vals[i], p["wt"], p["wc"])
        items.append(it)
        exps.append(ex)
    data = coappdu.build_responses(items)
    try:
        res = libpdu.decode_all_pdus(start, data)
    except Exception as e:  # noqa: BLE001
        return [(f"coap:decode_all:raises:{type(e).__name__}", {**p, "err": str(e)[:200]})]
    out = []
    if len(res) != n:
        out.append(("coap:decode_all:result-count-differs", {**p, "got": len(res), "want": n}))
    for i, ex in enumerate(exps):
        if i >= len(res):
            break
        r = res[i]
        isb = isinstance(r, (bytes, bytearray))
        if ex[0] == "ok":
            if not isb or bytes(r) != items[i][3]:
                out.append(("coap:decode_all:ok-item-differs", {**p, "index": i, "got": repr(r)[:80]}))
                break
        elif isb or _status_value(r) == 0:
            out.append(("coap:decode_all:bad-item-not-an-error", {**p, "index": i, "got": repr(r)[:80]}))
            break
    return out


class _Resp:
    def __init__(self, code, payload):
        self.code = code
        self.payload = payload


class _Pending:
    def __init__(self, resp):
        async def _r():
            return resp

        self.response = _r()


class _CoapAccessory:
    """Reference accessory behind a fake aiocoap context: opens the request, answers per the outcome vector."""

    def __init__(self, session, script):
        self.session = session
        self.script = script
        self.requests = []
        self.problems = []
        self.shut = False

    def request(self, msg):
        from aiocoap.numbers.codes import Code

        pt = self.session.open(bytes(msg.payload))
        if pt is None:
            self.problems.append(("coap:request-undecryptable", {}))
            return _Pending(_Resp(Code.NOT_FOUND, b""))
        try:
            reqs = coappdu.parse_requests(pt)
        except coappdu.Malformed as e:
            self.problems.append((f"coap:request-malformed:{e}", {"plaintext": pt[:32]}))
            return _Pending(_Resp(Code.BAD_REQUEST, b""))
        self.requests.append(reqs)
        return _Pending(_Resp(Code.CHANGED, self.session.seal(coappdu.build_responses(self.script(reqs)))))

    async def shutdown(self):
        self.shut = True


def _coap_db(iids):
    from aiohomekit.controller.coap import structs as s

    chars = [
        s.Pdu09CharacteristicContainer(
            s.Pdu09Characteristic(
                type=0x25, instance_id=i, properties=0x0033, presentation_format=None, valid_range=None,
                step_value=None, valid_values=None, valid_values_range=None, user_descriptor=None,
            )
        )
        for i in iids
    ]
    svc = s.Pdu09Service(0x43, 1, chars, 0, [])
    return s.Pdu09Database([s.Pdu09AccessoryContainer(s.Pdu09Accessory(1, [s.Pdu09ServiceContainer(svc)]))])


OPS = ("read", "write", "subscribe", "unsubscribe")


def _coap_batch(loop, p):
    from cryptography.hazmat.primitives.ciphers.aead import ChaCha20Poly1305

    from aiohomekit.controller.coap.connection import CoAPHomeKitConnection, EncryptionContext

    op, vec, seed = p["op"], list(p["vec"]), p.get("seed", 0)
    n = len(vec)
    iids = COAP_IIDS[:n] if not p.get("rev") else list(reversed(COAP_IIDS[:n]))
    ids = [(1, i) for i in iids]
    vals = _vals(n, p["lens"], seed)
    wvals = [_fill(1 + (i * 5) % 7, seed + 40 + i) for i in range(n)]
    exps = []

    def script(reqs):
        items = []
        for i, s in enumerate(vec):
            tid = reqs[i][2] if i < len(reqs) else i
            it, ex = _resp_item(s, i, tid, vals[i], p["wt"], p["wc"])
            items.append(it)
            exps.append(ex)
        return items

    c2a, a2c = det_bytes(seed, "c17-coap-c2a"), det_bytes(seed, "c17-coap-a2c")
    acc = _CoapAccessory(coappdu.Session(c2a, a2c), script)
    conn = CoAPHomeKitConnection(None, "::1", 5683)
    unknown = p.get("unknown")  # index of a requested id the controller's cached database does not contain (a stale entity)
    conn.info = _coap_db([i for k, i in enumerate(iids) if k != unknown])
    conn.enc_ctx = EncryptionContext(
        ChaCha20Poly1305(a2c), ChaCha20Poly1305(c2a), ChaCha20Poly1305(det_bytes(seed, "c17-coap-ev")), "coap://[::1]:5683/", acc
    )
    prior = p.get("prior", 0)
    if prior:
        # the session has been up for a while: `prior` earlier exchanges (single reads, answered honestly) before the batch under test -
        # whatever counts along with the session (message counters, transaction ids) is far from its initial value, or about to wrap
        real_script, acc.script = acc.script, (lambda reqs: [(coappdu.TYPE_RESPONSE, r[2], 0, tlv8.encode([(1, b"\x01")])) for r in reqs])
        for _ in range(prior):
            try:
                loop.run_coro(conn.read_characteristics([ids[0]]))
            except Exception as e:  # noqa: BLE001
                return [(f"coap:read:raises:{type(e).__name__}:after-{len(acc.requests)}-exchanges-on-the-session", {**p, "err": str(e)[:200]})]
        acc.script = real_script
        del acc.requests[:]
    if op == "read":
        coro = conn.read_characteristics(ids)
    elif op == "write":
        coro = conn.write_characteristics([(1, iid, wvals[i]) for i, iid in enumerate(iids)])
    elif op == "subscribe":
        coro = conn.subscribe_to(ids)
    elif op == "unsubscribe":
        coro = conn.unsubscribe_from(ids)
    else:
        raise core.HarnessError(op)
    try:
        res = loop.run_coro(coro)
    except Exception as e:  # noqa: BLE001
        if acc.problems:
            return [(s, {**p, **d}) for s, d in acc.problems]
        if unknown is not None:
            res = None  # failing the call is one way to deal with an id nobody knows; what (if anything) went out is judged below
        else:
            return [(f"coap:{op}:raises:{type(e).__name__}", {**p, "err": str(e)[:200]})]
    out = [(s, {**p, **d}) for s, d in acc.problems]
    if unknown is not None:
        # whatever the controller does about the unknown id, nothing it sends may pair one characteristic's id with another one's value, and
        # no characteristic that was not sent may be presented as written
        want_body = {iid: (tlv8.encode([(1, wvals[i])]) if op == "write" else None) for i, iid in enumerate(iids)}
        sent = set()
        for reqs in acc.requests:
            for r in reqs:
                sent.add(r[3])
                if r[3] not in want_body:
                    out.append(("coap:request-for-an-id-nobody-asked-for", {**p, "iid": r[3]}))
                elif op == "write" and r[4] != want_body[r[3]]:
                    other = [i for i, b in want_body.items() if b == r[4]]
                    out.append(("coap:write-carries-another-characteristics-value", {**p, "iid": r[3], "value_meant_for": other}))
        if isinstance(res, dict) and op == "write":
            for i, iid in enumerate(iids):
                if iid not in sent and (1, iid) not in res:
                    out.append(("coap:unsent-write-presented-as-written", {**p, "iid": iid}))
        return out[:3]
    # ---- what the accessory saw
    if len(acc.requests) != 1 or len(acc.requests[0]) != n:
        out.append(("coap:request-item-count-differs", {**p, "got": [len(r) for r in acc.requests]}))
        return out
    reqs = acc.requests[0]
    if any(r[0] & coappdu.TYPE_MASK for r in reqs):
        out.append(("coap:request-control-not-a-request", {**p, "controls": [r[0] for r in reqs]}))
    if [r[3] for r in reqs] != iids:
        out.append(("coap:request-iid-differs", {**p, "got": [r[3] for r in reqs], "want": iids}))
    if len({r[2] for r in reqs}) != n:
        out.append(("coap:request-tids-not-distinct", {**p, "tids": [r[2] for r in reqs]}))
    if len({r[1] for r in reqs}) != 1 or (op == "read" and reqs[0][1] != coappdu.OP_CHAR_READ) or (op == "write" and reqs[0][1] != coappdu.OP_CHAR_WRITE):
        out.append(("coap:request-opcode-differs", {**p, "opcodes": [r[1] for r in reqs]}))
    want_bodies = [tlv8.encode([(1, v)]) for v in wvals] if op == "write" else [b""] * n
    if [r[4] for r in reqs] != want_bodies:
        out.append(("coap:request-body-differs", {**p, "got": [r[4][:12] for r in reqs]}))
    # ---- attribution of the outcomes
    if not isinstance(res, dict):
        return out + [(f"coap:{op}:result-not-a-dict", {**p, "got": repr(res)[:100]})]
    bad = [ids[i] for i, ex in enumerate(exps) if ex[0] == "err"]
    if op == "read":
        if set(res) != set(ids):
            out.append(("coap:read:result-keys-differ", {**p, "got": sorted(res), "want": sorted(ids)}))
        for i, ex in enumerate(exps):
            r = res.get(ids[i])
            if r is None:
                continue
            if ex[0] == "ok":
                if "value" not in r or "status" in r or r["value"] is None or bytes(r["value"]) != ex[1]:
                    out.append(("coap:read:ok-item-wrong", {**p, "index": i, "got": repr(r)[:100], "want_len": len(ex[1])}))
                    break
            elif "value" in r or not r.get("status"):
                out.append(("coap:read:bad-item-not-an-error", {**p, "index": i, "got": repr(r)[:100]}))
                break
    else:
        if set(res) != set(bad):
            out.append((f"coap:{op}:error-set-differs", {**p, "got": sorted(res), "want": sorted(bad)}))
        for k, r in res.items():
            if k in bad and not (isinstance(r, dict) and r.get("status")):
                out.append((f"coap:{op}:bad-item-not-an-error", {**p, "id": k, "got": repr(r)[:100]}))
                break
    return out


class _Loop:
    def __enter__(self):
        from vt import vloop

        self.loop = vloop.VirtualLoop().install()
        return self.loop

    def __exit__(self, *a):
        self.loop.shutdown()


def case_coap_overlap(p):
    """p: sets (k lists of iids), op.  k callers issue their batches on ONE session without waiting for each other (the accessory's answers are
    on their way until the harness lets them arrive, oldest first): every caller's i-th result is its own i-th characteristic's - the value the
    accessory holds for THAT id (a function of the id) - and every request the accessory sees is one caller's list, whole and in order."""
    from cryptography.hazmat.primitives.ciphers.aead import ChaCha20Poly1305

    from aiohomekit.controller.coap.connection import CoAPHomeKitConnection, EncryptionContext

    seed = p.get("seed", 0)
    sets = [list(x) for x in p["sets"]]
    out = []
    from vt import vloop

    loop = vloop.VirtualLoop().install()
    try:
        held = []

        class _Held:
            def __init__(self, resp):
                self.response = loop.create_future()
                held.append((self.response, resp))

        val = lambda iid: bytes([iid % 251, (iid >> 8) % 251, 0x5A])  # noqa: E731

        def script(reqs):
            return [(coappdu.TYPE_RESPONSE, r[2], 0, tlv8.encode([(1, val(r[3]))]) if r[1] == coappdu.OP_CHAR_READ else b"") for r in reqs]

        c2a, a2c = det_bytes(seed, "c17-coap-c2a"), det_bytes(seed, "c17-coap-a2c")
        acc = _CoapAccessory(coappdu.Session(c2a, a2c), script)
        orig_request = acc.request

        def request(msg):
            pend = orig_request(msg)
            resp = pend.response
            h = _Held(None)
            held[-1] = (h.response, resp)
            return h

        acc.request = request
        conn = CoAPHomeKitConnection(None, "::1", 5683)
        conn.info = _coap_db(sorted({i for s_ in sets for i in s_}))
        conn.enc_ctx = EncryptionContext(ChaCha20Poly1305(a2c), ChaCha20Poly1305(c2a), ChaCha20Poly1305(det_bytes(seed, "c17-coap-ev")), "coap://[::1]:5683/", acc)
        tasks = []
        for k, ids in enumerate(sets):
            if p["op"] == "read":
                coro = conn.read_characteristics([(1, i) for i in ids])
            else:
                coro = conn.write_characteristics([(1, i, val(i)) for i in ids])
            tasks.append(loop.create_task(coro))
            for _ in range(p.get("stagger", 0)):
                if loop.has_ready():
                    loop.run_batch()
        for _ in range(20 * len(sets)):
            loop.run_until_idle()
            if all(t.done() for t in tasks):
                break
            live = [(f, r) for f, r in held if not f.done()]
            if live:
                f, r = live[0]
                coro_or_resp = r
                if hasattr(coro_or_resp, "send"):
                    try:
                        coro_or_resp.send(None)
                    except StopIteration as si:
                        coro_or_resp = si.value
                f.set_result(coro_or_resp)
            elif not loop.fire_next_timer():
                break
        det = {"sets": sets, "op": p["op"], "stagger": p.get("stagger", 0)}
        out += [(s_, {**det, **d}) for s_, d in acc.problems]
        for reqs in acc.requests:
            got = [r[3] for r in reqs]
            if got not in sets:
                out.append(("coap:overlap:request-on-the-wire-is-no-callers-list", dict(det, got=got)))
            for r in reqs:
                if p["op"] == "write" and r[4] != tlv8.encode([(1, val(r[3]))]):
                    out.append(("coap:write-carries-another-characteristics-value", dict(det, iid=r[3])))
        if sorted(tuple(r[3] for r in q) for q in acc.requests) != sorted(tuple(x) for x in sets):
            out.append(("coap:overlap:requests-on-the-wire-are-not-one-per-call", dict(det, got=[[r[3] for r in q] for q in acc.requests])))
        for k, (t, ids) in enumerate(zip(tasks, sets)):
            if not t.done():
                out.append(("coap:overlap:caller-never-completes", dict(det, caller=k)))
                t.cancel()
                continue
            if t.cancelled() or t.exception() is not None:
                out.append((f"coap:overlap:caller-fails:{type(t.exception()).__name__ if not t.cancelled() else 'cancelled'}", dict(det, caller=k, err=str(t.exception())[:160] if not t.cancelled() else "")))
                continue
            res = t.result()
            if p["op"] == "read":
                for i in ids:
                    got = res.get((1, i)) if isinstance(res, dict) else None
                    gv = got.get("value") if isinstance(got, dict) else None
                    if got is None:
                        out.append(("coap:overlap:result-misses-a-requested-characteristic", dict(det, caller=k, iid=i, keys=[list(x) for x in (res or {})])))
                    elif gv is not None and bytes(gv if isinstance(gv, (bytes, bytearray)) else str(gv).encode()) != val(i) and gv != val(i):
                        out.append(("coap:overlap:result-carries-another-characteristics-value", dict(det, caller=k, iid=i, got=repr(gv)[:40], want=val(i))))
                extra = [x for x in (res or {}) if x[1] not in ids]
                if extra:
                    out.append(("coap:overlap:result-holds-characteristics-the-caller-did-not-ask-for", dict(det, caller=k, extra=[list(x) for x in extra])))
        loop.run_until_idle()
    finally:
        loop.shutdown()
    return out[:4]


def case_coap_batch(p):
    with _Loop() as loop:
        return _coap_batch(loop, p)


def case_ble_session(p):
    """Several requests in a row on ONE encrypted (or plain) session - the keys, their counters and the accessory's reference session live on
    across the requests: every request of the sequence has to be reassembled by the accessory and answered, whatever the requests before it
    looked like (single fragment, many fragments, empty).  p: f, enc, lens (body length per request), resp_parts (fragments per response)."""
    from aiohomekit import pdu as libpdu
    from aiohomekit.controller.ble import client as libclient
    from aiohomekit.controller.ble.key import DecryptionKey, EncryptionKey

    f, enc, seed = p["f"], bool(p["enc"]), p.get("seed", 0)
    c2a, a2c = det_bytes(seed, "c17s-c2a"), det_bytes(seed, "c17s-a2c")
    session = blepdu.Session(c2a, a2c) if enc else None
    ek = EncryptionKey(c2a) if enc else None
    dk = DecryptionKey(a2c) if enc else None
    N = f + blepdu.TAG if enc else f
    out = []
    saved = libclient.random
    try:
        for k, L in enumerate(p["lens"]):
            body = _fill(L, seed + k)
            tid = _rot(BLE_TIDS, k + L)
            iid = _rot(BLE_IIDS, k)
            opcode = _rot(BLE_OPCODES, k)

            def responder(req, k=k):
                echo = bytes(b ^ 0x5A for b in req.body)
                return blepdu.response_fragments(req.tid, 0, echo, blepdu.uniform_parts(len(echo), max(1, f - (k % 3))))

            gatt = _Gatt(N, session, responder)
            libclient.random = _Rand(tid)
            det = {**p, "request": k, "L": L}
            try:
                res = _drive(libclient.ble_request(gatt, ek, dk, libpdu.OpCode(opcode), _Handle(), iid, body))
            except core.HarnessError:
                raise
            except Exception as e:  # noqa: BLE001
                out += [(s_ + ":later-request-of-a-session", {**det, **d}) for s_, d in gatt.problems] or [(f"ble:honest-exchange-raises:{type(e).__name__}:later-request-of-a-session", {**det, "err": str(e)[:160]})]
                break
            r = gatt.request
            if r is None or r.body != body or r.tid != tid or r.iid != iid or r.opcode != opcode:
                out.append(("ble:request-reassembled-differs:later-request-of-a-session", det))
                break
            status, got = res
            if _status_value(status) != 0 or bytes(got) != bytes(b ^ 0x5A for b in body):
                out.append(("ble:response-body-differs:later-request-of-a-session", det))
                break
    finally:
        libclient.random = saved
    return out


def case_ble_writefault(p):
    """One GATT write of a (multi-fragment) request fails while the link stays up - refused before it reached the accessory, or delivered with
    its acknowledgement lost.  Failing the request is fine; what is not: a call that comes back as done although the accessory executed
    something else than the request (a fragment twice, a tail cut off), or fragments the accessory cannot follow after an apparent success."""
    from aiohomekit import pdu as libpdu
    from aiohomekit.controller.ble import client as libclient
    from aiohomekit.controller.ble.key import DecryptionKey, EncryptionKey

    f, enc, L, seed = p["f"], bool(p["enc"]), p["L"], p.get("seed", 0)
    c2a, a2c = det_bytes(seed, "c17w-c2a"), det_bytes(seed, "c17w-a2c")
    session = blepdu.Session(c2a, a2c) if enc else None
    body = _fill(L, seed + 3)
    executed = []

    def responder(req):
        executed.append(bytes(req.body))
        echo = bytes(b ^ 0x5A for b in req.body)
        return blepdu.response_fragments(req.tid, 0, echo, blepdu.uniform_parts(len(echo), f))

    class G(_Gatt):
        async def write_gatt_char(self, handle, data, response):
            # (a conformant accessory that gets bytes it cannot follow answers nothing useful: the breach is recorded, the write itself "succeeds")
            try:
                return await super().write_gatt_char(handle, data, response)
            except _Breach:
                return None

    gatt = G(f + blepdu.TAG if enc else f, session, responder)
    gatt.fail_at = (p["at"], bool(p["delivered"]))
    saved = libclient.random
    libclient.random = _Rand(_rot(BLE_TIDS, L))
    try:
        from vt import vloop

        loop = vloop.VirtualLoop().install()  # (a real loop: the library may want to wait a moment before it reacts to the failure)
        try:
            res = loop.run_coro(libclient.ble_request(gatt, EncryptionKey(c2a) if enc else None, DecryptionKey(a2c) if enc else None, libpdu.OpCode(2), _Handle(), 9, body), 600.0)
        except core.HarnessError:
            raise
        except Exception:  # noqa: BLE001
            return []  # the request failed: the caller knows
        finally:
            loop.shutdown()
    finally:
        libclient.random = saved
    out = []
    if executed and executed[-1] != body or not executed:
        out.append(("ble:request-reported-done-though-the-accessory-executed-another-body", {**p, "executed_len": [len(x) for x in executed], "body_len": len(body), "status": _status_value(res[0])}))
    return out


def case_ble_realclient(p):
    """The library's own GATT client class (AIOHomeKitBleakClient: the real fragment-size negotiation, MTU 100) with only the radio replaced: a
    sequence of plain and encrypted requests on the same and on different characteristics of ONE client object.  No fragment on the air is
    larger than MTU-3, whatever was sent on that characteristic before."""
    from aiohomekit import pdu as libpdu
    from aiohomekit.controller.ble import client as libclient
    from aiohomekit.controller.ble.bleak import AIOHomeKitBleakClient
    from aiohomekit.controller.ble.key import DecryptionKey, EncryptionKey

    seed = p.get("seed", 0)
    c2a, a2c = det_bytes(seed, "c17r-c2a"), det_bytes(seed, "c17r-a2c")
    session = blepdu.Session(c2a, a2c)
    ek, dk = EncryptionKey(c2a), DecryptionKey(a2c)
    state = {"gatt": None}

    class Client(AIOHomeKitBleakClient):
        async def write_gatt_char(self, handle, data, response=None):
            return await state["gatt"].write_gatt_char(handle, data, response)

        async def read_gatt_char(self, handle):
            return await state["gatt"].read_gatt_char(handle)

    client = Client("00:11:22:33:44:55")
    air = client.mtu_size - 3
    handles = {}
    out = []
    saved = libclient.random
    try:
        for k, (hname, enc, L) in enumerate(p["requests"]):
            h = handles.setdefault(hname, type("Handle", (), {"properties": ["read", "write"], "max_write_without_response_size": None, "uuid": hname, "__hash__": lambda self_: hash(id(self_))})())
            body = _fill(L, seed + k)
            tid = _rot(BLE_TIDS, k + L)

            def responder(req):
                echo = bytes(b ^ 0x5A for b in req.body)
                return blepdu.response_fragments(req.tid, 0, echo, blepdu.uniform_parts(len(echo), 60))

            gatt = state["gatt"] = _Gatt(air, session if enc else None, responder)
            libclient.random = _Rand(tid)
            det = {**p, "request": k, "handle": hname, "enc": enc, "L": L, "mtu_minus_3": air}
            try:
                res = _drive(libclient.ble_request(client, ek if enc else None, dk if enc else None, libpdu.OpCode(2), h, 9, body))
            except core.HarnessError:
                raise
            except Exception as e:  # noqa: BLE001
                out += [(s_ + ":real-client", {**det, **d}) for s_, d in gatt.problems] or [(f"ble:honest-exchange-raises:{type(e).__name__}:real-client", {**det, "err": str(e)[:160]})]
                break
            big = [n for n in gatt.writes if n > air]
            if big:
                out.append(("ble:fragment-larger-than-negotiated:real-client", {**det, "offenders": big[:4]}))
                break
            if gatt.request is None or gatt.request.body != body or bytes(res[1]) != bytes(b ^ 0x5A for b in body):
                out.append(("ble:request-or-response-differs:real-client", det))
                break
    finally:
        libclient.random = saved
    return out


def case_ble_sched(p):
    """One execution of the gated BLE harness (c06_ble.BleH), judged by its 'c17:' clause only: a read that completes carries the value of the
    characteristic it asked for, whatever was cancelled, timed out, replayed or dropped before."""
    from vt import explore
    from vt.props.c06_ble import BleH

    h, trace = explore.run_prefix(lambda: BleH(p), tuple(p.get("choices", ())))
    try:
        v = h.violations() or h.finish()
        return [(s_, dict(detail=d, trace=trace)) for s_, d in v if s_.startswith("c17:")]
    finally:
        h.close()


def _work_sched(item, seed, tier):
    from vt import explore
    from vt.props.c06_ble import BleH

    acc = core.Acc()
    p, root, depth = item
    tmp = core.Acc()
    explore.explore(lambda: BleH(p), tmp, depth=depth, case="ble_sched", params=p, root=root, prune=True)
    tmp.viol = [v for v in tmp.viol if v["signature"].startswith("c17:")]
    for k in list(tmp.viol_count):
        if not k.startswith("c17:"):
            del tmp.viol_count[k]
    acc.merge(tmp)
    return acc


CASES = {
    "ble_writefault": case_ble_writefault,
    "ble_realclient": case_ble_realclient,
    "ble_session": case_ble_session,
    "ble_sched": case_ble_sched,
    "ble_request": case_ble_request,
    "ble_response": case_ble_response,
    "coap_decode": case_coap_decode,
    "coap_batch": case_coap_batch,
    "coap_overlap": case_coap_overlap,
}


# ================================================================ work
def _symbols(name, p):
    if name in ("ble_realclient", "ble_writefault"):
        return (name,)
    if name == "ble_session":
        return (name, "ble:enc" if p["enc"] else "ble:plain")
    if name == "ble_request":
        return (name, "ble:enc" if p["enc"] else "ble:plain", "ble:req:nobody" if p["L"] == 0 else ("ble:req:single" if p["L"] <= p["f"] - 7 else "ble:req:fragmented"))
    if name == "ble_response":
        f = p.get("fault")
        return (name, "ble:enc" if p["enc"] else "ble:plain", f"ble:fault:{f['kind']}" if f else f"ble:resp:status{p['status']}",
                "ble:resp:bare" if p.get("bare") else f"ble:resp:frags{min(len(p.get('parts') or [1]), 4)}")
    if name == "coap_decode":
        return (name,) + tuple({f"coap:sym:{_sym(s, 0)[0]}" for s in p["vec"]}) + (f"coap:n{len(p['vec'])}",)
    return (name, f"coap:op:{p['op']}", f"coap:n{len(p['vec'])}")


def _work(item, seed, tier):
    acc = core.Acc()
    name, plist = item
    if name == "coap_batch":
        with _Loop() as loop:
            for p in plist:
                v = _coap_batch(loop, p)
                _record(acc, name, p, v)
        return acc
    fn = CASES[name]
    for p in plist:
        _record(acc, name, p, fn(p))
    return acc


def _record(acc, name, p, v):
    if v:
        outcome = f"{name}:{v[0][0]}"
    elif name == "ble_response" and p.get("fault"):
        outcome = f"{name}:rejected:{p['fault']['kind']}"
    elif name in ("coap_decode", "coap_batch"):
        kinds = sorted({_sym(s, 0)[0] for s in p["vec"]})
        outcome = f"{name}:attributed:" + ("all-ok" if kinds == ["ok"] else "all-bad" if "ok" not in kinds else "mixed")
    else:
        outcome = f"{name}:ok"
    acc.case(key=(name, core.jsonable(p)), outcome=outcome, sample={"case": name, "params": p}, symbols=_symbols(name, p))
    for sig, detail in v:
        acc.violation(sig, name, p, detail)


def _chunks(name, plist, n):
    plist = list(plist)
    return [(name, plist[i : i + n]) for i in range(0, len(plist), n)]


def _rot(lst, k):
    return lst[k % len(lst)]


def _boundary_lengths(f):
    s = {0, 1, 2, 255, 256, 257, 1000, 2048, 4999, 5000}
    for k in range(0, 4):
        base = (f - 7) + k * (f - 2)
        s |= {base - 1, base, base + 1}
    return sorted(x for x in s if 0 <= x <= 5000)


def run(ctx):
    quick = ctx.tier == "quick"
    seed = ctx.seed
    work = []

    # ---- BLE requests: fragment budget x body length x plain/encrypted (opcode/tid/iid rotate: content-independent)
    req = []
    for f in range(8, 65):
        for L in range(0, 201):
            for enc in (0, 1):
                k = f * 7 + L + enc
                req.append({"f": f, "enc": enc, "L": L, "opcode": _rot(BLE_OPCODES, k), "tid": _rot(BLE_TIDS, k // 3), "iid": _rot(BLE_IIDS, k // 5), "seed": seed})
    for f in REAL_SIZES:
        lengths = _boundary_lengths(f) if quick else range(0, 5001)
        for L in lengths:
            for enc in (0, 1):
                k = f + L + enc
                req.append({"f": f, "enc": enc, "L": L, "opcode": _rot(BLE_OPCODES, k), "tid": _rot(BLE_TIDS, k // 3), "iid": _rot(BLE_IIDS, k // 5), "seed": seed})
    for op, tid, iid, (f, L), enc in itertools.product(BLE_OPCODES, BLE_TIDS, BLE_IIDS, [(8, 0), (8, 3), (20, 40), (64, 200)], (0, 1)):
        req.append({"f": f, "enc": enc, "L": L, "opcode": op, "tid": tid, "iid": iid, "seed": seed, "none": L == 0 and tid % 2 == 1})
    # the GATT link as an environment: writes that take time (growing / shrinking with their size), characteristics that allow write-without-response
    for f, L in [(20, 0), (20, 13), (20, 14), (20, 40), (20, 200), (64, 57), (64, 58), (64, 300), (185, 1000)] + ([] if quick else [(f_, L_) for f_ in (8, 23, 128) for L_ in (1, f_ - 7, f_ - 6, 3 * f_, 10 * f_)]):
        for enc in (0, 1):
            for lat in ("size", "inverse"):
                for wnr in (False, True):
                    k = f + L + enc
                    req.append({"f": f, "enc": enc, "L": L, "opcode": _rot(BLE_OPCODES, k), "tid": _rot(BLE_TIDS, k // 3), "iid": _rot(BLE_IIDS, k // 5), "seed": seed, "gatt": {"latency": lat, "wnr": wnr}})
    req.sort(key=lambda p: -(p["L"] // max(1, p["f"] - 2)))  # long ones first for load balance
    work += _chunks("ble_request", req, 250)
    # sequences of requests on one session: every ordered choice of 2 (3) body lengths out of {0, one fragment, exactly full, one byte over, three
    # fragments, long} for a few fragment budgets
    import itertools as _it

    sess = []
    for f in (20, 23, 64) if quick else (8, 20, 23, 64, 155, 512):
        pool = [0, 1, f - 7, f - 6, 3 * f, 700]
        for n_ in (2, 3) if not quick else (2,):
            for lens in _it.product(pool, repeat=n_):
                for enc in (1, 0) if n_ == 2 else (1,):
                    sess.append({"f": f, "enc": enc, "lens": list(lens) + [5], "seed": seed})
    work += _chunks("ble_session", sess, 60)
    rc = []
    pool = [("a", 0, 10), ("a", 1, 10), ("a", 0, 300), ("a", 1, 300), ("b", 1, 200), ("b", 0, 90), ("a", 1, 85), ("a", 0, 95)]
    for n_ in (2, 3) if quick else (2, 3, 4):
        for reqs in _it.product(pool, repeat=n_):
            if n_ >= 3 and quick and reqs[0][0] == "b":
                continue
            rc.append({"requests": [list(r) for r in reqs], "seed": seed})
    work += _chunks("ble_realclient", rc, 80)
    wf = []
    for f in (20, 64) if quick else (8, 20, 23, 64, 155):
        for L in (0, f - 7, f, 3 * f, 5 * f + 1, (f - 7) + 2 * (f - 2), (f - 7) + 3 * (f - 2), (f - 7) + 3 * (f - 2) - 1):
            nfr = 1 if L <= f - 7 else 1 + -(-(L - (f - 7)) // (f - 2))
            for at in range(nfr):
                for delivered in (0, 1):
                    for enc in (0, 1):
                        wf.append({"f": f, "enc": enc, "L": L, "at": at, "delivered": delivered, "seed": seed})
    work += _chunks("ble_writefault", wf, 100)
    ctx.bounds["ble_request"] = dict(
        grid="fragment budgets 8..64 x body lengths 0..200 x {plain, encrypted}",
        realistic=f"budgets {REAL_SIZES} x " + ("boundary lengths (0,1,2, k-th fragment boundary -1/0/+1 for k<4, 255..257, 1000, 2048, 4999, 5000)" if quick else "every length 0..5000") + " x {plain, encrypted}",
        header_fields="8 opcodes x 5 tids x 6 iids x 4 (budget, length) x {plain, encrypted}",
    )

    # ---- BLE responses: every composition of a short body; every status; first fragment with / without body bytes
    lmax = 10 if quick else 13
    lfault = 7 if quick else 10
    resp = []
    k = 0
    for L in range(1, lmax + 1):
        statuses = range(0, 7) if L <= 6 else (0, 4)
        for parts in blepdu.compositions(L):
            for lead in ([], [0]):
                for enc in (0, 1):
                    for st in statuses:
                        k += 1
                        resp.append({"enc": enc, "tid": _rot(BLE_TIDS, k), "status": st, "L": L, "parts": lead + parts, "seed": seed})
                    if L <= lfault:
                        full = lead + parts
                        wts = ("next", "prev", "flip7", "zero") if L <= 5 else ("next",)
                        for wt in ("next", "prev", "flip7", "zero"):
                            resp.append({"enc": enc, "tid": _rot(BLE_TIDS, k), "status": 0, "L": L, "parts": full, "seed": seed, "fault": {"kind": "tid-first", "k": 0, "wt": wt}})
                        for j in range(1, len(full)):
                            for wt in wts:
                                resp.append({"enc": enc, "tid": _rot(BLE_TIDS, k + j), "status": 0, "L": L, "parts": full, "seed": seed, "fault": {"kind": "tid-cont", "k": j, "wt": wt}})
                            resp.append({"enc": enc, "tid": _rot(BLE_TIDS, k + j), "status": _rot([0, 6], j), "L": L, "parts": full, "seed": seed, "fault": {"kind": "noflag-cont", "k": j}})
    for st in range(0, 7):
        for enc in (0, 1):
            for tid in BLE_TIDS:
                resp.append({"enc": enc, "tid": tid, "status": st, "L": 0, "bare": True, "seed": seed})
                resp.append({"enc": enc, "tid": tid, "status": st, "L": 0, "parts": [0], "seed": seed})
                for wt in ("next", "zero"):
                    resp.append({"enc": enc, "tid": tid, "status": st, "L": 0, "bare": True, "seed": seed, "fault": {"kind": "tid-first", "k": 0, "wt": wt}})
    # long responses, uniform fragmentation, a fault at every fragment
    for f, L in ((20, 300), (64, 1000)) if quick else ((20, 300), (20, 2000), (64, 1000), (155, 5000), (512, 5000)):
        parts = blepdu.uniform_parts(L, f)
        for enc in (0, 1):
            resp.append({"enc": enc, "tid": 200, "status": 0, "L": L, "parts": parts, "seed": seed})
            resp.append({"enc": enc, "tid": 200, "status": 0, "L": L, "parts": parts, "seed": seed, "fault": {"kind": "tid-first", "k": 0, "wt": "next"}})
            for j in range(1, len(parts)):
                resp.append({"enc": enc, "tid": 200, "status": 0, "L": L, "parts": parts, "seed": seed, "fault": {"kind": "tid-cont", "k": j, "wt": "next"}})
                resp.append({"enc": enc, "tid": 200, "status": 0, "L": L, "parts": parts, "seed": seed, "fault": {"kind": "noflag-cont", "k": j}})
    # bodies whose fragments look alike: constant, and repeating with the fragment payload size (on a plain link two consecutive
    # continuation fragments are then byte-identical; under encryption they never are)
    for f, L in ((20, 96), (20, 300), (64, 400), (8, 40)) if quick else ((20, 96), (20, 300), (20, 2000), (64, 400), (64, 1000), (155, 1000), (8, 40), (8, 41)):
        for parts in (blepdu.uniform_parts(L, f), [0] + blepdu.uniform_parts(L, f - 2)):
            psize = max(parts)
            for fill in ("zeros", "ff", psize, 2 * psize):
                for enc in (0, 1):
                    resp.append({"enc": enc, "tid": 77, "status": 0, "L": L, "parts": parts, "seed": seed, "fill": fill})
    for L in range(3, 9):
        for parts in blepdu.compositions(L):
            if len(parts) >= 3:
                for enc in (0, 1):
                    resp.append({"enc": enc, "tid": 78, "status": 0, "L": L, "parts": parts, "seed": seed, "fill": "zeros"})
    for f, L in ((20, 96), (64, 400), (8, 40)):
        for fill in ("zeros", f - 2, f - 4):
            for enc in (0, 1):
                req.append({"f": f, "enc": enc, "L": L, "opcode": 2, "tid": 79, "iid": 10, "seed": seed, "fill": fill})
    work += _chunks("ble_request", [r for r in req if r.get("fill") is not None], 50)
    work += _chunks("ble_response", resp, 600)
    ctx.bounds["ble_response"] = dict(
        compositions=f"all 2^(L-1) compositions for L=1..{lmax}, each also behind a first fragment without body bytes, x {{plain, encrypted}} x statuses (all 7 for L<=6, else 0 and 4)",
        faults=f"for L<={lfault}: wrong tid in the first fragment (4 wrong values), wrong tid / missing continuation flag in every continuation of every composition; long uniform responses with a fault at every fragment",
        empty="3-byte and 5-byte empty responses x 7 statuses x 5 tids",
    )

    # ---- CoAP
    nmax6 = 5 if quick else 6
    dec, bat = [], []
    combos = []  # (vec, lens, wt, wc)
    for n in range(1, nmax6 + 1):
        for vec in itertools.product(SYM6, repeat=n):
            combos.append((vec, "A", "next", 0x00))
            if n <= (3 if quick else 5):
                combos.append((vec, "B", "next", 0x00))
    variants = [("next", 0x00), ("prev", 0x04), ("ff", 0x0E)]
    for n in range(1, 4):
        for vec in itertools.product(SYM14, repeat=n):
            for vi, (wt, wc) in enumerate(variants):
                if quick and n == 3 and vi:
                    continue
                combos.append((vec, "A", wt, wc))
    for wc in (0x00, 0x04, 0x06, 0x08, 0x0A, 0x0C, 0x0E, 0x80, 0xF0):
        for vec in (("ctl:n", "ok:n"), ("ok:n", "ctl:n", "ok:0"), ("ctl:0",)):
            combos.append((vec, "A", "next", wc))
    uniq = {}
    for c in combos:
        uniq.setdefault((tuple(c[0]), c[1], c[2], c[3]), c)
    for vec, lens, wt, wc in uniq.values():
        base = {"vec": list(vec), "lens": lens, "wt": wt, "wc": wc, "seed": seed}
        dec.append(dict(base, start=0))
        if len(vec) <= 2:
            dec.append(dict(base, start=7))
            dec.append(dict(base, start=200))
        for op in OPS:
            bat.append(dict(base, op=op))
        if len(vec) <= 3 and lens == "A" and wt == "next" and wc == 0:
            bat.append(dict(base, op="read", rev=True))
            if all(x.startswith("ok") for x in vec) or len(vec) == 1:
                for op in OPS:
                    for u in range(len(vec)):
                        bat.append(dict(base, op=op, unknown=u))
    # long batches (a bridge with many characteristics in one call): transaction ids run 0..n-1, the i-th outcome is the i-th id's
    for n in ([15, 16, 17, 18, 32, 33, 40, 64] if not quick else [16, 17, 33]):
        for bad_at in sorted({None, 0, 15, 16, 17, n - 1} - {x for x in (15, 16, 17) if x >= n}, key=lambda x: -1 if x is None else x):
            vec = ["ok:n"] * n
            if bad_at is not None:
                vec[bad_at] = "err:4"
            for op in OPS:
                bat.append({"vec": vec, "lens": "A", "wt": "next", "wc": 0, "seed": seed, "op": op})
    # long-lived sessions: the same batches after 250..600 earlier exchanges (counters about to pass 255 / 256 / 511 / 512 inside the batch)
    for prior in ([250, 253, 255, 256, 510] if quick else [127, 128, 250, 251, 252, 253, 254, 255, 256, 257, 300, 509, 510, 511, 512, 600]):
        for n in (1, 2, 6) if quick else (1, 2, 3, 6, 16, 17):
            for op in ("read", "write") if quick else OPS:
                vec = ["ok:n"] * n
                bat.append({"vec": vec, "lens": "A", "wt": "next", "wc": 0, "seed": seed, "op": op, "prior": prior})
                if n > 1:
                    bat.append({"vec": ["ok:n"] * (n - 1) + ["err:4"], "lens": "A", "wt": "next", "wc": 0, "seed": seed, "op": op, "prior": prior})
    # overlapping callers on one session: 2..4 batches issued without waiting for each other
    pool = [[700, 3, 12], [256, 9, 65535], [1000, 1007, 1014], [3], [9, 700], [1021, 1028, 1035, 1042]]
    ov = []
    for k in (2, 3, 4) if not quick else (2, 3):
        for combo in itertools.permutations(range(len(pool)), k) if not quick else itertools.combinations(range(len(pool)), k):
            for op in ("read", "write"):
                for stagger in (0, 1, 2, 5) if not quick else (0, 2):
                    ov.append({"sets": [pool[i] for i in combo], "op": op, "stagger": stagger, "vec": [], "lens": "A"})
    work += _chunks("coap_overlap", ov, 40)
    work += _chunks("coap_decode", dec, 1500)
    work += _chunks("coap_batch", [b for b in bat if b.get("prior")], 12)
    work += _chunks("coap_batch", [b for b in bat if not b.get("prior")], 500)
    ctx.bounds["coap"] = dict(
        six_symbol_vectors=f"every vector over {SYM6} for batches 1..{nmax6} (err:r / errctl:r rotate through the six defined statuses by position)",
        full_alphabet=f"every vector over {SYM14} for batches 1..3 x wrong-tid/wrong-control variants {variants}" + (" (n=3: first variant only)" if quick else ""),
        body_length_schemes=LENS,
        legs="decode_all_pdus directly; read/write/subscribe/unsubscribe through EncryptionContext.post_all with a fake aiocoap context",
    )

    ctx.pmap(_work, work)
    # attribution under schedules: two reads of different characteristics on a real BlePairing with every GATT operation gated; cancellation,
    # timers, link drops and replayed fragments between them
    from vt import explore as _ex
    from vt.props.c06_ble import BleH

    sp = dict(transport="ble", seed=seed, alphabet=["req1", "req3", "acc-change", "step", "replay", "cancel", "timer", "drop"])
    ctx.pmap(_work_sched, [(sp, r, 6 if quick else 8) for r in _ex.roots(lambda: BleH(sp), 2)])
    ctx.bounds.update(ble_schedules=dict(alphabet=sp["alphabet"], depth=6 if quick else 8))
    ctx.exhaustive = True
    a = ctx.acc
    for name in CASES:
        if name not in ("ble_sched",):
            ctx.require(a.symbols[name] > 0, f"case family {name} never ran")
    ctx.require(a.symbols["req3"] > 0 and a.symbols["cancel"] > 0, "BLE schedule leg never ran")
    for s in ("ble:enc", "ble:plain", "ble:req:nobody", "ble:req:single", "ble:req:fragmented", "ble:fault:tid-first", "ble:fault:tid-cont",
              "ble:fault:noflag-cont", "ble:resp:bare", "ble:resp:frags1", "ble:resp:frags4", "coap:sym:ok", "coap:sym:err", "coap:sym:tid",
              "coap:sym:ctl", "coap:sym:errctl", "coap:sym:errb", "coap:op:read", "coap:op:write", "coap:op:subscribe", "coap:op:unsubscribe", f"coap:n{nmax6}"):
        ctx.require(a.symbols[s] > 0, f"alphabet symbol {s} never exercised")
    for st in range(7):
        ctx.require(a.symbols[f"ble:resp:status{st}"] > 0, f"response status {st} never exercised")
    ctx.require(len(a.outcomes) >= 6, "too few distinct outcomes")


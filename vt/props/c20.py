"""C20 persistence: crash-point enumeration of Controller.save_data (and of the file-backed cache save) with the E4
recorder/crash model (vt/ref/crashfs.py), plus bounded-exhaustive round trips of pairing sets and accessory databases
through save_data/load_data, CharacteristicCacheFile and Accessories.from_list(...).serialize(), plus every prefix and
every single-position corruption of small valid cache files."""
from __future__ import annotations

import copy
import itertools
import json
import os
import pathlib
import re
import shutil
import tempfile

from vt import core
from vt.ref import crashfs
from vt.ref.crypto import det_bytes

META = dict(
    level="fault_enumeration",
    engine="E4+E3",
    technique="crash-point enumeration: the file operations of a real save (open/truncate, every write, flush, fsync, rename, close) "
    "are recorded, and for every prefix of that history - every byte of every write - every directory a crash could leave "
    "(truncation durable at once, unsynced bytes persist as any prefix, rename atomic) is materialised and loaded by a fresh "
    "Controller / CharacteristicCacheFile; plus bounded-exhaustive round trips and single-position corruptions",
    text="(1) crash: for each scenario save1 -> restart -> change -> save2 the pairings loaded from every post-crash directory of "
    "save2 must equal save1's or save2's; (2) round trip: every enumerated pairing set (IP/CoAP/BLE, unicode aliases, optional "
    "fields) through save_data -> fresh Controller.load_data, every repository fixture and every enumerated synthetic entity map "
    "through Accessories.from_list -> serialize -> CharacteristicCacheFile -> fresh CharacteristicCacheFile -> from_list and "
    "through pairing.restore_accessories_state -> restart -> pairing constructor, compared field by field (types, ids, perms, "
    "formats, values, ranges, links, c#, s#, broadcast key); (3) cache: every crash state of a cache save, every prefix of small "
    "valid cache files and a 0xFF / NUL / quote corruption (and NUL tail) at every position must leave the constructor "
    "returning an empty (or the still-parsable) cache and start-up working Into every post-crash directory a complete save of the old set, the new set and the empty set is performed by the real code and must read back exactly. Also: one accessory under several aliases; configuration changes announced to a connected pairing (IP, CoAP; well spaced and overlapping) and what a restart reads; BLE write-through (every cache write against a fresh serialisation of what the pairing holds). Also pairings closed / shut down (not removed) before the save. Also: what a cache save stored is in the file when the call returns; last known values of unreachable characteristics survive a cache write and a restart.",
    note="the crash model is the classic one (no reordering between files beyond rename-before-data, no torn sectors); file "
    "system errors (ENOSPC, EACCES) are not enumerated; cache JSON that parses but has the wrong shape is out of scope "
    "(DESIGN §7); fields the model never parses (valid-values-range, maxLen, maxDataLen, ev) are not compared",
    design_ref="DESIGN.md §4 C20",
    rule="a case = one post-crash directory loaded by a fresh object, or one round trip of one pairing set / database, or one "
    "corrupted cache file; distinct = distinct directory content / input; non-trivial = the directory differs from the intact "
    "old and new ones, or the set / database is non-empty",
    assumptions=[
        "crash model: truncation, rename, link, unlink durable and atomic at once; written bytes durable after fsync, otherwise any prefix of them persists",
        "transports are registered on the Controller without starting zeroconf browsing / BLE scanning (load/save need neither)",
    ],
)

NEEDED = ["AccessoryPairingID", "AccessoryLTPK", "iOSPairingId", "iOSDeviceLTSK", "iOSDeviceLTPK", "AccessoryIP", "AccessoryPort",
          "AccessoryIPs", "AccessoryAddress", "Connection"]
FIXTURES = "tests/fixtures"
TARGET = "pairing.json"


# ================================================================ environment
# scratch directories carry the id of the run (the parent process of the worker pool) so that two checks running side by side can each make
# sure that THEY left nothing behind
_SCRATCH_PREFIX = f"vt-c20-{os.environ.get('VERIF_RUN_ID') or os.getpid()}-"


def _repo():
    import aiohomekit

    return os.path.dirname(os.path.dirname(os.path.abspath(aiohomekit.__file__)))


class _ZC:
    zeroconf = None


class _Env:
    """Virtual loop (transport constructors want a running loop) + a scratch directory under /tmp, both removed on exit."""

    def __enter__(self):
        from vt import vloop

        self.loop = vloop.VirtualLoop().install()
        self.dir = tempfile.mkdtemp(prefix=_SCRATCH_PREFIX, dir="/tmp")
        self._n = 0
        return self

    def sub(self):
        self._n += 1
        p = os.path.join(self.dir, f"d{self._n}")
        os.mkdir(p)
        return p

    def fresh(self, p):
        shutil.rmtree(p, ignore_errors=True)
        os.mkdir(p)
        return p

    def __exit__(self, *a):
        try:
            self.loop.shutdown()
        finally:
            shutil.rmtree(self.dir, ignore_errors=True)


def _controller(cache=None):
    """A fresh Controller with the three transports registered the way async_start does, without starting discovery."""
    from aiohomekit.controller.abstract import TransportType
    from aiohomekit.controller.ble.controller import BleController
    from aiohomekit.controller.coap.controller import CoAPController
    from aiohomekit.controller.controller import Controller
    from aiohomekit.controller.ip.controller import IpController

    c = Controller(async_zeroconf_instance=_ZC(), char_cache=cache)
    cc = c._char_cache
    c.transports[TransportType.IP] = IpController(char_cache=cc, zeroconf_instance=_ZC())
    c.transports[TransportType.COAP] = CoAPController(char_cache=cc, zeroconf_instance=_ZC())
    c.transports[TransportType.BLE] = BleController(char_cache=cc)
    return c


# ================================================================ pairing pool
def _pool(seed):
    def keys(tag):
        pid = det_bytes(seed, tag + "pid", 16).hex()
        return {
            "AccessoryLTPK": det_bytes(seed, tag + "ltpk").hex(),
            "iOSPairingId": f"{pid[:8]}-{pid[8:12]}-{pid[12:16]}-{pid[16:20]}-{pid[20:]}",
            "iOSDeviceLTSK": det_bytes(seed, tag + "ltsk").hex(),
            "iOSDeviceLTPK": det_bytes(seed, tag + "iltpk").hex(),
        }

    def mk(n, alias, **kw):
        d = {"AccessoryPairingID": f"AA:BB:CC:DD:EE:{n:02X}"}
        d.update(keys(f"p{n}"))
        d.update(kw)
        return alias, d

    pool = {
        "ip": mk(1, "living room", AccessoryIP="192.168.1.10", AccessoryPort=51826, Connection="IP"),
        "ip-noconn": mk(2, "legacy", AccessoryIP="10.0.0.2", AccessoryPort=80),
        "ip-ips": mk(3, "multi", AccessoryIP="192.168.1.12", AccessoryIPs=["192.168.1.12", "fd00::12", "169.254.3.4"], AccessoryPort=8080, Connection="IP"),
        "ip-v6": mk(4, "v6", AccessoryIP="fd00:1234::abcd", AccessoryPort=65535, Connection="IP"),
        "ip-unicode": mk(5, "Küche ☃ 日本 😀", AccessoryIP="192.168.1.15", AccessoryPort=1, Connection="IP"),
        "ip-escapes": mk(6, 'quote" back\\slash\ttab\nnl /slash', AccessoryIP="192.168.1.16", AccessoryPort=5001, Connection="IP"),
        "coap": mk(7, "thread sensor", AccessoryIP="fd11:22::abcd", AccessoryPort=5683, Connection="CoAP"),
        "coap-unicode": mk(8, "Flur – ß", AccessoryIP="fd11:22::1", AccessoryPort=49152, Connection="CoAP"),
        "ble": mk(9, "ble lock", AccessoryAddress="11:22:33:44:55:66", Connection="BLE"),
        "ble-uuid": mk(10, "ble on mac", AccessoryAddress="6F1C9C2E-4F2B-4C1D-9A57-0E3B1F2A4D5C", Connection="BLE"),
        "ip-extra": mk(11, "extra", AccessoryIP="192.168.1.21", AccessoryPort=51827, Connection="IP", name="Some Name", Future={"nested": [1, 2.5, None, "ü"]}),
        "ip-lower": ("lower id", dict(mk(12, "", AccessoryIP="192.168.1.22", AccessoryPort=51828, Connection="IP")[1], AccessoryPairingID="aa:bb:cc:dd:ee:0c")),
        "ip-emptyalias": mk(13, "", AccessoryIP="192.168.1.23", AccessoryPort=51829, Connection="IP"),
        # one accessory known under two aliases: reachable over IP and over Bluetooth (HAP devices with both radios use ONE accessory id), and an
        # old entry for it left behind under another name with the id in lower case
        "ble-same-acc": mk(1, "living room (bluetooth)", AccessoryAddress="11:22:33:44:55:01", Connection="BLE"),
        "ip-same-acc-lower": ("living room (old entry)", dict(mk(1, "", AccessoryIP="192.168.1.99", AccessoryPort=51830, Connection="IP")[1], AccessoryPairingID="aa:bb:cc:dd:ee:01")),
        # same alias and id as "ip", new address (what an address change / re-pair looks like)
        "ip-moved": mk(1, "living room", AccessoryIP="192.168.7.77", AccessoryPort=40000, Connection="IP"),
    }
    return pool


SCENARIOS = {
    # name: (save1 members, save2 members)
    "add": (["ip"], ["ip", "ble"]),
    "remove": (["ip", "coap", "ble"], ["ip", "ble"]),
    "rewrite-unchanged": (["ip", "ble"], ["ip", "ble"]),
    "moved": (["ip", "coap"], ["ip-moved", "coap"]),
    "unicode": (["ip-unicode"], ["ip-unicode", "coap-unicode", "ip-escapes"]),
    "last-removed": (["ble"], []),
    "first-added": ([], ["coap"]),
    "many": (["ip", "ip-noconn", "ip-ips", "coap", "ble"], ["ip", "ip-noconn", "ip-ips", "coap", "ble", "ip-v6"]),
}
_ALL = ["ip", "ip-noconn", "ip-ips", "ip-v6", "ip-unicode", "ip-escapes", "coap", "coap-unicode", "ble", "ble-uuid", "ip-extra", "ip-lower", "ip-emptyalias"]
SCENARIOS["whole-pool"] = (_ALL[:-1], _ALL)
QUICK_SCENARIOS = ["add", "remove", "rewrite-unchanged", "first-added"]


def _expected_view(members, pool):
    out = {}
    for m in members:
        alias, d = pool[m]
        v = {k: d[k] for k in NEEDED if k in d}
        v.setdefault("Connection", "IP")
        v["_class"] = {"IP": "IpPairing", "CoAP": "CoAPPairing", "BLE": "BlePairing"}[v["Connection"]]
        out[alias] = v
    return out, sorted({pool[m][1]["AccessoryPairingID"].lower() for m in members})


def _view(controller):
    out = {}
    for alias, p in controller.aliases.items():
        d = p.pairing_data
        v = {k: d[k] for k in NEEDED if k in d}
        v["_class"] = type(p).__name__
        out[alias] = v
    return out, sorted(controller.pairings)


def _addressing_problems(controller):
    """What the loaded pairing objects will actually dial must be what the file says."""
    out = []
    for alias, p in controller.aliases.items():
        d = p.pairing_data
        kind = type(p).__name__
        if kind == "IpPairing":
            want_hosts = d.get("AccessoryIPs", [d["AccessoryIP"]])
            if list(p.connection.hosts) != list(want_hosts) or p.connection.port != d["AccessoryPort"]:
                out.append((alias, "ip", list(p.connection.hosts), p.connection.port))
        elif kind == "CoAPPairing":
            if p.connection.address != f"[{d['AccessoryIP']}]:{d['AccessoryPort']}":
                out.append((alias, "coap", p.connection.address))
        elif kind == "BlePairing":
            if p.address != d["AccessoryAddress"]:
                out.append((alias, "ble", p.address))
        if p.id.lower() != d["AccessoryPairingID"].lower():
            out.append((alias, "id", p.id))
    return out


def _load(path, cache=None):
    """Fresh controller, load_data -> ('ok', view) | ('raises', type, message)."""
    try:
        c = _controller(cache)
        c.load_data(path)
    except Exception as e:  # noqa: BLE001
        return ("raises", type(e).__name__, re.sub(r"/tmp/vt-c20-[^/\"]+/d\d+", "<scratch>", str(e))[:160])
    return ("ok", _view(c))


# ================================================================ (1) crash points of save_data
def _apply_members(c, members, pool):
    for m in members:
        alias, d = pool[m]
        c.load_pairing(alias, copy.deepcopy(d))


def _record_save(env, scenario, seed):
    """save1, restart, change, recorded save2.  -> dict(initial, final, log, exp1, exp2)."""
    pool = _pool(seed)
    s1, s2 = SCENARIOS[scenario]
    d = env.sub()
    fname = os.path.join(d, TARGET)
    c1 = _controller()
    _apply_members(c1, s1, pool)
    c1.save_data(fname)
    initial = crashfs.snapshot(d)
    # restart, load, change the pairing set the way the CLI does, save again
    c2 = _controller()
    c2.load_data(fname)
    keep = {pool[m][0] for m in s2 if m in s1}
    for alias in list(c2.aliases):
        if alias not in keep:
            p = c2.aliases.pop(alias)
            c2.pairings.pop(p.id.lower(), None)
            for t in c2.transports.values():
                t.aliases.pop(alias, None)
                t.pairings.pop(p.id.lower(), None)
    _apply_members(c2, [m for m in s2 if m not in s1], pool)
    with crashfs.Recorder(d) as rec:
        c2.save_data(fname)
    final = crashfs.snapshot(d)
    r2 = _load(fname)
    probe = env.sub()
    crashfs.materialise(initial, probe)
    r1 = _load(os.path.join(probe, TARGET))
    if r1[0] != "ok" or r2[0] != "ok":
        raise core.HarnessError(f"intact pairing files do not load: {r1} {r2}")
    if r1[1] != _expected_view(s1, pool) or r2[1] != _expected_view(s2, pool):
        raise core.HarnessError(f"scenario {scenario}: intact files load something else than what was saved (round-trip leg should report this)")
    return {"initial": initial, "final": final, "log": rec.log, "exp1": r1[1], "exp2": r2[1], "dir": d}


def case_fsync_error(p):
    """The disk fails while a save is made durable: write() and flush() went into the page cache, fsync() reports the failure (EIO, ENOSPC,
    EDQUOT) and what the medium holds of that file is short.  The save must not report success, and the previously saved pairings must still
    load."""
    import errno

    pool = _pool(p.get("seed", 0))
    s1, s2 = SCENARIOS[p["scenario"]]
    out = []
    with _Env() as env:
        d = env.sub()
        fname = os.path.join(d, TARGET)
        c1 = _controller()
        _apply_members(c1, s1, pool)
        c1.save_data(fname)
        want_old = _expected_view(s1, pool)
        c2 = _controller()
        c2.load_data(fname)
        keep = {pool[m][0] for m in s2 if m in s1}
        for alias in list(c2.aliases):
            if alias not in keep:
                pg = c2.aliases.pop(alias)
                c2.pairings.pop(pg.id.lower(), None)
                for t_ in c2.transports.values():
                    t_.aliases.pop(alias, None)
                    t_.pairings.pop(pg.id.lower(), None)
        _apply_members(c2, [m for m in s2 if m not in s1], pool)
        real_fsync, real_fdatasync = os.fsync, os.fdatasync
        fired = {"n": 0}

        def failing(fd):
            fired["n"] += 1
            try:
                os.ftruncate(fd, min(p["kept"], os.fstat(fd).st_size))  # what the failed write-back left of the file
            except OSError:
                pass
            raise OSError(getattr(errno, p["errno"]), os.strerror(getattr(errno, p["errno"])))

        os.fsync = os.fdatasync = failing
        try:
            try:
                c2.save_data(fname)
                raised = None
            except Exception as e:  # noqa: BLE001
                raised = e
        finally:
            os.fsync, os.fdatasync = real_fsync, real_fdatasync
        det = {"scenario": p["scenario"], "errno": p["errno"], "bytes_the_medium_kept": p["kept"], "fsync_calls": fired["n"], "raised": type(raised).__name__ if raised else None}
        if not fired["n"]:
            return []  # (a save that never calls fsync is judged by the crash enumeration)
        r = _load(fname)
        if raised is None and (r[0] != "ok" or r[1] != _expected_view(s2, pool)):
            out.append(("fsync-error:save-reports-success-though-the-disk-failed", dict(det, load=str(r[:2])[:120])))
        if r[0] != "ok" or r[1] not in (want_old, _expected_view(s2, pool)):
            out.append(("fsync-error:previously-saved-pairings-lost", dict(det, load=str(r[:2])[:160])))
        if not out and raised is not None:
            # the fault clears and the application saves again (same controller object): now the new pairings are on the disk
            try:
                c2.save_data(fname)
            except Exception as e:  # noqa: BLE001
                out.append((f"fsync-error:save-after-the-fault-cleared-raises:{type(e).__name__}", dict(det, err=str(e)[:120])))
            else:
                r2 = _load(fname)
                if r2[0] != "ok" or r2[1] != _expected_view(s2, pool):
                    out.append(("fsync-error:save-after-the-fault-cleared-reports-success-but-the-file-holds-the-old-pairings", dict(det, load=str(r2[:2])[:160])))
    return out


def _phase(rec, state):
    ops = rec["log"][: state["point"]]
    content = state["files"].get(TARGET)
    if content is None:
        return "pairing-file-missing"
    if any(op[0] in ("rename", "link") and op[2] == TARGET for op in ops):
        return "rename-before-data-durable"
    return "truncate-in-place" if len(content) == 0 else "partial-write-in-place"


def _judge_crash(env, rec, state, scenario, evald):
    env.fresh(evald)
    crashfs.materialise(state["files"], evald)
    got = _load(os.path.join(evald, TARGET))
    if got[0] == "ok" and got[1] in (rec["exp1"], rec["exp2"]):
        return [], ("old" if got[1] == rec["exp1"] else "new") if rec["exp1"] != rec["exp2"] else "old=new"
    if got[0] == "raises" and not rec["exp1"][0]:
        return [], "nothing-to-lose"  # save1 held no pairing: an unreadable file destroys no previously saved pairing data
    content = state["files"].get(TARGET)
    detail = {
        "scenario": scenario,
        "save1": SCENARIOS[scenario][0],
        "save2": SCENARIOS[scenario][1],
        "crash_after_operation": state["point"],
        "last_completed_operation": state["after"],
        "history_of_save2": [crashfs.describe(op) for op in rec["log"]],
        "surviving_bytes_of_unsynced_files": state["persist"],
        "pairing_file_after_crash": None if content is None else {"length": len(content), "old_length": len(rec["initial"].get(TARGET, b"")), "new_length": len(rec["final"].get(TARGET, b"")), "tail": content[-40:]},
        "fresh_controller_load": got[:3] if got[0] == "raises" else {"aliases": sorted(got[1][0]), "ids": got[1][1]},
        "old_aliases": sorted(rec["exp1"][0]),
        "new_aliases": sorted(rec["exp2"][0]),
    }
    return [(f"crash:{_phase(rec, state)}-loses-old-pairings", detail)], "lost"


def _judge_recover(env, rec, state, scenario, evald, seed):
    """The session after the crash: a complete save of some pairing set into the directory the crash left behind (stale temporary files and
    all) must read back as exactly that set."""
    pool = _pool(seed)
    s1, s2 = SCENARIOS[scenario]
    out = []
    nrun = 0
    done = []
    for label, members in (("the-old-set", s1), ("the-new-set", s2), ("no-pairings", [])):
        if members in done:
            continue
        done.append(members)
        env.fresh(evald)
        crashfs.materialise(state["files"], evald)
        fname = os.path.join(evald, TARGET)
        c = _controller()
        _apply_members(c, members, pool)
        nrun += 1
        try:
            c.save_data(fname)
        except Exception as e:  # noqa: BLE001
            out.append((f"recover:save-after-crash-raises:{type(e).__name__}", {"scenario": scenario, "saving": label, "crash_after_operation": state["point"], "leftover_files": sorted(state["files"]), "err": str(e)[:160]}))
            continue
        got = _load(fname)
        if got[0] != "ok" or got[1] != _expected_view(members, pool):
            out.append(("recover:complete-save-after-crash-not-read-back", {
                "scenario": scenario, "saving": label, "crash_after_operation": state["point"], "last_completed_operation": state["after"],
                "leftover_files": {k: len(v) for k, v in state["files"].items()}, "surviving_bytes_of_unsynced_files": state["persist"],
                "fresh_controller_load": got[:3] if got[0] == "raises" else {"aliases": sorted(got[1][0])}, "wanted_aliases": sorted(_expected_view(members, pool)[0]),
            }))
    return out, nrun


def case_recover(p):
    with _Env() as env:
        rec = _record_save(env, p["scenario"], p.get("seed", 0))
        files = crashfs.state_at(rec["initial"], rec["log"], p["point"], p.get("persist", {}))
        after = crashfs.describe(rec["log"][p["point"] - 1]) if p["point"] else "save not started"
        state = {"point": p["point"], "after": after, "persist": p.get("persist", {}), "files": files}
        return _judge_recover(env, rec, state, p["scenario"], env.sub(), p.get("seed", 0))[0]


def case_crash(p):
    """p: scenario, point (completed operations of save2), persist ({file: surviving bytes} for unsynced files), seed."""
    with _Env() as env:
        rec = _record_save(env, p["scenario"], p.get("seed", 0))
        files = crashfs.state_at(rec["initial"], rec["log"], p["point"], p.get("persist", {}))
        after = crashfs.describe(rec["log"][p["point"] - 1]) if p["point"] else "save not started"
        state = {"point": p["point"], "after": after, "persist": p.get("persist", {}), "files": files}
        return _judge_crash(env, rec, state, p["scenario"], env.sub())[0]


def _work_crash(item, seed, tier):
    _, scenario, lo, hi = item
    acc = core.Acc()
    with _Env() as env:
        rec = _record_save(env, scenario, seed)
        states, stats = crashfs.crash_states(rec["initial"], rec["log"])
        evald = env.sub()
        for st in states[lo:hi]:
            v, outcome = _judge_crash(env, rec, st, scenario, evald)
            params = {"scenario": scenario, "point": st["point"], "persist": st["persist"], "seed": seed}
            trivial = st["files"] in (rec["initial"], rec["final"])
            acc.case(key=("crash", scenario, sorted(st["files"].items())), outcome=f"crash:{outcome}", nontrivial=not trivial,
                     sample={"case": "crash", "params": params}, symbols=("crash", f"crash:{scenario}", f"crash:after:{st['after'].split('(')[0]}"))
            for sig, detail in v:
                acc.violation(sig, "crash", params, detail)
            v2, nrun = _judge_recover(env, rec, st, scenario, evald, seed)
            acc.extra["saves_into_post_crash_directories"] += nrun
            for sig, detail in v2:
                acc.violation(sig, "recover", params, detail)
        if lo == 0:
            acc.extra["crash_points_incl_every_byte"] += stats["byte_points"]
            acc.extra["crash_point_x_persistence_pairs"] += stats["pairs"]
            acc.extra["recorded_file_operations"] += len(rec["log"])
    return acc


# ================================================================ (2a) pairing-set round trip
def case_pairings(p):
    """p: members (names from the pool), seed."""
    pool = _pool(p.get("seed", 0))
    members = list(p["members"])
    want = _expected_view(members, pool)
    out = []
    with _Env() as env:
        d = env.sub()
        fname = os.path.join(d, "sub", TARGET) if p.get("subdir") else os.path.join(d, TARGET)
        try:
            c1 = _controller()
            _apply_members(c1, members, pool)
            life = p.get("lifecycle")
            if life:
                # the application winds down (or unloads one device) before it saves: the pairings are closed / shut down, not removed - the
                # accessories are still paired, the file has to say so after the restart
                for k, pr in enumerate(list(c1.aliases.values())):
                    if life.endswith("-first") and k:
                        break
                    try:
                        env.loop.run_coro(pr.shutdown() if life.startswith("shutdown") else pr.close(), 120.0)
                    except Exception as e:  # noqa: BLE001
                        return [(f"pairings:{life.split('-')[0]}-raises:{type(e).__name__}", {**p, "err": str(e)[:200]})]
            c1.save_data(fname)
        except Exception as e:  # noqa: BLE001
            return [(f"pairings:save-raises:{type(e).__name__}", {**p, "err": str(e)[:200]})]
        try:
            c2 = _controller()
            c2.load_data(fname)
        except Exception as e:  # noqa: BLE001
            return [(f"pairings:load-raises:{type(e).__name__}", {**p, "err": str(e)[:200]})]
        got = _view(c2)
        if got != want:
            out.append(("pairings:roundtrip-differs", {**p, "diff": _diff(want, got)}))
        bad = _addressing_problems(c2)
        if bad:
            out.append(("pairings:loaded-object-dials-something-else", {**p, "problems": bad}))
        # second generation: what a restarted controller saves must load the same again
        try:
            f2 = os.path.join(d, "second.json")
            c2.save_data(f2)
            c3 = _controller()
            c3.load_data(f2)
            if _view(c3) != want:
                out.append(("pairings:second-generation-differs", {**p, "diff": _diff(want, _view(c3))}))
        except Exception as e:  # noqa: BLE001
            out.append((f"pairings:second-generation-raises:{type(e).__name__}", {**p, "err": str(e)[:200]}))
    return out


# ================================================================ strict comparison helpers
def _same(a, b):
    if isinstance(a, bool) or isinstance(b, bool):
        return isinstance(a, bool) and isinstance(b, bool) and a == b
    if isinstance(a, (int, float)) and isinstance(b, (int, float)):
        return type(a) is type(b) and a == b
    if isinstance(a, (list, tuple)) and isinstance(b, (list, tuple)):
        return len(a) == len(b) and all(_same(x, y) for x, y in zip(a, b))
    if isinstance(a, dict) and isinstance(b, dict):
        return a.keys() == b.keys() and all(_same(a[k], b[k]) for k in a)
    return type(a) is type(b) and a == b


def _diff(a, b, path="$"):
    """First difference (strict on types) as a short string, or None."""
    if isinstance(a, dict) and isinstance(b, dict):
        for k in sorted(set(a) | set(b), key=repr):
            if k not in a:
                return f"{path}.{k}: missing on the left, right={b[k]!r}"[:300]
            if k not in b:
                return f"{path}.{k}: left={a[k]!r}, missing on the right"[:300]
            d = _diff(a[k], b[k], f"{path}.{k}")
            if d:
                return d
        return None
    if isinstance(a, (list, tuple)) and isinstance(b, (list, tuple)):
        if len(a) != len(b):
            return f"{path}: length {len(a)} != {len(b)}"
        for i, (x, y) in enumerate(zip(a, b)):
            d = _diff(x, y, f"{path}[{i}]")
            if d:
                return d
        return None
    return None if _same(a, b) else f"{path}: {a!r} != {b!r}"[:300]


# ================================================================ (2b) accessory database round trip
# the fields the property lists (types, ids, permissions, formats, values, ranges) ...
CHAR_ATTRS = ["type", "iid", "perms", "format", "minValue", "maxValue", "minStep", "valid_values"]
# ... and serialised fields it does not list: a drift there is recorded as an outcome, never reported (weakest reading)
UNLISTED_ATTRS = ["unit", "description", "handle", "broadcast_events", "disconnected_events"]
LISTED_KEYS = {"aid", "services", "iid", "type", "characteristics", "linked", "perms", "format", "value", "minValue", "maxValue", "minStep", "valid-values"}
_NOTES = []
VENDOR = "E863F10D-079E-48FF-8F27-9C2605A29F52"


def _listed(x):
    """A serialised entity map reduced to the keys the property lists."""
    if isinstance(x, dict):
        return {k: _listed(v) for k, v in x.items() if k in LISTED_KEYS}
    if isinstance(x, list):
        return [_listed(v) for v in x]
    return x


def _model_view(accessories, attrs=None):
    attrs = attrs or CHAR_ATTRS
    out = []
    for a in accessories:
        sv = []
        for s in a.services:
            cv = []
            for c in s.characteristics:
                d = {k: getattr(c, k, None) for k in attrs}
                if attrs is CHAR_ATTRS:
                    d["value"] = c.to_accessory_and_service_list().get("value", "<not stored>")
                cv.append(d)
            sv.append({"iid": s.iid, "type": s.type, "linked": [x.iid for x in s.linked], "chars": cv})
        out.append({"aid": a.aid, "services": sv})
    return out


def _norm_type(t):
    t = str(t).upper()
    return f"{t.zfill(8)}-0000-1000-8000-0026BB765291" if len(t) <= 8 else t


def _source_diff(src, view):
    """Fields the property lists, as the accessory sent them (src) vs the restored model (view)."""
    by_aid = {a["aid"]: a for a in view}
    for a in src:
        va = by_aid.get(a["aid"])
        if va is None:
            return f"aid {a['aid']} missing"
        sv = {s["iid"]: s for s in va["services"]}
        for s in a["services"]:
            vs = sv.get(s["iid"])
            if vs is None:
                return f"aid {a['aid']} service {s['iid']} missing"
            if len(_norm_type(s["type"])) == 36 and vs["type"] != _norm_type(s["type"]):
                return f"service {s['iid']} type {vs['type']} != {s['type']}"
            if [x for x in s.get("linked", []) if x] != vs["linked"]:
                return f"service {s['iid']} linked {vs['linked']} != {s.get('linked')}"
            cv = {c["iid"]: c for c in vs["chars"]}
            for c in s["characteristics"]:
                vc = cv.get(c["iid"])
                where = f"aid {a['aid']} char {c['iid']}"
                if vc is None:
                    return f"{where} missing"
                if len(_norm_type(c["type"])) == 36 and vc["type"] != _norm_type(c["type"]):
                    return f"{where} type {vc['type']} != {c['type']}"
                if list(vc["perms"]) != list(c["perms"]):
                    return f"{where} perms {vc['perms']} != {c['perms']}"
                if "format" in c and vc["format"] != c["format"]:
                    return f"{where} format {vc['format']} != {c['format']}"
                for key, attr in (("minValue", "minValue"), ("maxValue", "maxValue"), ("minStep", "minStep"), ("valid-values", "valid_values")):
                    if key in c and not _same(vc[attr], c[key]):
                        return f"{where} {key} {vc[attr]!r} != {c[key]!r}"
                if "pr" in c["perms"] and c.get("value") is not None:
                    want = bool(c["value"]) if c.get("format") == "bool" else c["value"]
                    if not _same(vc["value"], want):
                        return f"{where} value {vc['value']!r} != {want!r}"
    return None


def _syn_databases():
    """name -> accessory list.  One characteristic variant per database, plus structural variants."""
    dbs = {}

    def one(name, char):
        char = dict(char)
        char.setdefault("type", VENDOR)
        char.setdefault("iid", 10)
        char.setdefault("perms", ["pr", "pw", "ev"])
        dbs[name] = [{"aid": 1, "services": [{"iid": 1, "type": "3E", "characteristics": [
            {"type": "23", "iid": 2, "perms": ["pr"], "format": "string", "value": "Acc"}]},
            {"iid": 9, "type": "43", "characteristics": [char]}]}]

    values = {
        "bool": [True, False, 1, 0],
        "uint8": [0, 255],
        "uint16": [0, 65535],
        "uint32": [0, 2**32 - 1],
        "uint64": [0, 2**63, 2**64 - 1],
        "int": [-(2**31), 2**31 - 1, 0, -1],
        "float": [0.0, 0.1, -40.5, 1e-7, 3.4028234663852886e38, 100, 21.5],
        "string": ["", "x", "Küche ☃ 😀", 'q"uote\\ \n\t\u0000', "a" * 64],
        "tlv8": ["", "AQEA"],
        "data": ["", "AAEC/w=="],
    }
    for fmt, vals in values.items():
        for i, v in enumerate(vals):
            one(f"value:{fmt}:{i}", {"format": fmt, "value": v})
        one(f"value:{fmt}:null", {"format": fmt, "value": None})
        one(f"value:{fmt}:absent", {"format": fmt})
        one(f"value:{fmt}:writeonly", {"format": fmt, "perms": ["pw"]})
    extras = [
        {"minValue": 0, "maxValue": 100, "minStep": 1},
        {"minValue": -10.5, "maxValue": 10.5, "minStep": 0.1},
        {"minValue": 0},
        {"maxValue": 0},
        {"minStep": 0},
        {"minValue": 5, "maxValue": 9},
        {"unit": "celsius"},
        {"unit": "percentage"},
        {"valid-values": [0, 1, 3]},
        {"valid-values": []},
        {"valid-values-range": [1, 5]},
        {"description": "Custom description ü"},
        {"handle": 17, "broadcast_events": True, "disconnected_events": False},
        {"handle": 0, "broadcast_events": False, "disconnected_events": True},
        {"ev": True},
    ]
    for fmt, v in (("uint8", 7), ("int", 7), ("float", 7.5)):
        for i, ex in enumerate(extras):
            one(f"extra:{fmt}:{i}", dict({"format": fmt, "value": v}, **ex))
    one("extra:string:maxLen64", {"format": "string", "value": "abc", "maxLen": 64})
    one("extra:string:maxLen256", {"format": "string", "value": "abc", "maxLen": 256})
    one("extra:data:maxDataLen", {"format": "data", "value": "AA==", "maxDataLen": 4096})
    for i, perms in enumerate((["pr"], ["pw"], ["pr", "pw", "ev", "aa", "tw", "hd", "wr"], [], ["ev"], ["pr", "ev"])):
        one(f"perms:{i}", {"format": "uint8", "value": 1, "perms": perms})
    # well-known types: defaults come from the library's tables when the accessory omits a field
    one("known:on", {"type": "25", "format": "bool", "value": True})
    one("known:temperature", {"type": "11", "format": "float", "value": 21.5, "perms": ["pr", "ev"], "unit": "celsius", "minValue": 0, "maxValue": 100, "minStep": 0.1})
    one("known:temperature-bare", {"type": "11", "perms": ["pr", "ev"], "value": 19})
    one("known:name", {"type": "23", "format": "string", "value": "Lämpchen", "perms": ["pr"]})
    one("known:long-uuid-lower", {"type": "00000025-0000-1000-8000-0026bb765291", "format": "bool", "value": False})
    one("known:unknown-short", {"type": "FFF1", "format": "uint8", "value": 3})

    def svc(iid, linked=None, n=1):
        s = {"iid": iid, "type": "43", "characteristics": [{"type": "25", "iid": iid + 1 + k, "perms": ["pr", "pw"], "format": "bool", "value": bool(k)} for k in range(n)]}
        if linked is not None:
            s["linked"] = linked
        return s

    dbs["struct:links"] = [{"aid": 1, "services": [svc(1, []), svc(10, [1]), svc(20, [1, 10]), svc(30, [0, 20]), svc(40, [40])]}]
    dbs["struct:two-accessories-same-iids"] = [{"aid": 1, "services": [svc(1), svc(10, [1])]}, {"aid": 2, "services": [svc(1), svc(10)]}]
    dbs["struct:large-ids"] = [{"aid": 2**32 + 5, "services": [svc(2**31, None, 2)]}, {"aid": 7, "services": [svc(65534)]}]
    dbs["struct:empty-service"] = [{"aid": 1, "services": [svc(1, None, 0), svc(5)]}]
    dbs["struct:no-services"] = [{"aid": 1, "services": []}]
    dbs["struct:no-accessories"] = []
    dbs["struct:aid-order"] = [{"aid": 9, "services": [svc(1)]}, {"aid": 1, "services": [svc(1)]}, {"aid": 5, "services": [svc(1)]}]
    return dbs


_SYN = None


def _database(name):
    global _SYN
    if name.startswith("fixture:"):
        with open(os.path.join(_repo(), FIXTURES, name[8:]), encoding="utf-8") as f:
            return json.load(f)
    if _SYN is None:
        _SYN = _syn_databases()
    return copy.deepcopy(_SYN[name[4:]])


def _pairing_for(transport, seed):
    pool = _pool(seed)
    return pool[{"ip": "ip", "coap": "coap", "ble": "ble"}[transport]]


def case_database(p):
    """p: db ('fixture:<file>' | 'syn:<name>'), transport, config_num, state_num, bkey (hex | None), seed."""
    from aiohomekit.characteristic_cache import CharacteristicCacheFile
    from aiohomekit.model import Accessories

    src = _database(p["db"])
    del _NOTES[:]
    cn, sn = p["config_num"], p["state_num"]
    bkey = bytes.fromhex(p["bkey"]) if p.get("bkey") is not None else None
    out = []
    with _Env() as env:
        d = env.sub()
        # ---- model -> serialize -> cache file -> fresh cache file -> model
        try:
            A = Accessories.from_list(copy.deepcopy(src))
            W = A.serialize()
            va = _model_view(A)
        except Exception as e:  # noqa: BLE001
            return [(f"database:source-does-not-load:{type(e).__name__}", {**p, "err": str(e)[:200]})]
        hkid = "AA:BB:CC:DD:EE:01"
        cpath = pathlib.Path(d) / "cache.json"
        try:
            cf = CharacteristicCacheFile(cpath)
            cf.async_create_or_update_map(hkid, cn, copy.deepcopy(W), bkey.hex() if bkey is not None else None, sn)
            cf.async_create_or_update_map("AA:BB:CC:DD:EE:99", 1, [], None, None)
            cf2 = CharacteristicCacheFile(cpath)
            R = cf2.get_map(hkid)
        except Exception as e:  # noqa: BLE001
            return [(f"database:cache-file-raises:{type(e).__name__}", {**p, "err": str(e)[:200]})]
        want = {"config_num": cn, "accessories": W, "broadcast_key": bkey.hex() if bkey is not None else None, "state_num": sn}
        if R is None:
            out.append(("database:cache-entry-missing-after-restart", dict(p)))
        else:
            df = _diff(want, dict(R))
            if df:
                out.append(("database:cache-file-content-differs", {**p, "diff": df}))
            try:
                A2 = Accessories.from_list(R["accessories"])
                v2 = _model_view(A2)
                df = _diff(va, v2)
                if df:
                    out.append(("database:model-differs-after-restart", {**p, "diff": df}))
                df = _diff(_listed(W), _listed(A2.serialize()))
                if df:
                    out.append(("database:reserialisation-differs", {**p, "diff": df}))
                df = _diff(_model_view(A, UNLISTED_ATTRS), _model_view(A2, UNLISTED_ATTRS)) or _diff(W, A2.serialize())
                if df:
                    _NOTES.append("unlisted-field-drift:" + df.split(":")[0].split(".")[-1])
                df = _source_diff(src, v2)
                if df:
                    out.append(("database:listed-field-not-preserved", {**p, "diff": df}))
            except Exception as e:  # noqa: BLE001
                out.append((f"database:restored-cache-does-not-load:{type(e).__name__}", {**p, "err": str(e)[:200]}))
        # ---- a later write-through under the SAME configuration number (state number, broadcast key and values change without a c# bump)
        cpath3 = pathlib.Path(d) / "cache3.json"
        try:
            W2 = copy.deepcopy(W)
            changed = False
            for a_ in W2:
                for s_ in a_.get("services", []):
                    for c_ in s_.get("characteristics", []):
                        v_ = c_.get("value")
                        if not changed and isinstance(v_, (bool, int, str)) and "value" in c_:
                            c_["value"] = (not v_) if isinstance(v_, bool) else (v_ + 1 if isinstance(v_, int) else v_ + "x")
                            changed = True
            sn2 = (sn or 0) + 1
            bkey2 = bytes(reversed(bkey)) if bkey is not None else bytes(range(32))
            cf3 = CharacteristicCacheFile(cpath3)
            cf3.async_create_or_update_map(hkid, cn, copy.deepcopy(W), bkey.hex() if bkey is not None else None, sn)
            cf3.async_create_or_update_map(hkid, cn, copy.deepcopy(W2), bkey2.hex(), sn2)
            R3 = CharacteristicCacheFile(cpath3).get_map(hkid)
            want3 = {"config_num": cn, "accessories": W2, "broadcast_key": bkey2.hex(), "state_num": sn2}
            df = _diff(want3, dict(R3)) if R3 is not None else "entry missing"
            if df:
                out.append(("database:later-write-through-with-same-config-number-not-on-disk", {**p, "diff": df}))
        except Exception as e:  # noqa: BLE001
            out.append((f"database:second-write-through-raises:{type(e).__name__}", {**p, "err": str(e)[:200]}))
        # ---- end to end: pairing write-through -> restart -> pairing constructor restore
        alias, pdata = _pairing_for(p["transport"], p.get("seed", 0))
        d2 = env.sub()
        fname, cpath2 = os.path.join(d2, TARGET), pathlib.Path(d2) / "cache.json"
        try:
            c1 = _controller(CharacteristicCacheFile(cpath2))
            p1 = c1.load_pairing(alias, copy.deepcopy(pdata))
            p1.restore_accessories_state(copy.deepcopy(src), cn, bkey, sn)
            c1.save_data(fname)
            v1 = _model_view(p1.accessories)
            c2 = _controller(CharacteristicCacheFile(cpath2))
            c2.load_data(fname)
            p2 = c2.aliases[alias]
        except Exception as e:  # noqa: BLE001
            return out + [(f"database:restart-raises:{type(e).__name__}", {**p, "err": str(e)[:200]})]
        if p2.accessories is None:
            out.append(("database:pairing-has-no-accessories-after-restart", dict(p)))
        else:
            df = _diff(v1, _model_view(p2.accessories))
            if df:
                out.append(("database:pairing-model-differs-after-restart", {**p, "diff": df}))
        got = {"config_num": p2.config_num, "state_num": p2.state_num, "broadcast_key": p2.broadcast_key}
        wantn = {"config_num": cn, "state_num": sn, "broadcast_key": bkey}
        df = _diff(wantn, got)
        if df:
            out.append(("database:numbers-or-broadcast-key-differ-after-restart", {**p, "diff": df}))
        # ---- a characteristic that cannot be reached for a while (a bridged device out of range: status -70402) keeps its last known value in
        # the model; a cache write that happens meanwhile (for whatever reason) does not lose it for the restart
        if not out and p2.accessories is not None:
            try:
                readable = [(a.aid, c.iid, c.value) for a in p1.accessories for s_ in a.services for c in s_.characteristics if "pr" in c.perms and c.format in ("bool", "int", "uint8", "uint16", "uint32", "uint64", "float", "string") and c.value is not None][:5]
                if readable:
                    p1.accessories.process_changes({(aid, iid): {"status": -70402} for aid, iid, _ in readable[:3]})
                    p1._callback_and_save_config_changed(cn)
                    c4 = _controller(CharacteristicCacheFile(cpath2))
                    c4.load_data(fname)
                    p4 = c4.aliases[alias]
                    for aid, iid, v in readable:
                        got = p4.accessories.aid(aid).characteristics.iid(iid).value
                        if not _same(got, v):
                            out.append(("database:last-known-value-of-an-unreachable-characteristic-lost-by-a-restart", {**p, "aid": aid, "iid": iid, "before": repr(v)[:60], "after": repr(got)[:60]}))
                            break
                    p1.accessories.process_changes({(aid, iid): {"value": v} for aid, iid, v in readable[:3]})
            except Exception as e:  # noqa: BLE001
                out.append((f"database:cache-write-with-unreachable-characteristics-raises:{type(e).__name__}", {**p, "err": str(e)[:200]}))
        # ---- BLE: the state number follows the accessory's advertisements while running (growing, rolling over 65535 -> 1, restarting low after a
        # reset); whatever was advertised last is what a restarted controller reads back
        if p["transport"] == "ble" and not out:
            from aiohomekit.controller.ble.manufacturer_data import HomeKitAdvertisement

            base = sn if isinstance(sn, int) else 0
            seq = [min(65535, base + 1), min(65535, base + 7), 65535, 1, 2, 40000, 3, 3]
            try:
                for k, x in enumerate(seq):
                    p1._async_description_update(HomeKitAdvertisement.from_cache(pdata.get("AccessoryAddress", "00:11:22:33:44:55"), pdata["AccessoryPairingID"].lower(), cn, x))
                    c3 = _controller(CharacteristicCacheFile(cpath2))
                    c3.load_data(fname)
                    got_sn = c3.aliases[alias].state_num
                    if got_sn != x:
                        out.append(("database:advertised-state-number-not-read-back-after-restart", {**p, "advertised_in_order": seq[: k + 1], "read_back": got_sn}))
                        break
            except Exception as e:  # noqa: BLE001
                out.append((f"database:state-number-update-raises:{type(e).__name__}", {**p, "err": str(e)[:200]}))
    return out


# ================================================================ (3) cache corruption
def _cache_files(seed):
    """name -> (bytes of a valid cache file written by the library itself, id of one pairing in it)."""
    from aiohomekit.characteristic_cache import CharacteristicCacheFile

    tiny = [{"aid": 1, "services": [{"iid": 1, "type": "43", "characteristics": [{"type": "25", "iid": 2, "perms": ["pr", "pw"], "format": "bool", "value": True}]}]}]
    uni = [{"aid": 1, "services": [{"iid": 1, "type": "3E", "characteristics": [{"type": "23", "iid": 2, "perms": ["pr"], "format": "string", "value": "Küche ☃ 😀"}]}]}]
    specs = {
        "tiny": [("AA:BB:CC:DD:EE:01", 1, tiny, None, None)],
        "unicode": [("AA:BB:CC:DD:EE:02", 7, uni, det_bytes(seed, "c20-bk").hex(), 42)],
        "empty": [],
        "two": [("AA:BB:CC:DD:EE:01", 1, tiny, None, 0), ("AA:BB:CC:DD:EE:02", 65535, uni, None, None)],
    }
    from aiohomekit.model import Accessories

    with open(os.path.join(_repo(), FIXTURES, "idevices_switch.json"), encoding="utf-8") as f:
        specs["fixture"] = [("AA:BB:CC:DD:EE:03", 3, Accessories.from_list(json.load(f)).serialize(), None, 9)]
    out = {}
    d = tempfile.mkdtemp(prefix=_SCRATCH_PREFIX, dir="/tmp")
    try:
        for name, maps in specs.items():
            path = pathlib.Path(d) / f"{name}.json"
            cf = CharacteristicCacheFile(path)
            for m in maps:
                cf.async_create_or_update_map(*copy.deepcopy(m))
            if not maps:
                cf.async_delete_map("nothing")
            out[name] = (path.read_bytes(), maps[0][0] if maps else None)
    finally:
        shutil.rmtree(d, ignore_errors=True)
    return out


def _corrupt(data, kind, pos):
    if kind == "prefix":
        return data[:pos]
    if kind == "ff":
        return data[:pos] + b"\xff" + data[pos + 1 :]
    if kind == "nul":
        return data[:pos] + b"\x00" + data[pos + 1 :]
    if kind == "nultail":
        return data[:pos] + b"\x00" * (len(data) - pos)
    if kind == "quote":
        return data[:pos] + b'"' + data[pos + 1 :]
    if kind == "quote-insert":
        return data[:pos] + b'"' + data[pos:]
    raise core.HarnessError(kind)


def _strict_parse(data):
    """Independent, strict reading of the file: ('ok', pairings dict) | ('shape',) | ('unparsable',)."""
    try:
        doc = json.loads(data.decode("utf-8"))
    except (UnicodeDecodeError, ValueError):
        return ("unparsable",)
    if isinstance(doc, dict) and isinstance(doc.get("pairings"), dict):
        return ("ok", doc["pairings"])
    return ("shape",)


def _judge_cache(env, data, hkid, p, valid):
    """The constructor must not raise; the cache must be empty or what an independent strict parser reads."""
    from aiohomekit.characteristic_cache import CharacteristicCacheFile

    d = env.sub()
    path = pathlib.Path(d) / "cache.json"
    path.write_bytes(data)
    strict = _strict_parse(data)
    if strict[0] == "shape":
        return [], "parses-with-foreign-shape:out-of-scope"
    try:
        cf = CharacteristicCacheFile(path)
    except Exception as e:  # noqa: BLE001
        return [(f"cache:constructor-raises:{type(e).__name__}", {**p, "err": str(e)[:200], "file_head": data[:48], "length": len(data)})], "raises"
    got = cf.storage_data
    if strict[0] == "ok":
        if _same(got, strict[1]):
            outcome = "still-parses:loaded"
        elif got == {}:
            outcome = "still-parses:treated-as-empty"
        else:
            return [("cache:parsable-file-loaded-differently", {**p, "diff": _diff(strict[1], got)})], "differs"
    else:
        if got != {}:
            try:
                from aiohomekit import hkjson

                tolerant = hkjson.loads(data.decode("utf-8"))["pairings"]
            except Exception:  # noqa: BLE001
                tolerant = None
            if tolerant is None or not _same(tolerant, got):
                return [("cache:unparsable-file-not-treated-as-empty", {**p, "got": repr(got)[:200], "file_head": data[:48]})], "garbage"
            outcome = "tolerant-parser-accepts:loaded"
        else:
            outcome = "unparsable:treated-as-empty"
    # start-up on top of that cache
    if hkid and (got == {} or _same(got, valid)):
        try:
            c = _controller(cf)
            pr = c.load_pairing("x", {"AccessoryPairingID": hkid, "AccessoryLTPK": "00" * 32, "iOSPairingId": "i", "iOSDeviceLTSK": "00" * 32,
                                      "iOSDeviceLTPK": "00" * 32, "AccessoryIP": "127.0.0.1", "AccessoryPort": 1, "Connection": "IP"})
            if got == {} and pr.accessories is not None:
                return [("cache:empty-cache-yet-pairing-has-accessories", dict(p))], "garbage"
        except Exception as e:  # noqa: BLE001
            return [(f"cache:startup-raises:{type(e).__name__}", {**p, "err": str(e)[:200]})], "raises"
    return [], outcome


def case_cache(p):
    """p: file (name of a small valid cache), kind (prefix|ff|nul|nultail|quote|quote-insert), pos, seed."""
    files = _cache_files(p.get("seed", 0))
    data, hkid = files[p["file"]]
    with _Env() as env:
        return _judge_cache(env, _corrupt(data, p["kind"], p["pos"]), hkid, p, _strict_parse(data)[1])[0]


def _work_cache(item, seed, tier):
    _, plist = item
    acc = core.Acc()
    files = _cache_files(seed)
    with _Env() as env:
        for p in plist:
            data, hkid = files[p["file"]]
            bad = _corrupt(data, p["kind"], p["pos"])
            v, outcome = _judge_cache(env, bad, hkid, p, _strict_parse(data)[1])
            acc.case(key=("cache", bad), outcome=f"cache:{outcome}", nontrivial=bad != data, sample={"case": "cache", "params": p},
                     symbols=("cache", f"cache:{p['kind']}", f"cache:file:{p['file']}"))
            for sig, detail in v:
                acc.violation(sig, "cache", p, detail)
            if env._n > 400:
                shutil.rmtree(env.dir, ignore_errors=True)
                os.mkdir(env.dir)
                env._n = 0
    return acc


# ---- crash states of the cache's own save
CACHE_SCENARIOS = {
    "update": ([("AA:BB:CC:DD:EE:01", 1)], ("AA:BB:CC:DD:EE:01", 2)),
    "add": ([("AA:BB:CC:DD:EE:01", 1)], ("AA:BB:CC:DD:EE:02", 5)),
    "first": ([], ("AA:BB:CC:DD:EE:01", 1)),
}


def _record_cache_save(env, scenario):
    from aiohomekit.characteristic_cache import CharacteristicCacheFile

    db = [{"aid": 1, "services": [{"iid": 1, "type": "3E", "characteristics": [{"type": "23", "iid": 2, "perms": ["pr"], "format": "string", "value": "Lämpchen"}]}]}]
    first, second = CACHE_SCENARIOS[scenario]
    d = env.sub()
    path = pathlib.Path(d) / "cache.json"
    cf = CharacteristicCacheFile(path)
    for hkid, cn in first:
        cf.async_create_or_update_map(hkid, cn, copy.deepcopy(db), None, 3)
    initial = crashfs.snapshot(d)
    cf = CharacteristicCacheFile(path)
    with crashfs.Recorder(d) as rec:
        cf.async_create_or_update_map(second[0], second[1], copy.deepcopy(db), "ab" * 32, 4)
    final = crashfs.snapshot(d)
    old = _strict_parse(initial["cache.json"])[1] if "cache.json" in initial else {}
    parsed = _strict_parse(final.get("cache.json", b""))
    # the call has returned: what it stored is in the file NOW (not later, on some other thread's schedule - a process that ends here must
    # find it after the restart)
    want = json.loads(json.dumps(cf.storage_data))
    if parsed[0] != "ok" or not _same(parsed[1], want):
        return {"initial": initial, "final": final, "log": rec.log, "old": old, "new": want,
                "violation": ("cache:save-returned-but-the-file-does-not-hold-what-was-stored", {"scenario": scenario, "file_state": parsed[0], "file_tail": final.get("cache.json", b"")[-60:], "file_operations_recorded_during_the_call": len(rec.log)})}
    new = parsed[1]
    return {"initial": initial, "final": final, "log": rec.log, "old": old, "new": new}


def _judge_cache_crash(env, rec, state, p):
    from aiohomekit.characteristic_cache import CharacteristicCacheFile

    d = env.sub()
    crashfs.materialise(state["files"], d)
    try:
        cf = CharacteristicCacheFile(pathlib.Path(d) / "cache.json")
    except Exception as e:  # noqa: BLE001
        return [(f"cache:constructor-raises-after-crash:{type(e).__name__}", {**p, "after": state["after"], "err": str(e)[:200], "file": state["files"].get("cache.json", b"")[-40:]})], "raises"
    got = cf.storage_data
    for name, ref in (("empty", {}), ("old", rec["old"]), ("new", rec["new"])):
        if _same(got, ref):
            return [], name
    return [("cache:crash-state-loads-neither-empty-old-nor-new", {**p, "after": state["after"], "got": repr(got)[:200]})], "garbage"


def case_cache_crash(p):
    with _Env() as env:
        rec = _record_cache_save(env, p["scenario"])
        if rec.get("violation"):
            return [rec["violation"]]
        if "point" not in p:
            return []
        files = crashfs.state_at(rec["initial"], rec["log"], p["point"], p.get("persist", {}))
        after = crashfs.describe(rec["log"][p["point"] - 1]) if p["point"] else "save not started"
        return _judge_cache_crash(env, rec, {"files": files, "after": after}, p)[0]


def _work_cache_crash(item, seed, tier):
    _, scenario = item
    acc = core.Acc()
    with _Env() as env:
        rec = _record_cache_save(env, scenario)
        if rec.get("violation"):
            sig, detail = rec["violation"]
            acc.case(key=("cache_crash", scenario, "save"), outcome="cache_crash:save-not-on-disk", nontrivial=True, sample={"case": "cache_crash", "params": {"scenario": scenario}}, symbols=("cache_crash", f"cache_crash:{scenario}"))
            acc.violation(sig, "cache_crash", {"scenario": scenario}, detail)
            return acc
        states, stats = crashfs.crash_states(rec["initial"], rec["log"])
        for st in states:
            p = {"scenario": scenario, "point": st["point"], "persist": st["persist"]}
            v, outcome = _judge_cache_crash(env, rec, st, p)
            acc.case(key=("cache_crash", scenario, sorted(st["files"].items())), outcome=f"cache_crash:{outcome}",
                     nontrivial=st["files"] not in (rec["initial"], rec["final"]), sample={"case": "cache_crash", "params": p},
                     symbols=("cache_crash", f"cache_crash:{scenario}"))
            for sig, detail in v:
                acc.violation(sig, "cache_crash", p, detail)
            if env._n > 400:
                shutil.rmtree(env.dir, ignore_errors=True)
                os.mkdir(env.dir)
                env._n = 0
        acc.extra["cache_crash_points_incl_every_byte"] += stats["byte_points"]
    return acc


def case_locale(p):
    """The process locale as an environment: the same round trips in a child interpreter whose locale encoding is ASCII (LC_ALL=C, no UTF-8
    mode, no locale coercion - a bare container, a systemd unit without LANG).  What is read back must not depend on it.
    p: inner = {"case": <name>, "params": {...}}"""
    import subprocess
    import sys

    inner = p["inner"]
    code = (
        "import sys, json\n"
        "sys.path[:0] = [%r, '/verif']\n"
        "import logging; logging.disable(logging.CRITICAL)\n"
        "from vt import core\n"
        "from vt.props import c20\n"
        "q = json.loads(sys.argv[1])\n"
        "v = c20.CASES[q['case']](core.unjson(q['params']))\n"
        "print('RESULT ' + json.dumps(core.jsonable(v)))\n"
    ) % _repo_root()
    env = {k: v for k, v in os.environ.items() if not k.startswith("LC_") and k not in ("LANG", "LANGUAGE", "PYTHONUTF8", "PYTHONIOENCODING")}
    env.update(LC_ALL="C", PYTHONUTF8="0", PYTHONCOERCECLOCALE="0", PYTHONHASHSEED="0", PYTHONDONTWRITEBYTECODE="1")
    r = subprocess.run([sys.executable, "-c", code, json.dumps(core.jsonable(inner))], capture_output=True, text=True, env=env, timeout=300, errors="replace")
    line = next((ln for ln in r.stdout.splitlines() if ln.startswith("RESULT ")), None)
    if line is None:
        return [("locale-ascii:round-trip-crashes", {"inner": inner["case"], "stderr_tail": r.stderr[-600:]})]
    return [("locale-ascii:" + sig, det) for sig, det in core.unjson(json.loads(line[7:]))]


def _repo_root():
    import aiohomekit

    return os.path.dirname(os.path.dirname(os.path.abspath(aiohomekit.__file__)))


CASES = {
    "locale": case_locale,
    "crash": case_crash,
    "recover": case_recover,
    "fsync_error": case_fsync_error,
    "pairings": case_pairings,
    "database": case_database,
    "cache": case_cache,
    "cache_crash": case_cache_crash,
}
from vt.props import c20_cfg as _cfg  # noqa: E402

CASES.update(_cfg.CASES)


# ================================================================ work dispatch
def _work_list(item, seed, tier):
    name, plist = item
    acc = core.Acc()
    fn = CASES[name]
    for p in plist:
        v = fn(p)
        if name == "locale":
            nontrivial, syms = True, (name, "locale:" + p["inner"]["case"])
        elif name == "fsync_error":
            nontrivial, syms = True, (name, "fsync_error:" + p["errno"])
        elif name in ("config_change", "ble_writethrough"):
            nontrivial, syms = True, (name, "config_change:" + p["transport"]) + tuple("cfg:" + x.split(":")[0] for x in p["history"])
        elif name == "pairings":
            nontrivial, syms = bool(p["members"]), (name,) + tuple(f"pairings:{m}" for m in p["members"])
        else:
            nontrivial, syms = p["db"] != "syn:struct:no-accessories", (name, "database:" + p["db"].split(":")[0], f"database:{p['transport']}")
        tag = "ok" if not v else v[0][0]
        if name == "database" and not v and _NOTES:
            tag = "ok:" + _NOTES[0]
        acc.case(key=(name, core.jsonable(p)), outcome=f"{name}:{tag}", nontrivial=nontrivial,
                 sample={"case": name, "params": p}, symbols=syms)
        for sig, detail in v:
            acc.violation(sig, name, p, detail)
    return acc


def _work(item, seed, tier):
    kind = item[0]
    if kind == "crash":
        return _work_crash(item, seed, tier)
    if kind == "cache":
        return _work_cache(item, seed, tier)
    if kind == "cache_crash":
        return _work_cache_crash(item, seed, tier)
    return _work_list(item, seed, tier)


def _chunks(name, plist, n):
    plist = list(plist)
    return [(name, plist[i : i + n]) for i in range(0, len(plist), n)]


def run(ctx):
    quick = ctx.tier == "quick"
    seed = ctx.seed
    work = []

    # ---- (1) crash points of save_data: the parent records each scenario once to learn the number of states
    scenarios = QUICK_SCENARIOS if quick else list(SCENARIOS)
    nstates = {}
    with _Env() as env:
        for sc in scenarios:
            rec = _record_save(env, sc, seed)
            states, stats = crashfs.crash_states(rec["initial"], rec["log"])
            nstates[sc] = len(states)
            # (a save of unchanged data may legitimately write nothing at all)
            ctx.require(any(op[0] == "write" for op in rec["log"]) or SCENARIOS[sc][0] == SCENARIOS[sc][1], f"recorder saw no write during save2 of {sc}")
            ctx.require(stats["byte_points"] >= len(rec["final"].get(TARGET, b"")) or not any(op[0] == "write" for op in rec["log"]), f"fewer crash points than bytes written in {sc}")
    for sc in scenarios:
        step = 120
        for lo in range(0, nstates[sc], step):
            work.append(("crash", sc, lo, min(nstates[sc], lo + step)))
    ctx.bounds["crash"] = dict(scenarios={s: dict(save1=SCENARIOS[s][0], save2=SCENARIOS[s][1], post_crash_directories=nstates[s]) for s in scenarios},
                               model="every prefix of the recorded history x every persisted prefix of unsynced bytes, deduplicated by directory content")

    # ---- (2a) pairing sets
    pool = _pool(seed)
    names = [n for n in pool if n != "ip-moved"]
    sets = [[]] + [[n] for n in pool] + [list(c) for c in itertools.combinations(names, 2)]
    if not quick:
        sets += [list(c) for c in itertools.combinations(names, 3)]
    sets.append(names)
    sets.append(list(reversed(names)))
    pl = [{"members": s, "seed": seed} for s in sets] + [{"members": s, "seed": seed, "subdir": True} for s in ([], ["ip"], names)]
    pl += [{"members": s, "seed": seed, "lifecycle": life} for life in ("shutdown-all", "shutdown-first", "close-all", "close-first") for s in ([["ip"], ["coap"], ["ble"], ["ip", "ble"], names] if quick else sets[1:])]
    work += _chunks("pairings", pl, 25)
    ctx.bounds["pairings"] = dict(pool=sorted(pool), sets="all subsets of size <= " + ("2" if quick else "3") + " + the whole pool in both orders")

    # ---- (2b) databases
    fixtures = sorted(f for f in os.listdir(os.path.join(_repo(), FIXTURES)) if f.endswith(".json"))
    usable = []
    for f in fixtures:
        try:
            with open(os.path.join(_repo(), FIXTURES, f), encoding="utf-8") as fh:
                doc = json.load(fh)
        except ValueError:
            continue
        if isinstance(doc, list) and all(isinstance(a, dict) and "aid" in a and "services" in a for a in doc):
            usable.append(f)
    ctx.require(len(usable) >= 10, f"only {len(usable)} fixtures parse as accessory lists")
    bk = det_bytes(seed, "c20-broadcast-key").hex()
    numbers = [(1, None, None), (2, 0, None), (65535, 65535, bk), (0, 1, "00" * 32), (2**32, 7, bk)]
    dl = []
    for i, f in enumerate(usable):
        combos = numbers if not quick else [numbers[i % len(numbers)]]
        for j, (cn, sn, k) in enumerate(combos):
            for t in (("ip", "coap", "ble") if not quick else (("ip", "coap", "ble")[(i + j) % 3],)):
                dl.append({"db": f"fixture:{f}", "transport": t, "config_num": cn, "state_num": sn, "bkey": k, "seed": seed})
    syn = sorted(_syn_databases())
    for i, name in enumerate(syn):
        cn, sn, k = numbers[i % len(numbers)]
        dl.append({"db": f"syn:{name}", "transport": ("ip", "coap", "ble")[i % 3], "config_num": cn, "state_num": sn, "bkey": k, "seed": seed})
    for cn, sn, k, t in itertools.product((0, 1, 65535, 2**32), (None, 0, 1, 65535), (None, bk, "00" * 32), ("ip", "coap", "ble")):
        dl.append({"db": "syn:known:temperature", "transport": t, "config_num": cn, "state_num": sn, "bkey": k, "seed": seed})
    dl.sort(key=lambda p: 0 if p["db"].startswith("fixture:hue") else 1)
    work += _chunks("database", dl, 4 if not quick else 6)
    ctx.bounds["database"] = dict(fixtures=usable, synthetic=len(syn), numbers="c# x s# x broadcast key x transport cross product on one synthetic map; rotating elsewhere" + ("" if quick else "; every fixture with 5 number triples x 3 transports"))

    # ---- (2c) the same round trips in a child interpreter with an ASCII locale
    loc = [{"inner": {"case": "pairings", "params": {"members": m, "seed": seed}}} for m in (["ip-unicode", "coap-unicode", "ip-escapes"], ["ip", "ble"], names)]
    uni_fix = [f for f in usable if any(ord(ch) > 127 for ch in open(os.path.join(_repo(), FIXTURES, f), encoding="utf-8").read())][: 2 if quick else 8]
    for f in uni_fix + usable[:1]:
        for t in ("ip", "ble", "coap")[: 1 if quick else 3]:
            loc.append({"inner": {"case": "database", "params": {"db": f"fixture:{f}", "transport": t, "config_num": 3, "state_num": 9, "bkey": bk, "seed": seed}}})
    fl = _cache_files(seed)
    for name in ("unicode", "two", "tiny"):
        loc.append({"inner": {"case": "cache", "params": {"file": name, "kind": "prefix", "pos": len(fl[name][0]), "seed": seed}}})
    work += [("locale", [q]) for q in loc]
    ctx.bounds["locale"] = dict(child_environment="LC_ALL=C PYTHONUTF8=0 PYTHONCOERCECLOCALE=0 (locale encoding ASCII)", cases=len(loc), fixtures_with_non_ascii_text=uni_fix)

    # ---- (3) cache corruption
    files = _cache_files(seed)
    cl = []
    for name in (("tiny", "unicode", "empty") if quick else sorted(files)):
        n = len(files[name][0])
        for pos in range(0, n + 1):
            cl.append({"file": name, "kind": "prefix", "pos": pos, "seed": seed})
            cl.append({"file": name, "kind": "quote-insert", "pos": pos, "seed": seed})
        for pos in range(0, n):
            for kind in ("ff", "nul", "nultail", "quote"):
                cl.append({"file": name, "kind": kind, "pos": pos, "seed": seed})
    work += _chunks("cache", cl, 150)
    for sc in CACHE_SCENARIOS:
        work.append(("cache_crash", sc))
    ctx.bounds["cache"] = dict(files={k: len(v[0]) for k, v in files.items() if not quick or k in ("tiny", "unicode", "empty")},
                               corruptions="every prefix; 0xFF / NUL / '\"' substituted at every position; '\"' inserted at every position; NUL from every position to the end",
                               cache_save_crash_scenarios=sorted(CACHE_SCENARIOS))

    # ---- (3b) the disk fails at the moment a save is made durable
    fe = [{"scenario": sc, "errno": en, "kept": k, "seed": seed} for sc in (scenarios if not quick else scenarios[:2]) for en in ("EIO", "ENOSPC", "EDQUOT") for k in (0, 1, 200, 10**6)]
    work += _chunks("fsync_error", fe, 12)

    # ---- (4) configuration changes announced to a connected pairing: what a restart reads afterwards
    work += _chunks("config_change", _cfg.plan(ctx.tier, seed), 20)
    work += _chunks("ble_writethrough", _cfg.plan_ble(ctx.tier, seed), 40)
    ctx.bounds["config_change"] = dict(alphabet=_cfg.ALPH, transports=["ip", "coap"], history_length=3 if quick else 5)

    # heavy chunks first
    order = {"fsync_error": 4, "ble_writethrough": 4, "config_change": 4, "database": 0, "crash": 1, "cache": 2, "cache_crash": 3, "pairings": 4, "locale": 1}
    work.sort(key=lambda w: order[w[0]])
    ctx.pmap(_work, work)
    ctx.exhaustive = True
    a = ctx.acc
    for name in CASES:
        if name != "recover":
            ctx.require(a.symbols[name] > 0, f"case family {name} never ran")
    ctx.require(a.extra["saves_into_post_crash_directories"] >= 1000, "recovery saves into post-crash directories not exercised")
    for sc in scenarios:
        ctx.require(a.symbols[f"crash:{sc}"] == nstates[sc], f"crash scenario {sc}: {a.symbols[f'crash:{sc}']} of {nstates[sc]} states evaluated")
    for s in ("crash:after:open", "crash:after:write", "crash:after:save not started", "cache:prefix", "cache:ff", "cache:nul", "cache:quote", "cache:nultail",
              "database:fixture", "database:syn", "database:ip", "database:coap", "database:ble", "pairings:ip", "pairings:coap", "pairings:ble", "pairings:ip-unicode"):
        ctx.require(a.symbols[s] > 0, f"symbol {s} never exercised")
    ctx.require(a.outcomes["crash:old"] + a.outcomes["crash:old=new"] > 0 and a.outcomes["crash:new"] + a.outcomes["crash:old=new"] > 0,
                "no crash state loaded the old / the new pairings: the crash model or the loader is broken")
    ctx.require(a.outcomes["cache:unparsable:treated-as-empty"] > 0 and a.outcomes["cache:still-parses:loaded"] > 0, "cache corruption leg is vacuous")
    if os.listdir("/tmp"):
        left = [x for x in os.listdir("/tmp") if x.startswith(_SCRATCH_PREFIX)]
        ctx.require(not left, f"scratch directories left behind: {left[:3]}")

"""C06, CoAP leg: the real EncryptionContext + EventResource against a reference accessory session; the fake aiocoap
context hands every request to the harness, which decides what comes back."""
from __future__ import annotations

import asyncio
import struct

from vt import explore, vloop
from vt.env import aeadspy
from vt.ref import crypto as C


class _Resp:
    def __init__(self, payload, code=None):
        from aiocoap.numbers.codes import Code

        self.payload = payload
        self.code = code or Code.CHANGED


class _Req:
    def __init__(self, loop):
        self.response = loop.create_future()


class FakeCoapCtx:
    def __init__(self, loop):
        self.loop = loop
        self.pending = []  # (_Req, message)
        self.shut = False

    def request(self, msg):
        r = _Req(self.loop)
        self.pending.append((r, msg))
        return r

    async def shutdown(self):
        self.shut = True


class _Owner:
    def __init__(self):
        self.events = []

    def event_received(self, ev):
        self.events.append(ev)


class _Info:
    def find_characteristic_by_iid(self, iid):
        return None


class _ConnStub:
    def __init__(self, enc):
        self.enc_ctx = enc
        self.owner = _Owner()
        self.info = _Info()


class _PutReq:
    def __init__(self, payload):
        self.payload = payload


def nonce(ctr):
    return struct.pack("=4xQ", ctr)


class CoapH(explore.Harness):
    ALPH = ["req", "deliver", "deliver-newest", "replay-first", "replay-last", "future", "corrupt", "err-reply", "cancel", "timer", "ev", "ev-odd", "ev-replay", "ev-replay-last", "ev-corrupt"]

    def __init__(self, p):
        from aiohomekit.controller.coap.connection import EncryptionContext, EventResource

        self.p = p
        if p.get("no_err_reply"):
            self.ALPH = [a for a in self.ALPH if a != "err-reply"]
        self.loop = vloop.VirtualLoop().install()
        self.log = aeadspy.SpyLog()
        seed = p.get("seed", 0)
        self.k_recv, self.k_send, self.k_event = C.det_bytes(seed, "coap-recv"), C.det_bytes(seed, "coap-send"), C.det_bytes(seed, "coap-event")
        self.ctx = FakeCoapCtx(self.loop)
        self.enc = EncryptionContext(aeadspy.SpyCtx(self.log, self.k_recv), aeadspy.SpyCtx(self.log, self.k_send), aeadspy.SpyCtx(self.log, self.k_event), "coap://[::1]:5683/", self.ctx)
        self.conn = _ConnStub(self.enc)
        self.events = EventResource(self.conn)
        # accessory side
        self.acc_rx = 0  # counter for requests it decrypts (controller's send key)
        self.acc_tx = 0  # counter for responses it seals (controller's recv key)
        self.acc_ev = 0
        self.sent = []  # genuine responses already delivered: (seq, ciphertext)
        self.sent_ev = []
        self.genuine = {}
        self.bad = set()
        self.tasks = []
        self.viol = []
        self.depth_used = 0
        self.n = 0

    # ---- accessory
    def _open_request(self, msg):
        pt = C.open_(self.k_send, nonce(self.acc_rx), bytes(msg.payload))
        if pt is None:
            return None
        self.acc_rx += 1
        return pt

    def _seal_response(self, body=b"", skip=0):
        self.acc_tx += skip
        pdu = struct.pack("<BBBH", 0x02, 0, 0, len(body)) + body
        ct = C.seal(self.k_recv, nonce(self.acc_tx), pdu)
        self.genuine[aeadspy.digest(ct)] = ("resp", self.acc_tx)
        self.acc_tx += 1
        return ct

    def _seal_event(self, odd=False):
        self.n += 1
        body = b""
        pdu = struct.pack("<BHH", 0, 9, len(body)) + body
        if odd:
            pdu += b"\x00"  # authentic, but the record list does not parse to its end (handling it raises after decryption)
        ct = C.seal(self.k_event, nonce(self.acc_ev), pdu)
        self.genuine[aeadspy.digest(ct)] = ("event", self.acc_ev)
        self.acc_ev += 1
        return ct

    def _prepare(self, r, msg):
        self.prepared = getattr(self, "prepared", {})
        if id(r) not in self.prepared:
            if self._open_request(msg) is None:
                self.prepared[id(r)] = None
            else:
                ct = self._seal_response()
                self.sent.append(ct)
                self.prepared[id(r)] = ct

    def _oldest(self):
        for r, msg in self.ctx.pending:
            if not r.response.done():
                return r, msg
        return None

    def menu(self):
        m = []
        old = self._oldest()
        busy = any(not t.done() for t in self.tasks)
        for a in self.ALPH:
            if a == "req":
                if len([t for t in self.tasks if not t.done()]) < 2:
                    m.append(a)
            elif a in ("deliver", "future", "corrupt", "err-reply"):
                if old:
                    m.append(a)
            elif a == "deliver-newest":
                # two requests on the wire at once (only if the session lets two callers through): their answers change places on the way back
                if len([1 for r, _ in self.ctx.pending if not r.response.done()]) >= 2:
                    m.append(a)
            elif a == "replay-first":
                if old and self.sent:
                    m.append(a)
            elif a == "replay-last":
                if old and len(self.sent) > 1:
                    m.append(a)
            elif a == "cancel":
                if busy:
                    m.append(a)
            elif a == "timer":
                if busy and self.loop.next_timer() is not None:
                    m.append(a)
            elif a in ("ev", "ev-corrupt", "ev-odd"):
                m.append(a)
            elif a == "ev-replay":
                if self.sent_ev:
                    m.append(a)
            elif a == "ev-replay-last":
                if len(self.sent_ev) > 1:
                    m.append(a)
        return m

    def take(self, i):
        from aiohomekit.controller.coap.pdu import OpCode

        label = self.menu()[i]
        self.depth_used += 1
        self.recv_before = self.enc.recv_ctr
        self.n_accepted_before = len(self.log.accepted())
        if label == "req":
            self.tasks.append(self.loop.create_task(self.enc.post(OpCode.CHAR_READ, 9, b"")))
        elif label == "deliver-newest":
            # the accessory answers in the order the requests reached it; the datagrams arrive the other way round
            waiting = [(r, msg) for r, msg in self.ctx.pending if not r.response.done()]
            for r, msg in waiting:
                self._prepare(r, msg)
            r, msg = waiting[-1]
            ct = self.prepared.pop(id(r))
            if ct is None:
                r.response.set_exception(asyncio.TimeoutError())
            else:
                r.response.set_result(_Resp(ct))
        elif label == "deliver" and id(self._oldest()[0]) in getattr(self, "prepared", {}):
            r, msg = self._oldest()
            ct = self.prepared.pop(id(r))
            if ct is None:
                r.response.set_exception(asyncio.TimeoutError())
            else:
                r.response.set_result(_Resp(ct))
        elif label == "err-reply":
            # the request is answered with a CoAP error code and a plain diagnostic payload (5.03 from a busy stack or a border router on the
            # way - or from anybody: the code of a reply is not authenticated).  The accessory may well have received and counted the request
            from aiocoap.numbers.codes import Code

            r, msg = self._oldest()
            if self.p.get("err_reply_after_receipt", True):
                self._open_request(msg)
            r.response.set_result(_Resp(b"busy", Code.SERVICE_UNAVAILABLE))
        elif label in ("deliver", "future", "corrupt", "replay-first", "replay-last"):
            r, msg = self._oldest()
            # an honest accessory only answers what it could decrypt; an attacker needs nothing
            opened = self._open_request(msg) if label in ("deliver", "future", "corrupt") else b""
            if label == "deliver":
                if opened is None:
                    r.response.set_exception(asyncio.TimeoutError())
                else:
                    ct = self._seal_response()
                    self.sent.append(ct)
                    r.response.set_result(_Resp(ct))
            elif label == "future":
                if opened is None:
                    r.response.set_exception(asyncio.TimeoutError())
                else:
                    ct = self._seal_response(skip=1)  # its previous response was lost on the way
                    self.sent.append(ct)
                    r.response.set_result(_Resp(ct))
            elif label == "corrupt":
                ct = bytearray(self._seal_response() if opened is not None else b"\x00" * 24)
                ct[3] ^= 0x20
                self.bad.add(aeadspy.digest(bytes(ct)))
                r.response.set_result(_Resp(bytes(ct)))
            else:
                ct = self.sent[0] if label == "replay-first" else self.sent[-2]
                r.response.set_result(_Resp(ct))
        elif label == "cancel":
            next(t for t in self.tasks if not t.done()).cancel()
        elif label == "timer":
            self.loop.fire_next_timer()
        elif label in ("ev", "ev-odd", "ev-replay", "ev-replay-last", "ev-corrupt"):
            if label in ("ev", "ev-odd"):
                ct = self._seal_event(odd=label == "ev-odd")
                self.sent_ev.append(ct)
                self.odd = getattr(self, "odd", set()) | ({ct} if label == "ev-odd" else set())
            elif label == "ev-replay":
                ct = self.sent_ev[0]
            elif label == "ev-replay-last":
                ct = self.sent_ev[-1]
            else:
                b = bytearray(self._seal_event())
                b[2] ^= 0x01
                ct = bytes(b)
                self.bad.add(aeadspy.digest(ct))
            t = self.loop.create_task(self.events.render_put(_PutReq(ct)))
            self.loop.run_until_idle()
            if t.done() and not t.cancelled() and t.exception() is not None and ct not in getattr(self, "odd", ()):
                self.viol.append((f"coap:event-handler-raises:{type(t.exception()).__name__}", {"label": label}))
        self.loop.run_until_idle()
        self._check()

    def _check(self):
        r = self.log.nonce_reuse()
        if r:
            self.viol.append(("coap:nonce-reused-under-one-key:send-counter-reset-to-zero" if r["nonce"] == bytes(12) else "coap:nonce-reused-under-one-key", {"nonce": r["nonce"], "send_ctr": self.enc.send_ctr}))
        acc = self.log.accepted()
        seen = set()
        last = {}
        for key, n, d in acc:
            if d in self.bad:
                self.viol.append(("coap:corrupted-message-accepted", {"nonce": n}))
            if d in self.genuine:
                kind, seq = self.genuine[d]
                if d in seen:
                    how = ""
                    if kind == "resp":
                        back = getattr(self, "recv_before", 0) - seq
                        how = f":rewind-{back}" if 1 <= back <= 5 else ":reset-to-zero"
                    self.viol.append((f"coap:genuine-{kind}-accepted-twice{how}", {"seq": seq, "recv_ctr_before": getattr(self, "recv_before", None), "recv_ctr": self.enc.recv_ctr, "event_ctr": self.enc.event_ctr}))
                seen.add(d)
                if key in last and seq <= last[key] and d not in seen - {d}:
                    pass  # same root cause as accepted-twice (reported above); a *different* genuine message accepted out of order is reported below
                if key in last and seq < last[key] and self._first_time(d, acc):
                    self.viol.append((f"coap:{kind}-accepted-out-of-order", {"seq": seq, "after": last[key]}))
                last[key] = max(seq, last.get(key, -1))

    def _first_time(self, d, acc):
        return sum(1 for _, _, x in acc if x == d) == 1

    def violations(self):
        # de-duplicate by signature within one step
        out, sigs = [], set()
        for s, d in self.viol:
            if s not in sigs:
                sigs.add(s)
                out.append((s, d))
        self.viol = []
        return out

    def finish(self):
        from aiohomekit.controller.coap.pdu import OpCode

        # two more honest exchanges (if the session still exists)
        for _ in range(2):
            if self.enc.coap_ctx is None:
                break
            t = self.loop.create_task(self.enc.post(OpCode.CHAR_READ, 9, b""))
            for _ in range(10):
                self.loop.run_until_idle()
                if t.done():
                    break
                old = self._oldest()
                if old:
                    r, msg = old
                    self._prepare(r, msg)
                    ct = self.prepared.pop(id(r))
                    if ct is None:
                        r.response.set_exception(asyncio.TimeoutError())
                    else:
                        r.response.set_result(_Resp(ct))
                elif not self.loop.fire_next_timer():
                    break
            self._check()
        return self.violations()

    def canon(self):
        e = self.enc
        from vt import canon as _c

        return (_c.canon(e, depth=1, skip=("recv_ctx", "send_ctx", "event_ctx", "coap_ctx", "lock")), e.lock.locked(), e.send_ctr, e.recv_ctr, e.event_ctr, e.coap_ctx is None, self.acc_rx, self.acc_tx, self.acc_ev, tuple((t.done(), t.cancelled()) for t in self.tasks),
                len([1 for r, _ in self.ctx.pending if not r.response.done()]), len(self.sent), len(self.sent_ev), len(getattr(self, "prepared", ())),
                tuple(sorted(round(h._when - self.loop.time(), 6) for h in self.loop._scheduled if not h._cancelled)), _c.tasks_sig(self.loop))

    def outcome(self):
        return f"send={self.enc.send_ctr},recv={self.enc.recv_ctr},ev={self.enc.event_ctr},alive={self.enc.coap_ctx is not None}"

    def close(self):
        self.loop.shutdown()


HARNESSES = {"coap": CoapH}


# ------------------------------------------------------------------------------------------------ pairing level
PAIRING_SYMS = ["read", "write", "event", "replay-event", "endpoint-change", "port-change", "same-endpoint"]


def case_coap_pairing(p):
    """A real CoAPPairing (pair-verify, session, events) against the reference accessory with a spy on the session's cipher objects, over a
    history that includes what reaches the pairing from OUTSIDE the session: mDNS updates with a changed address / port / nothing changed.
    Oracle as for the session-level harness: no (key, nonce) encrypts twice, no genuine message is accepted twice, listeners see each event once."""
    import aiohomekit.controller.coap.connection as conn_mod
    from vt.env.coaprig import CoapRig
    from vt.env.reconn import mk_description
    from vt.ref import coapacc

    log = aeadspy.SpyLog()
    real = conn_mod.ChaCha20Poly1305
    conn_mod.ChaCha20Poly1305 = lambda key: aeadspy.SpyCtx(log, key)
    rig = CoapRig(seed=p.get("seed", 0))
    out = []
    try:
        got = []
        rig.pairing.dispatcher_connect(lambda ev: got.append(dict(ev)))
        rig.run(rig.pairing.list_accessories_and_characteristics())
        sent, n = [], 0
        addr, port = "fd00::5", 5683

        class R:
            def __init__(self, payload):
                self.payload = payload

        for sym in p["history"]:
            try:
                if sym == "read":
                    rig.run(rig.pairing.get_characteristics([(1, 9)]))
                elif sym == "write":
                    rig.run(rig.pairing.put_characteristics([(1, 9, True)]))
                elif sym in ("event", "replay-event"):
                    srv = [c for c in rig.contexts if getattr(c, "root", None) is not None]
                    # events reach the controller through the server context of the session; once that is shut down nothing arrives any more
                    res = srv[-1].root._resources.get(()) if srv and not srv[-1].shut and hasattr(srv[-1].root, "_resources") else None
                    if res is None or rig.acc.session is None:
                        continue
                    if sym == "event":
                        n += 1
                        payload = rig.acc.event([(10, coapacc.pack_value(rig.acc.chars[10].format, n))])
                        sent.append(payload)
                    elif not sent:
                        continue
                    else:
                        payload = sent[0]
                    rig.run(res.render_put(R(payload)))
                else:
                    if sym == "endpoint-change":
                        addr = "fd00::6" if addr == "fd00::5" else "fd00::5"
                    elif sym == "port-change":
                        port = 5684 if port == 5683 else 5683
                    rig.pairing._async_description_update(mk_description([addr], port=port))
                    rig.loop.run_until_idle()
            except Exception as e:  # noqa: BLE001
                out.append((f"coap-pairing:raises:{type(e).__name__}:{sym}", {"history": p["history"], "err": str(e)[:160]}))
                break
            r = log.nonce_reuse()
            if r:
                out.append(("coap-pairing:nonce-reused-under-one-key", {"history": p["history"], "at": sym, "nonce": r["nonce"]}))
                break
            acc = [d for _, _, d in log.accepted()]
            if len(acc) != len(set(acc)):
                out.append(("coap-pairing:genuine-message-accepted-twice", {"history": p["history"], "at": sym}))
                break
            vals = [v.get("value") for ev in got for k, v in ev.items() if k == (1, 10)]
            if len(vals) != len(set(vals)):
                out.append(("coap-pairing:event-delivered-twice", {"history": p["history"], "at": sym, "values": vals}))
                break
    finally:
        conn_mod.ChaCha20Poly1305 = real
        rig.close()
    return out

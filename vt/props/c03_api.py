"""C03, API leg: every bounded history of pairing attempts through the public discovery API of each transport
(async_start_pairing, finish_pairing with the right / a wrong code, a link loss at every transport operation of an attempt),
against the reference accessory's pair-setup service.  The generator-level fault enumeration (c03.py) cannot see how the
transports *use* the generators: which salt / public key an attempt is built from, what a retry re-uses, what is returned."""
from __future__ import annotations

from vt.ref import crypto as C

RIGHT, WRONG = "111-22-333", "111-22-334"
SPELLINGS = {"right-nodash": "11122333", "right-halfdash": "111-22333", "right-spaces": " 111-22-333 ", "right-otherdash": "111\u201322\u2013333"}  # the right digits, spelled differently


def _judge_op(rig, op, pin, before, ret, exc, dropped):
    out = []
    new = rig.log[before:]
    det = {"transport": rig.transport, "op": op, "log": [list(x) for x in new], "raised": type(exc).__name__ if exc else None}
    right = pin == RIGHT
    if op == "start":
        return out
    if op in SPELLINGS:
        # another spelling of the right code: the library may refuse it outright (nothing sent), or normalise it - but if it does send an M3 for
        # it, that M3 has to be the right code's
        if (3, "rejected") in new:
            out.append((f"api:accepted-spelling-of-the-right-code-hashed-as-typed:{op}", det))
        if ret is not None and (5, "accepted") not in new:
            out.append(("api:pairing-returned-without-an-accepted-m5", det))
        return out
    # (1) the controller's own messages are accepted by a conformant accessory whenever it has a live exchange to judge them in
    if right:
        if (3, "rejected") in new:
            out.append(("api:m3-built-with-the-right-code-rejected-by-conformant-accessory", det))
        if (5, "rejected") in new:
            out.append(("api:m5-rejected-by-conformant-accessory", det))
    else:
        if (3, "accepted") in new:
            # the accessory (an SRP implementation of its own, holding the verifier of the RIGHT code) found the proof in order although the
            # caller typed another code: the proof was not computed from what was typed (state shared between attempts, a memo keyed too coarsely)
            out.append(("api:proof-sent-for-a-wrong-code-is-accepted-by-the-accessory", det))
    # (2) what comes back
    if ret is not None:
        if not right:
            out.append(("api:pairing-returned-for-a-wrong-code", det))
            return out
        if (5, "accepted") not in new:
            out.append(("api:pairing-returned-without-an-accepted-m5", det))
        try:
            r = ret.pairing_data
            ltsk = bytes.fromhex(r["iOSDeviceLTSK"])
            if C.ed_pub_bytes(C.ed_priv(ltsk)).hex() != r["iOSDeviceLTPK"]:
                out.append(("api:returned-ltsk-ltpk-mismatch", det))
            if r["AccessoryPairingID"].encode() != rig.ident.id or bytes.fromhex(r["AccessoryLTPK"]) != rig.ident.pk:
                out.append(("api:returned-accessory-identity-not-the-authenticated-one", det))
            if rig.controllers.get(r["iOSPairingId"].encode()) != bytes.fromhex(r["iOSDeviceLTPK"]):
                out.append(("api:accessory-registered-different-controller-key", det))
        except Exception as e:  # noqa: BLE001
            out.append((f"api:returned-data-unusable:{type(e).__name__}", dict(det, err=str(e)[:120])))
    elif right and not dropped and (3, "accepted") in new and (5, "accepted") in new:
        out.append(("api:honest-pairing-failed-after-accepted-m5", dict(det, err=str(exc)[:160])))
    elif right and not dropped and rig.transport == "ble" and not any(v == "no-live-exchange" for _, v in new):
        # BLE restarts the exchange by itself on every further attempt, so with the right code and no fault it has to get through
        out.append(("api:honest-pairing-failed", dict(det, err=str(exc)[:160])))
    return out


def case_history(p):
    """p: transport, ops: list of 'start' | 'right' | 'wrong' | 'right-drop@k' | 'start-drop@k'."""
    from vt.env.setuprig import RIGS

    rig = RIGS[p["transport"]](seed=p.get("seed", 0))
    out = []
    trace = []
    try:
        for op in p["ops"]:
            name, _, k = op.partition("-drop@")
            before = len(rig.log)
            d0 = rig.dropped
            if k:
                rig.arm_drop(int(k))
            else:
                rig.drop_at = None
                rig.ops = 0
            if name == "reset":
                rig.reset_accessory()
                trace.append((op, "done"))
                continue
            if name == "start":
                exc = rig.start()
                ret, pin = None, None
            else:
                if rig.finish_fn is None:
                    trace.append((op, "skipped"))
                    continue
                pin = RIGHT if name == "right" else SPELLINGS.get(name, WRONG)
                ret, exc = rig.finish(pin)
            dropped = rig.dropped > d0
            trace.append((op, "ret" if ret is not None else type(exc).__name__ if exc else "ok", rig.ops, dropped))
            for sig, det in _judge_op(rig, name, pin, before, ret, exc, dropped):
                out.append((sig, dict(det, trace=[list(t) for t in trace])))
            if out or (ret is not None and "reset" not in p["ops"]):
                break
        p["_trace"] = trace
        p["_ops"] = rig.ops
    finally:
        rig.close()
    return out


def case_two_pairings(p):
    """Two accessories are paired one after the other in one process (any two transports).  What the first pairing returned is the first
    accessory's record for good: the second pairing neither changes it nor shares state with it, and its own record holds nothing of the first."""
    import copy

    from vt.env.setuprig import RIGS

    out = []
    recs = []
    for k, t in enumerate(p["transports"]):
        rig = RIGS[t](seed=p.get("seed", 0) + 7 * k)
        try:
            exc = rig.start()
            ret, exc2 = rig.finish(RIGHT) if exc is None else (None, exc)
            if ret is None:
                return [("api:honest-pairing-failed", {"transport": t, "nth": k, "err": repr(exc or exc2)[:160]})]
            data = ret.pairing_data
            recs.append((t, ret, data, copy.deepcopy(dict(data)), rig.ident.id, rig.ident.pk))
        finally:
            rig.close()
        for j, (tj, rj, dj, snap, idj, pkj) in enumerate(recs):
            det = {"transports": p["transports"], "record": j, "after_pairing": k}
            if dict(dj) != snap:
                changed = sorted(x for x in set(dj) | set(snap) if dj.get(x) != snap.get(x))
                out.append(("api:record-returned-earlier-changed-by-a-later-pairing", dict(det, changed=changed)))
            if dict(rj.pairing_data) != snap:
                out.append(("api:pairing-object-no-longer-holds-its-own-record", det))
            if dj["AccessoryPairingID"].encode() != idj or bytes.fromhex(dj["AccessoryLTPK"]) != pkj:
                out.append(("api:returned-accessory-identity-not-the-authenticated-one", det))
        if k and recs[k][2] is recs[k - 1][2]:
            out.append(("api:two-pairings-return-the-same-record-object", {"transports": p["transports"]}))
        if k:
            t0, t1 = recs[k - 1][0], recs[k][0]
            own = {"ip": {"AccessoryIP", "AccessoryPort", "AccessoryIPs"}, "coap": {"AccessoryIP", "AccessoryPort"}, "ble": {"AccessoryAddress"}}
            leaked = (set(recs[k][3]) & (own[t0] - own[t1]))
            if leaked:
                out.append(("api:record-carries-fields-of-the-previous-pairing", {"transports": p["transports"], "leaked": sorted(leaked)}))
        if out:
            break
    return out


CASES = {"api_history": case_history, "two_pairings": case_two_pairings}


def op_counts(seed):
    """Number of transport operations in an honest start / finish per transport (the range of drop points)."""
    from vt.env.setuprig import RIGS

    res = {}
    for t, R in RIGS.items():
        rig = R(seed=seed)
        try:
            rig.ops = 0
            rig.start()
            ns = rig.ops
            rig.ops = 0
            ret, exc = rig.finish(RIGHT)
            if ret is None:
                raise RuntimeError(f"honest {t} pairing failed in the harness: {exc!r}")
            res[t] = (ns, rig.ops)
        finally:
            rig.close()
    return res


def histories(tier, seed):
    quick = tier == "quick"
    counts = op_counts(seed)
    for t, (ns, nf) in counts.items():
        drops = [f"right-drop@{k}" for k in range(1, nf + 1)]
        sdrops = [f"start-drop@{k}" for k in range(1, ns + 1)]
        singles = ["right", "wrong"] + drops
        # every history starts with a successful or failed start; attempts follow
        hs = []
        for a in singles:
            hs.append(["start", a])
            for b in ["right", "wrong", "start"]:
                hs.append(["start", a, b, "right"] if b == "start" else ["start", a, b])
                if b != "start":
                    hs.append(["start", a, b, "start", "right"])
        for sp in SPELLINGS:
            hs.append(["start", sp])
            hs.append(["start", sp, "start", "right"])
        for sd in sdrops:
            hs.append([sd, "start", "right"])
            hs.append([sd, "right"])
        # paired, then the accessory is factory-reset and paired again through the SAME discovery object (what an application holds per
        # advertised accessory): the second run is a pairing of its own
        for tail in (["start", "right"], ["start", "wrong"], ["start", "wrong", "start", "right"], ["right"], ["wrong"]):
            hs.append(["start", "right", "reset"] + tail)
        if not quick:
            for a in ["wrong"] + drops:
                for b in ["wrong"] + drops:
                    hs.append(["start", a, b, "right"])
                    hs.append(["start", a, "start", b, "right"])
                    hs.append(["start", a, b, "start", "right"])
        seen = set()
        for h in hs:
            if tuple(h) not in seen:
                seen.add(tuple(h))
                yield {"transport": t, "ops": h}

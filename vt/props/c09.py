"""C09 canonical request bytes: every request issued through the connection API and the pairing API is captured at the
in-memory transport (per write call), unframed by the reference accessory, and compared with an independent
canonical renderer (request line, Host, Content-Length, Content-Type iff body, CRLF, compact JSON, one transport call)."""
from __future__ import annotations

import itertools
import json
import re

from vt import core
from vt.env.iprig import IpRig, std_handler
from vt.ref import ipacc, tlv8

META = dict(
    level="exploration",
    engine="E3",
    technique="bounded-exhaustive enumeration of the request alphabet (methods x targets x bodies x connected host forms x pairing-API calls with id sets / payloads) on the real connection, captured per transport call and compared with an independent canonical renderer",
    text="every member of the cross product methods x targets x bodies {none, TLV with CR/LF bytes, nested JSON with escapes, bools, floats, unicode} x connected host {IPv4, IPv6, scoped IPv6} "
    "through get/put/post/put_json/post_json/post_tlv, and every pairing-API call (get/put characteristics over all id subsets, subscribe/unsubscribe, list accessories, identify, "
    "add/remove/list pairings, image) over secure sessions, plus the insecure pair-verify requests themselves; oracle: bytes equal the reference rendering, exactly one "
    "transport call per request, JSON without insignificant whitespace and equal to the expected object, read URL ids exactly the requested ones Also: 2..4 overlapping callers with the accessory silent on the first (each request once on the wire, canonical); ordinary reads after a sloppy call with equal ids of another type. Also the general request() entry point with the method spelled in other cases. Also whole requests passing through exact multiples of the block size one byte at a time; reads of write-only ids and of ids the database does not contain.",
    note="weakest reading: PUT/POST with an empty body may omit the content headers or send Content-Length: 0 + type; header values outside the alphabet are not covered",
    design_ref="DESIGN.md §4 C09",
    rule="a case = one request issued (low-level or pairing API) on one host form; distinct = distinct (api, arguments, host); all are non-trivial",
)

HOSTS = ["192.168.1.5", "fd00::1:2", "fe80::1%eth0"]
TARGETS = ["/accessories", "/characteristics", "/characteristics?id=1.9", "/pairings", "/resource", "/a%20b?x=1&y=2"]
OBJS = [
    {"characteristics": [{"aid": 1, "iid": 9, "value": True}]},
    {"a": "quote\" backslash\\ slash/ nl\n tab\t ctl\x01", "b": [1, 2.5, -3, 1e20, 0.1, None, False], "c": {"d": {"e": []}}},
    {"ü": "ünïcödé ✓ \U0001F600", "n": 18446744073709551615 // 2, "f": 37.0},
    [],
    {"s": " leading and trailing  spaces ", "colon": "a: b, c"},
    {"characteristics": [{"aid": 1, "iid": 6, "value": 2**64}]},  # outside the 64-bit range of the fast encoder
    {"characteristics": [{"aid": 1, "iid": 6, "value": -(2**63) - 1}, {"aid": 1, "iid": 7, "value": 2**70}]},
]
TLVS = [b"\x06\x01\x01", b"\x00\x01\x05\x06\x01\x01\r\n\r\n\x00", bytes(range(256)) + b"\x03\xff" + b"z" * 255]


def host_header(connected_host):
    return f"Host: [{connected_host}]" if ":" in connected_host else f"Host: {connected_host}"


def canonical(method, target, host, body: bytes | None, ctype):
    lines = [f"{method} {target} HTTP/1.1", host_header(host)]
    if body:
        lines += [f"Content-Length: {len(body)}", f"Content-Type: {ctype}"]
    return ("\r\n".join(lines) + "\r\n\r\n").encode() + (body or b"")


def canonical_empty_body_alt(method, target, host, ctype):
    return ("\r\n".join([f"{method} {target} HTTP/1.1", host_header(host), "Content-Length: 0", f"Content-Type: {ctype}"]) + "\r\n\r\n").encode()


def no_insignificant_ws(b: bytes):
    """True iff the JSON text has no whitespace outside strings."""
    s = b.decode("utf-8")
    in_str = False
    esc = False
    for ch in s:
        if in_str:
            if esc:
                esc = False
            elif ch == "\\":
                esc = True
            elif ch == '"':
                in_str = False
        else:
            if ch == '"':
                in_str = True
            elif ch in " \t\r\n":
                return False
    return True


class Cap:
    """Captures requests as the accessory decodes them + transport calls."""

    def __init__(self, rig):
        self.rig = rig

    def mark(self):
        conn = self.rig.net.conns[-1]
        return (conn, len(conn.session.requests), len(conn.transport.calls))

    def since(self, mark):
        conn, nreq, ncalls = mark
        return conn.session.requests[nreq:], conn.transport.calls[ncalls:], conn


def split_request(raw: bytes):
    head, _, body = raw.partition(b"\r\n\r\n")
    lines = head.split(b"\r\n")
    return lines[0].decode(), [ln.decode() for ln in lines[1:]], body


def judge_raw(raw, method, target, host, body, ctype, det):
    out = []
    want = canonical(method, target, host, body, ctype)
    if raw != want and not (not body and method in ("PUT", "POST") and raw == canonical_empty_body_alt(method, target, host, ctype)):
        rl, hdrs, b = split_request(raw)
        why = "bytes-differ"
        if rl != f"{method} {target} HTTP/1.1":
            why = "request-line"
        elif not hdrs or hdrs[0] != host_header(host):
            why = "host-header"
        elif [h.split(":")[0] for h in hdrs[1:]] not in ([], ["Content-Length", "Content-Type"]):
            why = "header-set-or-order"
        elif b != (body or b""):
            why = "body"
        elif b"\n" in raw.partition(b"\r\n\r\n")[0].replace(b"\r\n", b""):
            why = "line-endings"
        out.append((f"request-not-canonical:{why}", dict(det, got=raw[:300], want=want[:300])))
    return out


def case_lowlevel(p):
    """One rig, a list of low-level calls."""
    host = p["host"]
    rig = IpRig(seed=p.get("seed", 0), hosts=[host])
    out = []
    try:
        rig.acc.handler = lambda sess, method, target, headers, body: (200, b"\x06\x01\x02", "application/pairing+tlv8") if ("Content-Type", "application/pairing+tlv8") in headers else (200, b"{}", "application/hap+json")
        conn = rig.connect()
        cap = Cap(rig)
        # the two insecure pair-verify requests
        pv = [r for r in conn.session.requests if not r[0]]
        calls = conn.transport.calls[:2]
        for (secure, method, target, headers, body, raw), call in zip(pv, calls):
            out += judge_raw(raw, "POST", "/pair-verify", host, body, "application/pairing+tlv8", {"api": "pair-verify", "host": host})
            if call[1] != raw:
                out.append(("request-not-handed-to-transport-in-one-call", {"api": "pair-verify", "host": host}))
        if len(pv) != 2:
            out.append(("harness:pair-verify-request-count", {"n": len(pv)}))
        c = rig.conn
        for call in p["calls"]:
            api, target, arg = call["api"], call["target"], call.get("arg")
            m = cap.mark()
            if api == "get":
                coro, method, body, ctype = c.get(target), "GET", None, None
            elif api == "put":
                coro, method, body, ctype = c.put(target, arg), "PUT", arg, "application/hap+json"
            elif api == "post":
                coro, method, body, ctype = c.post(target, arg), "POST", arg, "application/pairing+tlv8"
            elif api == "put_json":
                coro, method, body, ctype = c.put_json(target, arg), "PUT", None, "application/hap+json"
            elif api == "post_json":
                coro, method, body, ctype = c.post_json(target, arg), "POST", None, "application/hap+json"
            elif api == "request":
                # the general entry point, with the method as a caller may spell it and headers of the caller's own: the request line is the
                # canonical (upper-case) one all the same
                mspell, body, hdrs = arg
                coro, method, ctype = c.request(method=mspell, target=target, headers=[tuple(h) for h in hdrs] if hdrs else None, body=body), mspell.upper(), dict(hdrs or []).get("Content-Type")
            elif api == "post_tlv":
                coro, method, body, ctype = c.post_tlv(target, [(t, bytearray(v)) for t, v in arg]), "POST", tlv8.encode(arg), "application/pairing+tlv8"
            try:
                rig.run(coro)
            except Exception as e:  # noqa: BLE001
                if not cap.since(m)[0] and not cap.since(m)[1]:
                    continue  # refused before a single byte was handed to the transport (e.g. a value the encoder cannot represent): nothing to judge
                out.append((f"request-raises:{type(e).__name__}", {"api": api, "target": target, "err": str(e)[:200]}))
                continue
            reqs, calls, conn = cap.since(m)
            det = {"api": api, "target": target, "host": host, "arg": arg if not isinstance(arg, (bytes, bytearray)) else arg[:40]}
            if len(reqs) != 1:
                out.append(("not-exactly-one-request-on-the-wire", dict(det, n=len(reqs))))
                continue
            if len(calls) != 1:
                out.append(("request-not-handed-to-transport-in-one-call", dict(det, calls=[(k, len(d)) for k, d in calls])))
            raw = reqs[0][5]
            if api in ("put_json", "post_json"):
                _, _, b = split_request(raw)
                try:
                    if json.loads(b) != json.loads(json.dumps(arg)):
                        out.append(("json-body-differs-from-object", dict(det, body=b[:200])))
                    if not no_insignificant_ws(b):
                        out.append(("json-body-has-insignificant-whitespace", dict(det, body=b[:200])))
                except ValueError:
                    out.append(("json-body-unparsable", dict(det, body=b[:200])))
                body = b
            out += judge_raw(raw, method, target, host, body, ctype, det)
            if conn.session.errors:
                out.append(("accessory-could-not-decode-request", dict(det, errors=conn.session.errors)))
                break
    finally:
        rig.close()
    p["_n"] = len(p["calls"]) + 2
    return out


def case_pairing_api(p):
    host = p["host"]
    rig = IpRig(seed=p.get("seed", 0), hosts=[host])
    out = []
    n = 0
    try:
        def handler(sess, method, target, headers, body):
            if target == "/pairings":
                return 200, tlv8.encode([(6, b"\x02"), (1, b"id1"), (3, b"k" * 32), (11, b"\x01")]), "application/pairing+tlv8"
            if target == "/resource":
                return 200, b"JPEG", "image/jpeg"
            return std_handler()(sess, method, target, headers, body)

        rig.acc.handler = handler
        rig.connect()
        cap = Cap(rig)
        pr = rig.pairing

        def issue(label, coro, expect, backpressure=False):
            """expect: list of (method, target_regex_or_str, json_obj_or_None, ctype, tlv_items_or_None)"""
            nonlocal n
            m = cap.mark()
            try:
                if backpressure:
                    proto = rig.conn.protocol
                    proto.pause_writing()
                    t_ = rig.loop.create_task(coro)
                    rig.loop.run_until_idle()
                    proto.resume_writing()

                    async def wait():
                        return await t_

                    rig.run(wait())
                else:
                    rig.run(coro)
            except Exception as e:  # noqa: BLE001
                out.append((f"api-raises:{type(e).__name__}", {"api": label, "err": str(e)[:200]}))
                return
            reqs, calls, conn = cap.since(m)
            n += 1
            det = {"api": label, "host": host}
            if len(reqs) != len(expect):
                out.append(("unexpected-number-of-requests", dict(det, got=[(r[1], r[2]) for r in reqs], want=len(expect))))
                return
            if len(calls) != len(reqs):
                out.append(("request-not-handed-to-transport-in-one-call", dict(det, calls=[(k, len(d)) for k, d in calls])))
            for (secure, method, target, headers, body, raw), (emethod, etarget, eobj, ectype, etlv) in zip(reqs, expect):
                d2 = dict(det, target=target)
                if method != emethod:
                    out.append(("wrong-method", d2))
                if callable(etarget):
                    ok = etarget(target)
                else:
                    ok = target == etarget
                if not ok:
                    out.append(("wrong-target", d2))
                if eobj is not None:
                    try:
                        if json.loads(body) != eobj(json.loads(body)) if callable(eobj) else json.loads(body) != eobj:
                            out.append(("json-body-differs-from-expected-payload", dict(d2, body=body[:200])))
                        if not no_insignificant_ws(body):
                            out.append(("json-body-has-insignificant-whitespace", dict(d2, body=body[:200])))
                    except ValueError:
                        out.append(("json-body-unparsable", dict(d2, body=body[:200])))
                if etlv is not None and body != tlv8.encode(etlv):
                    out.append(("tlv-body-differs", dict(d2, body=body[:80])))
                out.extend(judge_raw(raw, method, target, host, body, ectype, d2))

        ids_all = [(1, 9), (1, 10), (2, 9), (2, 10), (1, 2)]

        def read_target(ids):
            def chk(t):
                mm = re.fullmatch(r"/characteristics\?id=(\d+\.\d+(?:,\d+\.\d+)*)", t)
                if not mm:
                    return False
                got = [tuple(int(x) for x in part.split(".")) for part in mm.group(1).split(",")]
                return sorted(got) == sorted(set(ids)) and len(got) == len(set(ids))
            return chk

        issue("list_accessories", pr.list_accessories_and_characteristics(), [("GET", "/accessories", None, None, None)])
        for r in range(1, p["max_ids"] + 1):
            for ids in itertools.combinations(ids_all, r):
                issue(f"get_characteristics{list(ids)}", pr.get_characteristics(list(ids)), [("GET", read_target(ids), None, None, None)])
        # ids whose characteristics the listed database knows as write-only (identify, a timed-write target), alone and among readable ones,
        # and ids the database does not contain at all: the request names exactly what the caller asked for (what the accessory answers is
        # its business)
        for ids in ([(1, 3)], [(1, 11)], [(1, 3), (1, 9)], [(1, 9), (1, 11), (1, 10)], [(1, 12), (1, 3), (1, 11)], [(7, 77)], [(1, 9), (7, 77), (1, 3)]):
            issue(f"get_characteristics:not-readable-or-unknown{ids}", pr.get_characteristics(list(ids)), [("GET", read_target(ids), None, None, None)])
        # what the caller may pass as ids: any iterable (the declared type), also single-pass ones
        KINDS = {
            "tuple": tuple, "generator": lambda x: (i for i in x), "iterator": iter, "dict-keys": lambda x: dict.fromkeys(x).keys(),
            "map": lambda x: map(tuple, [list(i) for i in x]), "reversed": lambda x: reversed(list(reversed(x))), "frozenset": frozenset,
        }
        for kind, mk in KINDS.items():
            for ids in ([(1, 9)], [(1, 9), (2, 9), (1, 10)]):
                issue(f"get_characteristics:{kind}{ids}", pr.get_characteristics(mk(ids)), [("GET", read_target(ids), None, None, None)])
            w = [(1, 10, 3), (2, 9, True)]
            if kind != "frozenset":
                issue(f"put_characteristics:{kind}", pr.put_characteristics(mk(w)), [("PUT", "/characteristics", {"characteristics": [{"aid": a, "iid": b, "value": x} for a, b, x in w]}, "application/hap+json", None)])
            subs = [(1, 9), (1, 10)]
            body = lambda ev: {"characteristics": [{"aid": a, "iid": b, "ev": ev} for a, b in subs]}  # noqa: E731
            same = lambda ev: (lambda got: {"characteristics": sorted(got["characteristics"], key=lambda c: (c["aid"], c["iid"]))} if sorted(got.get("characteristics", []), key=lambda c: (c["aid"], c["iid"])) == body(ev)["characteristics"] else body(ev))  # noqa: E731
            issue(f"subscribe:{kind}", pr.subscribe(mk(subs)), [("PUT", "/characteristics", (lambda got: got if sorted(got.get("characteristics", []), key=lambda c: (c["aid"], c["iid"])) == body(True)["characteristics"] else None), "application/hap+json", None)])
            issue(f"unsubscribe:{kind}", pr.unsubscribe(mk(subs)), [("PUT", "/characteristics", (lambda got: got if sorted(got.get("characteristics", []), key=lambda c: (c["aid"], c["iid"])) == body(False)["characteristics"] else None), "application/hap+json", None)])
        # one long-lived container that the caller keeps and edits between calls (a poller's set of ids): every request shows what it holds NOW
        for mk_c, edit in ((set, lambda c, x, add: c.add(x) if add else c.discard(x)), (list, lambda c, x, add: c.append(x) if add else c.remove(x)),
                           (dict.fromkeys, lambda c, x, add: c.__setitem__(x, None) if add else c.pop(x))):
            live = mk_c([(1, 9), (2, 9)])
            now = [(1, 9), (2, 9)]
            for step_, (x, add) in enumerate([((1, 10), True), ((1, 9), False), ((2, 10), True), ((1, 10), False), ((1, 9), True)]):
                issue(f"get_characteristics:kept-{type(live).__name__}:step{step_}", pr.get_characteristics(live), [("GET", read_target(list(now)), None, None, None)])
                edit(live, x, add)
                now = now + [x] if add else [i for i in now if i != x]
            issue(f"get_characteristics:kept-{type(live).__name__}:last", pr.get_characteristics(live), [("GET", read_target(list(now)), None, None, None)])
            issue(f"get_characteristics:fresh-list-after-kept-{type(live).__name__}", pr.get_characteristics(list(now)), [("GET", read_target(list(now)), None, None, None)])
        # the transport applies back-pressure (its write buffer is above the high-water mark) while a request is issued, and lifts it later: the
        # request still reaches the transport in one piece
        issue("get:issued-under-write-back-pressure", pr.get_characteristics([(1, 9), (1, 10)]), [("GET", read_target([(1, 9), (1, 10)]), None, None, None)], backpressure=True)
        issue("put-3-blocks:issued-under-write-back-pressure", pr.put_characteristics([(1, 9, "x" * 2500)]),
              [("PUT", "/characteristics", {"characteristics": [{"aid": 1, "iid": 9, "value": "x" * 2500}]}, "application/hap+json", None)], backpressure=True)
        # a sloppy caller first (ids that are numerically equal but of another type: floats from a config file, a bool) - only ITS request may
        # look odd; the ordinary reads that follow are rendered as ever
        hx = HOSTS.index(host) if host in HOSTS else 7
        for j, (mk, clean) in enumerate((
            (lambda a, i: [(float(a), float(i))], lambda a, i: [(a, i)]),
            (lambda a, i: [(a, float(i)), (float(a), i + 1)], lambda a, i: [(a, i), (a, i + 1)]),
            (lambda a, i: [(True, i)], lambda a, i: [(1, i)]),
        )):
            # (ids nobody in this process has read before: whatever the library remembers about an id, it learns it from the sloppy call)
            a, i = 3 + hx, 70 + 10 * j
            try:
                rig.run(pr.get_characteristics(mk(a, i)))
            except Exception:  # noqa: BLE001
                if not rig.pairing.is_connected:
                    rig.connect()
            ids_ = clean(a, i)
            issue(f"get_characteristics:after-a-sloppy-call-{j}", pr.get_characteristics(list(ids_)), [("GET", read_target(ids_), None, None, None)])
        issue("get_characteristics-dup", pr.get_characteristics([(1, 9), (1, 9), (1, 10)]), [("GET", read_target([(1, 9), (1, 10)]), None, None, None)])
        issue("get_characteristics-set", pr.get_characteristics({(2, 9), (1, 10)}), [("GET", read_target([(2, 9), (1, 10)]), None, None, None)])
        vals = [True, False, 0, 37, -5, 2.5, "text with \"quotes\" and ü", 1e3]
        for i, v in enumerate(vals):
            w = [(1, 9, v)] if i % 2 == 0 else [(1, 10, v), (2, 9, v)]
            issue(f"put_characteristics{w}", pr.put_characteristics(w), [("PUT", "/characteristics", {"characteristics": [{"aid": a, "iid": b, "value": json.loads(json.dumps(x))} for a, b, x in w]}, "application/hap+json", None)])
        for subs in ([(1, 9)], [(1, 9), (1, 10)], [(1, 9), (2, 9)], [(2, 10), (1, 10), (2, 9)]):
            groups = [[x for x in subs if x[0] == aid] for aid in dict.fromkeys(a for a, _ in subs)]
            # one request per accessory id (consecutive runs)
            runs = [list(g) for _, g in itertools.groupby(subs, key=lambda x: x[0])]
            issue(f"subscribe{subs}", pr.subscribe(subs), [("PUT", "/characteristics", {"characteristics": [{"aid": a, "iid": b, "ev": True} for a, b in run]}, "application/hap+json", None) for run in runs])
            issue(f"unsubscribe{subs}", pr.unsubscribe(subs), [("PUT", "/characteristics", {"characteristics": [{"aid": a, "iid": b, "ev": False} for a, b in run]}, "application/hap+json", None) for run in runs])
        issue("identify", pr.identify(), [("PUT", "/characteristics", {"characteristics": [{"aid": 1, "iid": 3, "value": True}]}, "application/hap+json", None)])
        issue("list_pairings", pr.list_pairings(), [("POST", "/pairings", None, "application/pairing+tlv8", [(6, b"\x01"), (0, b"\x05")])])
        issue("add_pairing", pr.add_pairing("new-ctl", "ab" * 32, "User"), [("POST", "/pairings", None, "application/pairing+tlv8", [(6, b"\x01"), (0, b"\x03"), (1, b"new-ctl"), (3, bytes.fromhex("ab" * 32)), (11, b"\x00")])])
        issue("add_pairing-admin", pr.add_pairing("adm", "cd" * 32, "Admin"), [("POST", "/pairings", None, "application/pairing+tlv8", [(6, b"\x01"), (0, b"\x03"), (1, b"adm"), (3, bytes.fromhex("cd" * 32)), (11, b"\x01")])])
        issue("image", pr.image(1, 640, 480), [("POST", "/resource", {"aid": 1, "resource-type": "image", "image-width": 640, "image-height": 480}, "application/hap+json", None)])
        issue("remove_pairing-other", pr.remove_pairing("someone-else"), [("POST", "/pairings", None, "application/pairing+tlv8", [(6, b"\x01"), (0, b"\x04"), (1, b"someone-else")])])
    finally:
        rig.close()
    p["_n"] = n
    return out


def case_reconnect_host(p):
    """The accessory advertises two addresses; the first connection lands on one, after a drop the next lands on the other:
    every request must carry the Host header of the connection it is sent on."""
    hosts = p["hosts"]
    rig = IpRig(seed=p.get("seed", 0), hosts=hosts)
    out = []
    n = 0
    try:
        rig.acc.handler = std_handler()
        order = list(p["order"])
        rig.net.auto = lambda att: ("ok", order.pop(0) if order else att["hosts"][0])
        rig.connect()
        for k in range(len(p["order"])):
            conn = rig.net.conns[-1]
            rig.run(rig.pairing.get_characteristics([(1, 9)]))
            rig.run(rig.pairing.put_characteristics([(1, 9, True)]))
            for secure, method, target, headers, body, raw in conn.session.requests:
                n += 1
                det = {"api": "reconnect_host", "connected_host": conn.host, "hosts": hosts, "round": k, "target": target}
                ctype = "application/pairing+tlv8" if target == "/pair-verify" else "application/hap+json"
                out += judge_raw(raw, method, target, conn.host, body, ctype, det)
            if out:
                break
            if k + 1 < len(p["order"]):
                conn.peer_close()
                rig.loop.run_until_idle()
                rig.run(rig.pairing._ensure_connected())
                if rig.net.conns[-1] is conn:
                    out.append(("harness:no-reconnect", {}))
    finally:
        rig.close()
    p["_n"] = n
    return out


def case_discovery_api(p):
    """Unpaired operations through IpDiscovery (identify, pair-setup M1/M3/M5) on the plain connection used before pairing; afterwards the new
    pairing's first verified requests.  API operations never have an empty body on this tree, so the strict form is demanded here."""
    from vt import vloop
    from vt.env import pairdrv
    from vt.env.iprig import StubController
    from vt.env.reconn import mk_description

    host = p["host"]
    loop = vloop.VirtualLoop().install()
    net = vloop.SimNet(loop)
    out = []
    n = 0
    with vloop.patched_network(net), pairdrv.pinned_keys(f"c09disc|{p.get('seed', 0)}"), pairdrv.pinned_srp(int.from_bytes(b"c09-srp-a-secret", "big")):
        try:
            from aiohomekit.controller.ip.discovery import IpDiscovery

            acc = ipacc.Accessory(p.get("seed", 0))
            acc.handler = lambda sess, method, target, headers, body: (204, b"", None) if target == "/identify" else std_handler()(sess, method, target, headers, body)
            net.auto = lambda att: ("ok", att["hosts"][0])
            sessions = []
            orig = net.accept

            def accept(att, h=None):
                c = orig(att, h)
                sess = acc.new_session()
                sessions.append((c, sess))
                c.session = sess
                c.handler = lambda cc, data: [loop.call_soon(cc.send, o) for o in sess.feed(data)]
                return c

            net.accept = accept
            ctl = StubController()
            disc = IpDiscovery(ctl, mk_description([host]))
            loop.run_coro(disc.async_identify())
            finish = loop.run_coro(disc.async_start_pairing("alias"))
            pairing = loop.run_coro(finish("111-22-333"))
            pairing.description = mk_description([host])
            loop.run_coro(pairing.list_accessories_and_characteristics())
            loop.run_coro(pairing.close())
            for c, sess in sessions:
                calls = list(c.transport.calls) if c.transport else []
                if len(calls) != len(sess.requests):
                    out.append(("request-not-handed-to-transport-in-one-call", {"api": "discovery", "host": host, "calls": len(calls), "requests": len(sess.requests)}))
                for secure, method, target, headers, body, raw in sess.requests:
                    n += 1
                    ctype = "application/pairing+tlv8" if target.startswith("/pair-") else "application/hap+json"
                    det = {"api": "discovery:" + target, "host": host}
                    out += judge_raw(raw, method, target, c.host, body, ctype, det)
                    if not body and method in ("PUT", "POST") and raw != canonical(method, target, c.host, None, None):
                        out.append(("api-request-without-body-carries-content-headers", dict(det, got=raw[:200])))
            if not any(r[2] == "/identify" for _, s_ in sessions for r in s_.requests) or not any(r[2] == "/pair-setup" for _, s_ in sessions for r in s_.requests):
                out.append(("harness:discovery-requests-missing", {}))
        except Exception as e:  # noqa: BLE001
            out.append((f"discovery-api-raises:{type(e).__name__}", {"host": host, "err": str(e)[:200]}))
        finally:
            loop.shutdown()
    p["_n"] = max(1, n)
    return out


OVERLAP_POOL = [
    ("get", "/characteristics?id=1.9", None),
    ("put_json", "/characteristics", {"characteristics": [{"aid": 1, "iid": 10, "value": 7}]}),
    ("post", "/pairings", b"\x06\x01\x01\x00\x01\x05"),
    ("put_json", "/characteristics", {"characteristics": [{"aid": 2, "iid": 9, "ev": True}]}),
    ("get", "/accessories", None),
    ("post_json", "/resource", {"aid": 1, "resource-type": "image", "image-width": 64, "image-height": 48}),
]


def case_overlap(p):
    """Several callers issue different requests on one connection while the accessory is still silent on the first; the answers then come one by
    one.  Every request issued has to appear on the wire exactly once, as its own canonical bytes, handed over in one transport call."""
    host = p["host"]
    rig = IpRig(seed=p.get("seed", 0), hosts=[host])
    out = []
    try:
        rig.acc.handler = lambda sess, method, target, headers, body: (200, b"\x06\x01\x02", "application/pairing+tlv8") if ("Content-Type", "application/pairing+tlv8") in headers else (200, b"{}", "application/hap+json")
        rig.connect()
        cap = Cap(rig)
        c = rig.conn
        rig.auto_deliver = False
        m = cap.mark()
        want = []
        tasks = []
        for i in p["calls"]:
            api, target, arg = OVERLAP_POOL[i]
            if api == "get":
                coro, method, body, ctype = c.get(target), "GET", None, None
            elif api == "post":
                coro, method, body, ctype = c.post(target, arg), "POST", arg, "application/pairing+tlv8"
            elif api == "put_json":
                coro, method, body, ctype = c.put_json(target, arg), "PUT", json.dumps(arg, separators=(",", ":")).encode(), "application/hap+json"
            else:
                coro, method, body, ctype = c.post_json(target, arg), "POST", json.dumps(arg, separators=(",", ":")).encode(), "application/hap+json"
            want.append((method, target, body, ctype))
            tasks.append(rig.loop.create_task(coro))
            if p.get("stagger"):
                rig.loop.run_until_idle()
        for _ in range(4 * len(tasks) + 4):
            rig.loop.run_until_idle()
            if all(t.done() for t in tasks):
                break
            if rig.outbox:
                cc, data = rig.outbox.pop(0)
                cc.send(data)
        det = {"host": host, "calls": [OVERLAP_POOL[i][:2] for i in p["calls"]], "stagger": bool(p.get("stagger"))}
        for t in tasks:
            if not t.done():
                out.append(("overlap:caller-never-answered", det))
                t.cancel()
            elif t.exception() is not None:
                out.append((f"overlap:request-raises:{type(t.exception()).__name__}", dict(det, err=str(t.exception())[:160])))
        reqs, calls, conn = cap.since(m)
        if len(reqs) != len(want):
            out.append(("overlap:not-exactly-one-request-on-the-wire-per-call", dict(det, got=[(r[1], r[2]) for r in reqs])))
        if len(calls) != len(reqs):
            out.append(("request-not-handed-to-transport-in-one-call", dict(det, calls=[(k, len(d)) for k, d in calls])))
        left = list(want)
        for secure, method, target, headers, body, raw in reqs:
            cands = [w for w in left if canonical(*w[:2], host, *w[2:]) == raw]
            if cands:
                left.remove(cands[0])
                continue
            same = [w for w in left if (w[0], w[1]) == (method, target)]
            if same:
                out += [("overlap:" + s_, d_) for s_, d_ in judge_raw(raw, same[0][0], same[0][1], host, same[0][2], same[0][3], det)]
                left.remove(same[0])
            else:
                out.append(("overlap:bytes-on-the-wire-belong-to-no-request-still-owed", dict(det, got=raw[:200], owed=[(w[0], w[1]) for w in left])))
        if conn.session.errors:
            out.append(("accessory-could-not-decode-request", dict(det, errors=conn.session.errors)))
    finally:
        rig.close()
    p["_n"] = len(p["calls"])
    return out


CASES = {"overlap": case_overlap, "lowlevel": case_lowlevel, "pairing_api": case_pairing_api, "reconnect_host": case_reconnect_host, "discovery_api": case_discovery_api}


def _work(item, seed, tier):
    acc = core.Acc()
    name, p = item
    p = dict(p, seed=seed)
    v = CASES[name](p)
    n = p.pop("_n", 1)
    acc.case(key=(name, core.jsonable(p)), outcome=f"{name}:{'ok' if not v else v[0][0]}", sample={"case": name, "host": p["host"], "first": core.jsonable(p.get("calls", [{}])[0]) if p.get("calls") else p.get("max_ids")}, symbols=(name, "host:" + ("v4" if ":" not in p["host"] else ("scoped" if "%" in p["host"] else "v6"))))
    acc.n += n - 1
    for i in range(n - 1):
        acc.keys.add(core.h64((name, core.jsonable(p), i)))
    acc.extra["requests_checked"] += n
    for sig, detail in v:
        if sig.startswith("harness:"):
            raise core.HarnessError(f"{sig} {detail}")
        acc.violation(sig, name, p, detail)
    return acc


def run(ctx):
    quick = ctx.tier == "quick"
    work = []
    targets = TARGETS if quick else TARGETS + ["/characteristics?id=1.9,1.10&meta=1&perms=1&type=1&ev=1", "/identify", "/prepare", "/" + "x" * 300]
    hosts = HOSTS if quick else HOSTS + ["::1", "2001:db8::dead:beef", "10.0.0.255", "fe80::aede:48ff:fe00:1122%en0"]
    objs = OBJS if quick else OBJS + [{"characteristics": [{"aid": a, "iid": i, "value": v} for a in (1, 2) for i, v in ((9, True), (10, -1.5e-7), (11, "x" * 200))]}, {"k": [[[]], {}, [{}], "", 0, -0.0, 1e308]}, {"unicode": "\u2028\u2029\ud83d\ude00"}, "just a string", 12345, None, True]
    for host in hosts:
        calls = []
        for t in targets:
            calls.append({"api": "get", "target": t})
            for b in [b"", b'{"x":1}', b"\r\n\r\n"] + TLVS:
                calls.append({"api": "put", "target": t, "arg": b})
                calls.append({"api": "post", "target": t, "arg": b})
            for o in objs:
                calls.append({"api": "put_json", "target": t, "arg": o})
                calls.append({"api": "post_json", "target": t, "arg": o})
        for items in ([(6, b"\x01"), (0, b"\x05")], [(6, b"\x01"), (3, bytes(range(256)) * 2)], [(1, b"\r\n")]):
            calls.append({"api": "post_tlv", "target": "/pairings", "arg": items})
        for mspell in ("GET", "get", "Get", "PUT", "put", "Put", "POST", "post", "pOsT"):
            calls.append({"api": "request", "target": "/accessories" if mspell.upper() == "GET" else "/identify", "arg": [mspell, None, None]})
        # requests longer than one (1024 byte) and two encrypted frames: still one transport call
        for n in (1000, 1024, 1500, 2048, 3000, 5000):
            calls.append({"api": "put", "target": "/characteristics", "arg": b"x" * n})
            calls.append({"api": "put_json", "target": "/characteristics", "arg": {"characteristics": [{"aid": 1, "iid": i, "value": "v" * 20} for i in range(n // 50)]}})
        calls.append({"api": "get", "target": "/characteristics?id=" + ",".join(f"1.{i}" for i in range(400))})
        # every body length over a span wider than the header, so that the WHOLE request (line, headers, body) passes through exact multiples
        # of the 1024-byte block size of the encrypted session, one byte at a time
        for base in (1024, 2048) if quick else (1024, 2048, 3072, 4096):
            for n in range(base - 160, base - 60):
                calls.append({"api": "put", "target": "/characteristics", "arg": b"y" * n})
            for n in range(base - 120, base - 20, 1 if not quick else 2):
                calls.append({"api": "get", "target": "/characteristics?id=" + "1" * n})
        for i in range(0, len(calls), 25):
            work.append(("lowlevel", {"host": host, "calls": calls[i : i + 25]}))
        work.append(("pairing_api", {"host": host, "max_ids": 3 if quick else 5}))
        work.append(("discovery_api", {"host": host}))
    # overlapping callers: every ordered choice of 2..4 (quick: ..3, +4 on one host) different requests, issued back to back or each after the previous reached the wire/queue
    for host in hosts[:3]:
        for k in (2, 3) if quick else (2, 3, 4):
            for calls in itertools.permutations(range(len(OVERLAP_POOL)), k):
                for stagger in (False, True):
                    work.append(("overlap", {"host": host, "calls": list(calls), "stagger": stagger}))
    if quick:
        for calls in itertools.permutations(range(4), 4):
            work.append(("overlap", {"host": hosts[0], "calls": list(calls), "stagger": False}))
    for hosts in (["fd00::1:2", "192.168.1.5"], ["192.168.1.5", "fe80::1%eth0"], ["192.168.1.5", "192.168.1.6"]):
        for order in ([hosts[0], hosts[1]], [hosts[1], hosts[0], hosts[1]]):
            work.append(("reconnect_host", {"host": hosts[0], "hosts": hosts, "order": order}))
    ctx.pmap(_work, work)
    ctx.exhaustive = True
    ctx.bounds.update(hosts=hosts, targets=targets, json_objects=len(objs), id_subsets_up_to=3 if quick else 5)
    for s in ("overlap", "lowlevel", "pairing_api", "reconnect_host", "discovery_api", "host:v4", "host:v6", "host:scoped"):
        ctx.require(ctx.acc.symbols[s] > 0, f"{s} never ran")
    ctx.require(ctx.acc.extra["requests_checked"] > 200, "too few requests checked")

"""C11 one connection, no leaks: E1 deviation-bounded exploration (harness and oracle in vt/env/reconn.py)."""
from __future__ import annotations

from vt import core, explore
from vt.env import reconn

META = dict(
    level="model_checking",
    engine="E1",
    technique="stateless deviation-bounded exhaustive exploration (all executions with <= d departures from the default environment answer) of secure-session setup outcomes, peer closes of current and earlier connections, and close() at every point, against the real connection code on a virtual-time event loop",
    text="same rig as C10; the simulated accessory keeps the set of connections neither side has closed; deviations: each way secure-session setup can end "
    "(every pair-verify exception class, peer close at M1/M3, HTTP 4xx, garbage, busy), peer-initiated close of the current connection and of every earlier one at "
    "every later point, close()/shutdown() at every point; oracle at every quiescent state: open connections <= 1, the open one is the current one when "
    "connected, failed/superseded connections are closed by the controller, close() never raises and leaves none open, loss of an abandoned connection "
    "changes neither is_connected nor the current transport shutdown() is final: nothing may be open at any quiescent state after it, whatever announcements or callers arrive later (shutdown preludes); further configurations under other read-cutting / block-size / HTTP-spelling environments. BLE leg (c11_ble.py): depth-bounded exhaustive histories over {use, a second use while the first is in flight, GATT operations held in flight and released, peer drop, failing connection attempt, failing GATT disconnect, close, shutdown} on a real BlePairing: "
    "at most one GATT connection open at any moment, none after shutdown() or after a close() that no operation outlived, close()/shutdown() complete without raising. Also a secure session whose re-subscription is answered in a shape the pairing cannot digest, attempt after attempt.",
    note="bounded by deviations d and horizon as reported; accessory never closes a connection on its own unless the explorer says so (worst case for leaks)",
    design_ref="DESIGN.md §4 C11",
    rule="state = canonical (timers, connector frame locals, flags, open conns per side); transition = one environment choice; execution = run to horizon",
)

PROP = "c11:"


def H(p):
    return reconn.ReconnH(p)


def case_explore(p):
    h, menus, trace, v = explore.run_default(lambda: H(p), tuple(p.get("choices", ())))
    try:
        if not v:
            v = h.finish()
        return [(s, dict(detail=d, trace=trace)) for s, d in v if s.startswith(PROP)]
    finally:
        h.close()


CASES = {"explore": case_explore}
from vt.props import c11_ble as _c11_ble  # noqa: E402

CASES.update(_c11_ble.CASES)


def _work(item, seed, tier):
    acc = core.Acc()
    p, root, max_dev = item
    tmp = core.Acc()
    explore.explore_dev(lambda: H(p), tmp, max_dev=max_dev, case="explore", params=p, root=root)
    tmp.viol = [v for v in tmp.viol if v["signature"].startswith(PROP)]
    for k in list(tmp.viol_count):
        if not k.startswith(PROP):
            del tmp.viol_count[k]
    acc.merge(tmp)
    return acc


def plan(ctx, configs):
    work = []
    for p, d in configs:
        p = dict(p, seed=ctx.seed)
        h, menus, trace, v = explore.run_default(lambda: H(p), ())
        h.close()
        h2, menus2, trace2, _ = explore.run_default(lambda: H(p), ())
        h2.close()
        if trace != trace2:
            raise core.HarnessError("default execution is not deterministic")
        work.append((p, (), 0))
        if d >= 1:
            for i, m in enumerate(menus):
                for alt in range(1, len(m)):
                    work.append((p, tuple([0] * i + [alt]), d))
    return work


def _work_ble(item, seed, tier):
    from vt.props import c11_ble

    acc = core.Acc()
    p, root, depth = item
    explore.explore(lambda: c11_ble.BleConnH(p), acc, depth=depth, case="ble_conn", params=p, root=root, prune=True, finish=True)
    return acc


def run(ctx):
    quick = ctx.tier == "quick"
    small = dict(behaviours=["ok", "wrong-id", "auth-error", "close-m1", "bad-sig"], triggers=["zc-same", "zc-changed", "ensure", "close", "shutdown", "drop", "cancel-ensure"])
    trig = ["close", "shutdown", "drop", "drop-old", "late-lost", "ensure", "zc-same"]
    if quick:
        configs = [
            (dict(hosts=["10.0.0.1"], rounds=4, triggers=trig), 2),
            (dict(hosts=["10.0.0.1", "10.0.0.2"], rounds=4, triggers=trig, subscriptions=True), 1),
            (dict(hosts=["10.0.0.1"], rounds=3, triggers=trig, prelude=["ok|10.0.0.1|ok", "close"]), 2),
            (dict(hosts=["10.0.0.1"], rounds=3, triggers=trig, prelude=["ok|10.0.0.1|auth-error"]), 2),
            # an earlier secure connection whose close completes late (unsent data in its write buffer), closed and reopened
            (dict(hosts=["10.0.0.1"], rounds=3, triggers=trig, prelude=["ok|10.0.0.1|ok+slow-close", "close", "ensure", "ok|10.0.0.1|ok"]), 2),
            (dict(hosts=["10.0.0.1"], rounds=3, triggers=trig, prelude=["ok|10.0.0.1|bad-sig+slow-close", "timer", "ok|10.0.0.1|ok"]), 2),
            (dict(hosts=["10.0.0.1"], rounds=4, triggers=trig, subscriptions=True, env=dict(delivery="bytes", frames=[7], http="chunked-lower")), 1),
            (dict(hosts=["10.0.0.1", "10.0.0.2"], rounds=3, triggers=trig, env=dict(delivery="3/4", frames=[40], http="upper")), 1),
            # an accessory that accepts and then says nothing; close()/shutdown() while its RST is in the kernel but not yet seen by the loop
            (dict(hosts=["10.0.0.1"], rounds=4, triggers=["close+rst", "shutdown+rst", "close", "drop", "zc-same"], behaviours=["ok", "mute", "mute-m3"], preemptive_triggers=False), 2),
            # the peer drops the connection and the application closes the pairing a few loop iterations later
            (dict(hosts=["10.0.0.1"], rounds=4, triggers=["drop+close", "zc-same", "ensure"], behaviours=["ok"], prelude=["ok|10.0.0.1|ok"], preemptive_triggers=False), 2),
            # bursts of nudges while the connector sits in its back-off, then close / shutdown at every later point
            (dict(hosts=["10.0.0.1"], rounds=3, triggers=["double-nudge", "close"], prelude=["refuse"], behaviours=["ok"], preemptive_triggers=False), 3),
            # the attempt succeeds and close() / shutdown() lands k loop iterations later, k = 1..40: every point of the secure-session setup, the
            # instant the connector finishes, before and after the waiting caller wakes
            (dict(hosts=["10.0.0.1"], rounds=3, triggers=["accept+close", "ensure"], behaviours=["ok"], preemptive_triggers=False), 2),
            (dict(hosts=["10.0.0.1"], rounds=3, triggers=["accept+close"], behaviours=["ok"], subscriptions=True, prelude=["refuse", "timer"], preemptive_triggers=False), 1),
            # two callers waiting for the connection while the connector is busy, then close / shutdown
            (dict(hosts=["10.0.0.1"], rounds=4, triggers=["ensure", "close", "shutdown", "zc-same"], behaviours=["ok"], prelude=["ensure"], preemptive_triggers=False), 2),
            (dict(hosts=["10.0.0.1"], rounds=4, triggers=["ensure", "close", "shutdown"], behaviours=["ok"], prelude=["hang", "ensure"], preemptive_triggers=False), 2),
            # the accessory database is being listed (slow answer) when the pairing is closed / shut down
            (dict(hosts=["10.0.0.1"], rounds=4, triggers=["list-req", "close", "shutdown", "drop", "ensure"], behaviours=["ok"], prelude=["ok|10.0.0.1|ok", "list-req"], preemptive_triggers=False), 2),
            # a damaged pairing record: the secure session cannot be set up on the controller's side, attempt after attempt
            (dict(hosts=["10.0.0.1"], rounds=4, triggers=["zc-same", "ensure", "close", "drop"], behaviours=["ok", "mute"], damage=("AccessoryLTPK", "odd"), preemptive_triggers=False), 2),
            (dict(hosts=["10.0.0.1"], rounds=4, triggers=["zc-same", "close"], behaviours=["ok"], damage=("iOSDeviceLTSK", "nonhex"), preemptive_triggers=False), 1),
            (dict(hosts=["10.0.0.1"], rounds=4, triggers=["zc-same", "close"], behaviours=["ok"], damage=("iOSPairingId", "missing"), preemptive_triggers=False), 1),
            # subscribed and connected, then closed / shut down against a peer that resets, closes or ignores whatever close() still sends
            (dict(hosts=["10.0.0.1"], rounds=4, subscriptions=True, triggers=["close", "shutdown", "close+rst", "shutdown+rst", "drop+close", "zc-same"], behaviours=["ok", "ok-reset-on-unsubscribe", "ok-close-on-unsubscribe", "ok-mute-on-unsubscribe"], preemptive_triggers=False), 2),
            # the secure session is fine but the answer to the re-subscription is not what the pairing can digest (valid JSON of another shape):
            # attempt after attempt; whatever the owner's callback raises, the connection it was made on does not stay behind
            (dict(hosts=["10.0.0.1"], rounds=4, subscriptions=True, triggers=["zc-same", "ensure", "close", "drop"], behaviours=["ok", "ok-bad-subscribe-reply"], preemptive_triggers=False), 2),
            (dict(hosts=["10.0.0.1"], rounds=4, triggers=["zc-same", "ensure", "close", "drop"], behaviours=["ok", "bad-tag", "short-key"], preemptive_triggers=False), 2),
            # shut down (from connected / from retrying): announcements and callers keep arriving afterwards
            (dict(hosts=["10.0.0.1"], rounds=4, triggers=trig, prelude=["ok|10.0.0.1|ok", "shutdown"]), 2),
            (dict(hosts=["10.0.0.1"], rounds=4, triggers=trig, prelude=["refuse", "shutdown"]), 2),
        ]
    else:
        configs = [
            (dict(hosts=["10.0.0.1"], rounds=6, triggers=trig), 2),
            (dict(hosts=["10.0.0.1"], rounds=5, triggers=trig, behaviours=["ok", "wrong-id", "auth-error", "close-m1", "bad-sig", "http-400"]), 3),
            (dict(hosts=["10.0.0.1", "10.0.0.2"], rounds=5, triggers=trig, subscriptions=True), 2),
            (dict(hosts=["10.0.0.1"], rounds=4, triggers=trig, prelude=["ok|10.0.0.1|ok", "close"]), 3),
            (dict(hosts=["10.0.0.1"], rounds=4, triggers=trig, prelude=["ok|10.0.0.1|auth-error"]), 3),
            (dict(hosts=["10.0.0.1"], rounds=4, triggers=trig, prelude=["ok|10.0.0.1|ok+slow-close", "close", "ensure", "ok|10.0.0.1|ok"]), 3),
            (dict(hosts=["10.0.0.1"], rounds=4, triggers=trig, prelude=["ok|10.0.0.1|bad-sig+slow-close", "timer", "ok|10.0.0.1|ok"]), 3),
            (dict(hosts=["10.0.0.1", "10.0.0.2"], rounds=4, triggers=trig, prelude=["ok|10.0.0.1|wrong-id", "ok|10.0.0.2|ok", "drop"]), 2),
            (dict(hosts=["10.0.0.1"], rounds=5, triggers=trig, prelude=["ok|10.0.0.1|ok", "shutdown"]), 3),
            (dict(hosts=["10.0.0.1"], rounds=5, triggers=trig, prelude=["refuse", "shutdown"]), 3),
            (dict(hosts=["10.0.0.1"], rounds=4, triggers=trig, prelude=["ok|10.0.0.1|ok", "close", "shutdown"]), 3),
            (dict(hosts=["10.0.0.1"], rounds=4, triggers=["double-nudge", "close", "shutdown", "drop"], prelude=["refuse"], behaviours=["ok", "auth-error"]), 3),
            (dict(hosts=["10.0.0.1", "10.0.0.2"], rounds=5, triggers=["zc-same", "ensure", "close", "shutdown", "drop"], behaviours=["ok", "mute", "wrong-id"], damage=("AccessoryLTPK", "short")), 2),
            (dict(hosts=["10.0.0.1"], rounds=5, triggers=["zc-same", "ensure", "close"], behaviours=["ok"], damage=("AccessoryLTPK", "missing")), 2),
            (dict(hosts=["10.0.0.1"], rounds=5, subscriptions=True, triggers=["close", "shutdown", "close+rst", "shutdown+rst", "drop+close", "zc-same", "ensure"], behaviours=["ok", "ok-reset-on-unsubscribe", "ok-close-on-unsubscribe", "ok-mute-on-unsubscribe", "auth-error"], preemptive_triggers=False), 3),
        ]
    # BLE: the GATT connection of a BlePairing (c11_ble.py)
    from vt.props import c11_ble

    bw = []
    for bp, d in ((dict(), 6 if quick else 8), (dict(prelude=["use", "drop"], alphabet=["use", "use2", "hold", "release", "drop", "close", "shutdown", "disconnect-fails"]), 5 if quick else 7)):
        bp = dict(bp, seed=ctx.seed)
        bw += [(bp, r, d) for r in explore.roots(lambda: c11_ble.BleConnH(bp), 2)]
    ctx.pmap(_work_ble, bw)
    ctx.bounds.update(ble_leg=dict(alphabet=c11_ble.ALPH, depth=6 if quick else 8))
    work = plan(ctx, configs)
    ctx.bounds.update(configs=[dict(hosts=c["hosts"], rounds=c["rounds"], deviations=d) for c, d in configs])
    ctx.pmap(_work, work)
    ctx.exhaustive = not ctx.acc.capped
    for s in ("refuse", "timer", "ok", "close", "shutdown", "drop", "drop-old"):
        ctx.require(ctx.acc.symbols[s] > 0, f"event {s} never taken")
    ctx.require(len(ctx.acc.outcomes) >= 4, "too few distinct outcomes")

"""C07 HTTP/EVENT parsing is independent of segmentation: E2 segmentation state graph over the real
InsecureHomeKitProtocol.data_received feed loop (parser + leftover carrying)."""
from __future__ import annotations

import itertools

from vt import canon, core, explore, vloop

META = dict(
    level="model_checking",
    engine="E2",
    technique="explicit-state BFS over (stream offset, canonical parser state) of the real HTTP/EVENT feed loop: every segmentation of each enumerated message sequence is a path in the explored graph; the same for the ciphertext stream and every accessory frame-boundary choice in front of the real SecureHomeKitProtocol",
    text="for each enumerated well-formed message sequence the complete segmentation graph of InsecureHomeKitProtocol.data_received "
    "is built (edge = feed the next k bytes, for every k); every path must deliver exactly the sent messages, in order, "
    "prefix-monotonically, without raising; long streams additionally get every single (thorough: double) cut The same oracle behind the real SecureHomeKitProtocol: ciphertext segmentation graphs, single-cut sweeps and every accessory block-boundary choice. Also: the k-th response has to reach the k-th waiter; empty / tabbed / padded reason phrases. Also 204 / 304 / 100 / 207 / 404 replies with chunked (also empty) and length-prefixed bodies: the framing headers decide where a message ends, not the status code.",
    note="message sequences come from a finite grammar (kinds x codes x header casings x framings x tricky bodies); the graph per sequence is complete, "
    "the set of sequences is not all of HTTP",
    design_ref="DESIGN.md §4 C07",
    rule="state = (offset, canonical parser+protocol state, messages delivered); transition = one feed of k bytes; an evaluation = one message sequence (graph) or one cut sweep",
)


class _StubConn:
    name = "stub-connection"
    connected_host = "stub"
    hosts = ["stub"]
    port = 1
    closing = False
    owner = None

    def __init__(self, log):
        self.log = log

    def event_received(self, resp):
        self.log.append(("EVENT", resp.code, tuple(resp.headers), bytes(resp.body)))

    def _connection_lost(self, exc, *args):
        pass


class _StubFut:
    """A waiting request.  Requests are answered in the order they were queued: the k-th response belongs to the k-th waiter."""

    def __init__(self, log, idx=None, group=None):
        self.log = log
        self._done = False
        self.idx, self.group = idx, group if group is not None else []

    def done(self):
        return self._done

    def set_result(self, resp):
        self._done = True
        if self.idx is not None:
            if self.idx != len(self.group):
                self.log.append(("RESPONSE-HANDED-TO-THE-WRONG-WAITER", self.idx, len(self.group)))
            self.group.append(self.idx)
        self.log.append(("HTTP", resp.code, tuple(resp.headers), bytes(resp.body)))


def make_proto(nfut=8):
    from aiohomekit.controller.ip.connection import InsecureHomeKitProtocol

    log = []
    p = InsecureHomeKitProtocol(_StubConn(log))
    group = []
    p.result_cbs = type(p.result_cbs)(_StubFut(log, i, group) for i in range(nfut))
    p._vt_log = log
    return p


def canon_resp(r):
    # generic walk over __dict__: any state a refactoring adds to the parser is part of the canonical state
    return canon.canon(r)


def canon_proto(p):
    return (canon_resp(p.current_response), len(p.result_cbs), canon.canon(p, depth=1, skip=("connection", "result_cbs", "current_response", "loop", "transport")))


def observe(p):
    return tuple(p._vt_log)


def feed(p, data):
    p.data_received(data)


# ------------------------------------------------------------------ message grammar (reference renderer)
def render(msg):
    """msg: dict(kind, code, reason, headers=[(name,value)], framing='cl'|'chunked'|'none', body=bytes, chunks=[sizes])
    -> (wire bytes, expected observation tuple)."""
    kind = msg["kind"]
    out = f"{kind} {msg['code']} {msg['reason']}\r\n".encode()
    hdrs = list(msg.get("headers", []))
    body = msg.get("body", b"")
    wire_body = b""
    if msg["framing"] == "cl":
        hdrs.append((msg.get("cl_name", "Content-Length"), str(len(body))))
        wire_body = body
    elif msg["framing"] == "chunked":
        hdrs.append((msg.get("te_name", "Transfer-Encoding"), "chunked"))
        pos = 0
        sizes = list(msg["chunks"])
        i = 0
        while pos < len(body):
            n = sizes[min(i, len(sizes) - 1)]
            chunk = body[pos : pos + n]
            fmt = "%X" if msg.get("upper_hex") else "%x"
            wire_body += (fmt % len(chunk)).encode() + b"\r\n" + chunk + b"\r\n"
            pos += len(chunk)
            i += 1
        wire_body += b"0\r\n\r\n"
    else:
        body = b""
    for k, v in hdrs:
        out += f"{k}:{msg.get('sep', ' ')}{v}\r\n".encode()
    out += b"\r\n" + wire_body
    exp = ("HTTP" if kind.startswith("HTTP") else "EVENT", msg["code"], tuple((k.strip().title(), v.strip()) for k, v in hdrs), bytes(body))
    return out, exp


BODIES = [
    b"",
    b"x",
    b'{"characteristics":[{"aid":1,"iid":9,"value":true}]}',
    b"line1\r\nline2\r\n",
    b"0\r\n\r\n",
    b"ab\r\n0\r\n\r\ncd",
    b"1f\r\nHTTP/1.1 200 OK\r\n\r\n",
    b"\r\n",
    b"\r",
    bytes(range(256))[:40],
]
CODES = {200: "OK", 204: "No Content", 207: "Multi-Status", 470: "Connection Authorization Required"}


def corpus(tier, seed):
    msgs = []
    ctype = ("Content-Type", "application/hap+json")
    # fixed-length
    for b in BODIES:
        msgs.append(dict(kind="HTTP/1.1", code=200, reason="OK", headers=[ctype], framing="cl", body=b))
        msgs.append(dict(kind="EVENT/1.0", code=200, reason="OK", headers=[ctype], framing="cl", body=b))
    # body-less
    for code in (204, 470, 200):
        msgs.append(dict(kind="HTTP/1.1", code=code, reason=CODES[code], headers=[], framing="none"))
    msgs.append(dict(kind="HTTP/1.1", code=204, reason="No Content", headers=[("Date", "x")], framing="none"))
    msgs.append(dict(kind="HTTP/1.1", code=204, reason="No Content", headers=[], framing="cl", body=b""))
    # header casings / spacing
    msgs.append(dict(kind="HTTP/1.1", code=207, reason="Multi-Status", headers=[("content-type", "application/hap+json")], framing="cl", cl_name="content-length", body=BODIES[2]))
    msgs.append(dict(kind="HTTP/1.1", code=200, reason="OK", headers=[("CONTENT-TYPE", "a/b")], framing="cl", cl_name="CONTENT-LENGTH", sep="", body=b"hello"))
    msgs.append(dict(kind="HTTP/1.1", code=200, reason="OK with spaces in reason", headers=[("X-A", "v: with colon"), ("X-B", "  padded  ")], framing="cl", body=b"zz"))
    # chunked
    for b in BODIES[1:]:
        for chunks in ([1], [2, 3], [len(b) or 1], [16]):
            msgs.append(dict(kind="HTTP/1.1", code=200, reason="OK", headers=[ctype], framing="chunked", body=b, chunks=chunks))
    msgs.append(dict(kind="HTTP/1.1", code=200, reason="OK", headers=[], framing="chunked", te_name="transfer-encoding", body=b"A" * 26, chunks=[10, 16], upper_hex=True))
    # spellings the grammar allows and lazy parsers forget: upper-case hex digits in chunk sizes, no blank / a tab / several blanks behind the colon
    # of a header, a header with an empty value
    for sizes_ in ([26], [27, 59, 95], [171, 10]):
        msgs.append(dict(kind="HTTP/1.1", code=200, reason="OK", headers=[ctype], framing="chunked", body=bytes(range(65, 91)) * 8, chunks=sizes_, upper_hex=True))
        msgs.append(dict(kind="EVENT/1.0", code=200, reason="OK", headers=[ctype], framing="chunked", body=bytes(range(65, 91)) * 8, chunks=sizes_))
    for sep_ in ("", "\t", "   "):
        msgs.append(dict(kind="HTTP/1.1", code=200, reason="OK", headers=[ctype, ("X-Empty", "")], framing="cl", sep=sep_, body=b'{"a":1}'))
        msgs.append(dict(kind="EVENT/1.0", code=200, reason="OK", headers=[("X-Time", "12: 30"), ctype], framing="chunked", sep=sep_, body=b'{"a":1}', chunks=[3]))
    # an empty reason phrase (legal: "HTTP/1.1 204 " + CRLF), a reason with a tab and with trailing blanks
    msgs.append(dict(kind="HTTP/1.1", code=204, reason="", headers=[], framing="none"))
    msgs.append(dict(kind="HTTP/1.1", code=200, reason="", headers=[ctype], framing="cl", body=b"ok"))
    msgs.append(dict(kind="EVENT/1.0", code=200, reason="", headers=[ctype], framing="cl", body=BODIES[2]))
    msgs.append(dict(kind="HTTP/1.1", code=200, reason="Fine\tand  dandy ", headers=[ctype], framing="cl", body=b"ok"))
    msgs.append(dict(kind="HTTP/1.1", code=200, reason="OK", headers=[], framing="chunked", body=b"", chunks=[1]))
    msgs.append(dict(kind="EVENT/1.0", code=200, reason="OK", headers=[ctype], framing="chunked", body=BODIES[2], chunks=[7]))
    singles = [[m] for m in msgs]
    # pairs / triples: every ordered pair over a representative subset (covers leftover carrying between every framing kind)
    reps = [msgs[2], msgs[5], msgs[20], msgs[23], msgs[9], next(m for m in msgs if m["framing"] == "chunked" and m["body"] == BODIES[5] and m["chunks"] == [2, 3]), msgs[-1], msgs[-2]]
    pairs = [[a, b] for a in reps for b in reps]
    triples = [[a, b, c] for a in reps[:5] for b in reps[3:7] for c in reps[:4]]
    if tier == "quick":
        k = seed % 3
        seqs = singles[k::3] + pairs[k::3] + triples[k::8]
        seqs = [s for s in seqs if sum(len(render(m)[0]) for m in s) <= 220][:110]
        # always include the nastiest ones
        seqs += [[r] for r in reps] + [[reps[5], reps[1]], [reps[4], reps[5], reps[2]], [reps[6], reps[5]]]
        # chunked messages whose chunks are much longer than the 5-byte terminator (state kept across reads inside a chunk must not outlive it)
        big_chunks = [m for m in msgs if m["framing"] == "chunked" and len(m.get("body", b"")) >= 26 and max(m["chunks"]) >= 10]
        seqs += [[m] for m in big_chunks[:3]] + [[big_chunks[0], reps[1]]]
        variants = [m for m in msgs if any(k_ in m for k_ in ("upper_hex", "sep", "cl_name", "te_name"))]
        seqs += [[m] for m in variants if len(render(m)[0]) <= 400] + [[variants[0], reps[1]], [variants[-1], variants[1]]]
    else:
        seqs = singles + pairs + triples
        seqs = [s for s in seqs if sum(len(render(m)[0]) for m in s) <= 260]
    return seqs


def _wire(seq):
    data, exp = b"", []
    for m in seq:
        w, e = render(m)
        data += w
        exp.append(e)
    return data, tuple(exp)


def case_graph(p):
    seq = p["seq"]
    for m in seq:
        for k in ("body",):
            if k in m and not isinstance(m[k], (bytes, bytearray)):
                m[k] = bytes(m[k])
        m["headers"] = [tuple(h) for h in m.get("headers", [])]
    stream, sent = _wire(seq)
    loop = vloop.VirtualLoop().install()
    try:
        g = explore.seg_graph(lambda: make_proto(len(sent) + 2), feed, canon_proto, observe, stream, expect=sent, max_nodes=40 * (len(stream) + 1))
    finally:
        loop.shutdown()
    out = []
    n = len(stream)
    for path, err in g["errors"][:3]:
        out.append(("parser-raises-on-some-segmentation", {"segments": list(path), "error": err, "stream": stream}))
    for obs, path in g["terminal"].items():
        if obs != sent:
            out.append(("delivered-messages-differ-from-sent", {"segments": list(path), "got": obs, "sent": sent, "stream": stream}))
            break
    if not g["terminal"] and not g["errors"] and not g["capped"] and not g["stopped_early"]:
        out.append(("stream-end-unreachable", {"stream": stream}))
    p["_capped"] = g["capped"] and not out
    for obs, path in g["observations"].items():
        if obs != sent[: len(obs)]:
            out.append(("delivery-not-prefix-of-sent", {"segments": list(path), "got": obs, "stream": stream}))
            break
    p["_stats"] = (g["nodes"], g["transitions"], n)
    return out


def case_cuts(p):
    """all single (and double) cuts of a long stream."""
    seq = p["seq"]
    stream, sent = _wire(seq)
    loop = vloop.VirtualLoop().install()
    out = []
    trans = 0
    try:
        n = len(stream)
        cuts = [(c,) for c in range(1, n)]
        if p.get("double"):
            step = p.get("step", 1)
            cuts += [(a, b) for a in range(1, n, step) for b in range(a + 1, n, step)]
        for cs in cuts:
            pr = make_proto(len(sent) + 2)
            pos = 0
            try:
                for c in cs + (n,):
                    pr.data_received(stream[pos:c])
                    pos = c
                    trans += 1
                    if p.get("gap"):
                        loop._vtime += p["gap"]  # the stream stalls for that long before the next bytes arrive: time is not part of the grammar
                    if observe(pr) != sent[: len(observe(pr))]:
                        raise AssertionError("not prefix")
            except Exception as e:  # noqa: BLE001
                out.append(("long-stream-cut-fails", {"cuts": list(cs), "error": f"{type(e).__name__}: {e}"}))
                break
            if observe(pr) != sent:
                out.append(("long-stream-cut-differs", {"cuts": list(cs), "got_n": len(observe(pr))}))
                break
    finally:
        loop.shutdown()
    p["_stats"] = (0, trans, len(stream))
    return out


def case_abandoned(p):
    """One of the waiting requests has been given up (its caller was cancelled / timed out) but its answer still arrives, in front of more
    traffic.  The answer to the abandoned request goes nowhere; everything after it is delivered as if nothing had happened: the following
    responses to the waiters behind it, the events to the owner - under every single cut of the stream."""
    seq = p["seq"]
    gone = set(p["abandoned"])  # indices among the HTTP responses of the stream
    stream, sent = _wire(seq)
    want, k = [], 0
    for m in sent:
        if m[0] == "HTTP":
            if k not in gone:
                want.append((k,) + tuple(m))
            k += 1
        else:
            want.append((None,) + tuple(m))
    loop = vloop.VirtualLoop().install()
    out, trans = [], 0
    try:
        n = len(stream)
        for cs in [()] + [(c,) for c in range(1, n)]:
            from aiohomekit.controller.ip.connection import InsecureHomeKitProtocol

            log = []

            class Owner(_StubConn):
                def event_received(self_, resp):
                    log.append((None, "EVENT", resp.code, tuple(resp.headers), bytes(resp.body)))

            class Fut:
                def __init__(self_, i):
                    self_.i, self_._done = i, i in gone

                def done(self_):
                    return self_._done

                def set_result(self_, resp):
                    self_._done = True
                    log.append((self_.i, "HTTP", resp.code, tuple(resp.headers), bytes(resp.body)))

            pr = InsecureHomeKitProtocol(Owner(log))
            pr.result_cbs = type(pr.result_cbs)(Fut(i) for i in range(k))
            pos = 0
            try:
                for c in cs + (n,):
                    pr.data_received(stream[pos:c])
                    pos = c
                    trans += 1
            except Exception as e:  # noqa: BLE001
                out.append(("answer-to-an-abandoned-request-breaks-what-follows:raises", {"cuts": list(cs), "abandoned": sorted(gone), "error": f"{type(e).__name__}: {e}"[:160]}))
                break
            if log != want:
                out.append(("answer-to-an-abandoned-request-breaks-what-follows:delivered-differs", {"cuts": list(cs), "abandoned": sorted(gone), "got": [(x[0], x[1], x[2]) for x in log], "want": [(x[0], x[1], x[2]) for x in want]}))
                break
    finally:
        loop.shutdown()
    p["_stats"] = (0, trans, len(stream))
    return out


def case_reads(p):
    """Large messages (the size of an /accessories document) under coarse segmentations: fixed read sizes, one read per message, whole stream."""
    seq = p["seq"]
    stream, sent = _wire(seq)
    n = len(stream)
    ends = []
    pos = 0
    for m in seq:
        pos += len(render(dict(m, headers=[tuple(h) for h in m.get("headers", [])], body=bytes(m.get("body", b""))))[0])
        ends.append(pos)
    plans = [("whole", [n]), ("per-message", [b - a for a, b in zip([0] + ends, ends)]), ("halves", [n // 2, n - n // 2])]
    plans += [(f"reads-of-{k}", [k] * (n // k) + ([n % k] if n % k else [])) for k in p["read_sizes"]]
    plans += [(f"first-{k}-then-rest", [k, n - k]) for k in p["read_sizes"] if k < n]
    loop = vloop.VirtualLoop().install()
    out = []
    trans = 0
    try:
        for name, sizes in plans:
            pr = make_proto(len(sent) + 2)
            pos = 0
            try:
                for k in sizes:
                    pr.data_received(stream[pos : pos + k])
                    pos += k
                    trans += 1
            except Exception as e:  # noqa: BLE001
                out.append(("large-stream-segmentation-fails", {"segmentation": name, "stream_bytes": n, "error": f"{type(e).__name__}: {e}"[:200]}))
                break
            if observe(pr) != sent:
                out.append(("large-stream-segmentation-differs", {"segmentation": name, "stream_bytes": n, "got_n": len(observe(pr)), "sent_n": len(sent)}))
                break
    finally:
        loop.shutdown()
    p["_stats"] = (0, trans, n)
    return out


def case_secure(p):
    """The same parser behind the encrypted transport (where accessories' messages actually arrive): the message sequence is framed by the
    reference framer with the given frame sizes and every segmentation of the *ciphertext* (complete graph for small streams, else every
    single cut) plus every frame-boundary choice is explored on the real SecureHomeKitProtocol; c05's machinery, this property's oracle."""
    from vt.props import c05

    q = {"msgs": p["seq"], "sizes": p.get("sizes", [1024])}
    if p["mode"] == "graph":
        v = c05.case_graph(q)
    elif p["mode"] == "cuts":
        v = c05.case_cuts(q)
    else:
        v = c05.case_framesplits(q)
    p["_stats"] = q.get("_stats", (0, 0, 0))
    return [("secure:" + sig, det) for sig, det in v]


def case_cuts_send(p):
    """Reads interleaved with the controller's own sends: an EVENT is split at every position (plain: a read boundary; secure: the accessory's
    block boundary), a request is issued between the two reads with nothing outstanding, then the rest of the EVENT, the response to that
    request and a second EVENT arrive.  Both events must be delivered and the request must complete with its response."""
    from vt import vloop
    from vt.ref import ipacc
    from vt.ref import crypto as C

    seq = p["seq"]  # [event, response, event]
    wires, exps = zip(*[render(dict(m, headers=[tuple(h) for h in m.get("headers", [])], body=bytes(m.get("body", b"")))) for m in seq])
    out = []
    nrun = 0
    a2c, c2a = C.det_bytes("c07", "a2c"), C.det_bytes("c07", "c2a")
    for k in range(1, len(wires[0])):
        loop = vloop.VirtualLoop().install()
        try:
            from aiohomekit.controller.ip.connection import InsecureHomeKitProtocol, SecureHomeKitProtocol

            log = []
            stub = _StubConn(log)
            proto = SecureHomeKitProtocol(stub, a2c, c2a) if p.get("secure") else InsecureHomeKitProtocol(stub)
            net = vloop.SimNet(loop)
            att = {"t": 0, "hosts": ["h"], "port": 1, "fut": loop.create_future(), "outcome": None}
            conn = net.accept(att, "h")
            vloop.MemTransport(loop, proto, att["fut"].result())
            loop.run_until_idle()
            if p.get("secure"):
                framer = ipacc.Framer(a2c, c2a)
                first = framer.seal_frames(wires[0][:k], [1024])
                rest = framer.seal_frames(wires[0][k:] + wires[1] + wires[2], [1024])
                first, rest = b"".join(first), b"".join(rest)
            else:
                first, rest = wires[0][:k], wires[0][k:] + wires[1] + wires[2]
            conn.send(first)
            loop.run_until_idle()
            task = loop.create_task(proto.send_bytes(b"GET /x HTTP/1.1\r\nHost: h\r\n\r\n"))
            loop.run_until_idle()
            conn.send(rest)
            loop.run_until_idle()
            nrun += 1
            events = [e for e in log if e[0] == "EVENT"]
            det = {"split_after_bytes": k, "secure": bool(p.get("secure")), "event_framing": seq[0]["framing"], "events_delivered": len(events), "request_done": task.done()}
            if events != [exps[0], exps[2]]:
                out.append(("send-between-reads:event-lost-or-altered", det))
            elif not task.done() or task.cancelled() or task.exception() is not None:
                out.append(("send-between-reads:request-not-completed-by-its-response", dict(det, err=repr(task.exception())[:120] if task.done() and not task.cancelled() else None)))
            else:
                r = task.result()
                if (r.code, bytes(r.body)) != (exps[1][1], exps[1][3]):
                    out.append(("send-between-reads:response-differs", det))
            if not task.done():
                task.cancel()
                loop.run_until_idle()
        except Exception as e:  # noqa: BLE001
            out.append((f"send-between-reads:raises:{type(e).__name__}", {"split_after_bytes": k, "secure": bool(p.get("secure")), "err": str(e)[:160]}))
        finally:
            loop.shutdown()
        if out:
            break
    p["_stats"] = (0, nrun * 3, sum(len(w) for w in wires))
    return out


CASES = {"abandoned": case_abandoned, "graph": case_graph, "cuts": case_cuts, "secure": case_secure, "cuts_send": case_cuts_send, "reads": case_reads}


def _work(item, seed, tier):
    acc = core.Acc()
    name, p = item
    v = CASES[name](p)
    nodes, trans, n = p.pop("_stats", (0, 0, 0))
    if p.pop("_capped", False):
        acc.capped.append("segmentation graph node cap hit without a violation (state depends heavily on cuts)")
    acc.states += nodes
    acc.transitions += trans
    acc.extra["stream_bytes"] += n
    if name == "secure":
        acc.extra["stream_bytes"] -= n
        acc.extra["secure_stream_bytes"] += n
    elif name == "graph" and nodes != n + 1:
        acc.extra["graphs_with_extra_nodes"] += 1
    acc.case(key=(name, core.jsonable(p)), outcome=f"{name}:{'ok' if not v else v[0][0]}", sample={"case": name, "stream": _wire(p["seq"])[0][:200]}, symbols=(name,) + ((f"secure:{p['mode']}",) if name == "secure" else ()) + tuple(f"{m['kind'][:4]}:{m['framing']}" for m in p["seq"]))
    acc.traces += 1
    for sig, detail in v:
        acc.violation(sig, name, p, detail)
    return acc


def run(ctx):
    seqs = corpus(ctx.tier, ctx.seed)
    work = [("graph", {"seq": s}) for s in seqs]
    big = dict(kind="HTTP/1.1", code=200, reason="OK", headers=[("Content-Type", "application/hap+json")], framing="cl", body=bytes((i * 13) % 256 for i in range(900)))
    bigc = dict(kind="HTTP/1.1", code=200, reason="OK", headers=[], framing="chunked", body=b"0\r\n\r\n" * 120, chunks=[255, 256, 1, 17])
    ev = dict(kind="EVENT/1.0", code=200, reason="OK", headers=[("Content-Type", "application/hap+json")], framing="cl", body=b'{"characteristics":[]}')
    work.append(("cuts", {"seq": [big, ev, bigc]}))
    r_ = lambda b_: dict(kind="HTTP/1.1", code=200, reason="OK", headers=[("Content-Type", "application/hap+json")], framing="cl", body=b_)  # noqa: E731
    for gone in ([0], [1], [0, 1], [2]):
        work.append(("abandoned", {"seq": [r_(b"first"), r_(b"second"), ev, r_(b"third")], "abandoned": gone}))
        work.append(("abandoned", {"seq": [r_(b"first"), dict(r_(b"second!"), framing="chunked", chunks=[3]), r_(b"third"), ev], "abandoned": gone}))
    small = dict(kind="HTTP/1.1", code=200, reason="OK", headers=[("Content-Type", "application/hap+json")], framing="cl", body=b'{"characteristics":[{"aid":1,"iid":9,"value":true}]}')
    smallc = dict(kind="HTTP/1.1", code=200, reason="OK", headers=[], framing="chunked", body=b"ab\r\n0\r\n\r\ncd", chunks=[2, 3])
    nobody = dict(kind="HTTP/1.1", code=204, reason="No Content", headers=[], framing="none")
    # the status code does not decide where a message ends - the framing headers the accessory sent do: 204 / 304 / 1xx replies that carry a
    # (chunked, possibly empty; or length-prefixed) body all the same, each followed by an event
    for code, reason in ((204, "No Content"), (304, "Not Modified"), (100, "Continue"), (207, "Multi-Status"), (404, "Not Found")):
        odd = dict(kind="HTTP/1.1", code=code, reason=reason, headers=[])
        for fr in (dict(framing="chunked", body=b"ab", chunks=[2]), dict(framing="chunked", body=b"", chunks=[]), dict(framing="cl", body=b"xyz"), dict(framing="chunked", body=b"abcdefgh", chunks=[3, 5])):
            work.append(("graph", {"seq": [dict(odd, **fr), ev]}))
            if code in (204, 304):
                work.append(("graph", {"seq": [ev, dict(odd, **fr), dict(odd, **fr), small]}))
    work.append(("secure", {"mode": "graph", "seq": [small, ev], "sizes": [40]}))
    work.append(("secure", {"mode": "graph", "seq": [nobody, smallc, nobody], "sizes": [9]}))
    work.append(("secure", {"mode": "cuts", "seq": [big, ev, bigc], "sizes": [1024]}))
    work.append(("secure", {"mode": "cuts", "seq": [dict(big, body=big["body"] * 3)], "sizes": [1023, 1, 1024]}))
    work.append(("secure", {"mode": "framesplits", "seq": [smallc, ev, nobody]}))
    work.append(("secure", {"mode": "framesplits", "seq": [dict(ev, framing="chunked", chunks=[7, 1, 100]), small]}))
    huge = dict(big, body=bytes((i * 31) % 256 for i in range(30000)))
    hugec = dict(bigc, body=b"0\r\n\r\n" * 6000, chunks=[4096, 1, 8191, 300])
    sizes = [1024, 4096, 16383, 16384, 16385, 32768, 65536] + ([] if ctx.tier == "quick" else [1, 7, 255, 8192, 20000, 50000])
    work.append(("reads", {"seq": [huge, ev, hugec, ev], "read_sizes": sizes}))
    work.append(("reads", {"seq": [ev, hugec, huge], "read_sizes": sizes}))
    for gap in (29.0, 31.0, 3600.0) if ctx.tier == "quick" else (1.0, 29.0, 30.0, 31.0, 61.0, 3600.0, 1e6):
        work.append(("cuts", {"seq": [ev, small, dict(ev, framing="chunked", chunks=[9, 100]), nobody], "gap": gap}))
    evc = dict(ev, framing="chunked", chunks=[7, 1, 100])
    for sec in (False, True):
        work.append(("cuts_send", {"seq": [ev, small, ev], "secure": sec}))
        work.append(("cuts_send", {"seq": [evc, smallc, evc], "secure": sec}))
    if ctx.tier == "thorough":
        work.append(("secure", {"mode": "graph", "seq": [ev, smallc, small], "sizes": [16, 1, 64]}))
        work.append(("secure", {"mode": "graph", "seq": [small, small], "sizes": [1024]}))
        work.append(("secure", {"mode": "framesplits", "seq": [bigc, ev]}))
        work.append(("cuts", {"seq": [ev, bigc, ev], "double": True, "step": 1}))
        work.append(("cuts", {"seq": [big, bigc], "double": True, "step": 5}))
    ctx.pmap(_work, work)
    ctx.exhaustive = True
    ctx.bounds.update(sequences=len(seqs), max_stream=max(len(_wire(s)[0]) for s in seqs), segmentations="all (complete graph per sequence)")
    ctx.note(f"graphs whose node count exceeds n+1 (state depends on cuts, not a violation by itself): {ctx.acc.extra['graphs_with_extra_nodes']}")
    for m in ("graph", "cuts", "framesplits"):
        ctx.require(ctx.acc.symbols[f"secure:{m}"] > 0, f"no secure-transport {m} run")
    for s in ("HTTP:cl", "HTTP:chunked", "HTTP:none", "EVEN:cl", "EVEN:chunked"):
        ctx.require(ctx.acc.symbols[s] > 0, f"no sequence with {s}")

"""C05 encrypted IP session framing: outbound exactness for every payload length, inbound segmentation graph (E2)
over the real SecureHomeKitProtocol.data_received, cut sweeps around 1023/1024/1025-byte frames, and every
single-bit corruption of a stream (whole and at every cut) through the real transport fatal-error path."""
from __future__ import annotations

import asyncio

from vt import core, explore, vloop
from vt.props.c07 import _StubConn, _StubFut, canon_resp, render
from vt.ref import crypto as C
from vt.ref import ipacc

META = dict(
    level="model_checking",
    engine="E2+E1",
    technique="explicit-state BFS over (stream offset, canonical SecureHomeKitProtocol state) covering all segmentations of reference-framed streams, plus exhaustive enumeration of payload lengths, cut positions and single-bit corruptions against an independent reference framer",
    text="outbound: every payload length 0..N through send_bytes, unframed by a reference framer with its own AEAD and counters "
    "(plaintext equal, frames <= 1024, counters consecutive, one writelines call); inbound: complete segmentation graph of "
    "data_received for reference-framed response/event streams with chosen frame sizes, all single/double cuts around 1023/1024/1025-byte "
    "frames; corruption: every single-bit flip of every byte, whole and at every cut, must deliver nothing from the hit frame on, "
    "tear the transport down through the loop's fatal-error path and fail the pending request with AccessoryDisconnectedError Frame-boundary sweep: every two-block split point and every uniform block size of small response/event/chunked sequences, delivered as one read and block by block; the authentic blocks in front of a corrupted one must still be delivered whatever the read boundaries. Also: the same sweeps through other legal spellings of the messages inside the session (field-name case, separators, hex case). Also streams of 350 KB and 600 KB in reads that never end on a block boundary. Outbound: a request of 1 B .. 200 KB (thorough: 600 KB) abandoned by its caller after k loop iterations, then further requests: everything that reached the open transport authenticates in order and is made of whole requests. Also: a request issued straight on the connection object k = 0..39 loop iterations into the connection set-up (nothing undecodable reaches an established session); whole intact frames removed / swapped / early / doubled at every position.",
    note="AEAD strength is assumed; frame-size choices and streams are a finite set; the graph per stream is complete",
    design_ref="DESIGN.md §4 C05",
    rule="state = (offset, canonical protocol state incl. ciphertext buffer, counters, parser, delivered messages); transition = one data_received call; "
    "evaluation = one payload length / one stream graph / one cut sweep / one corrupted stream",
)

A2C = C.det_bytes("c05", "a2c")
C2A = C.det_bytes("c05", "c2a")


class _Conn(_StubConn):
    def __init__(self, log):
        super().__init__(log)
        self.lost = []

    def _connection_lost(self, exc, *args):
        self.lost.append(type(exc).__name__)


def make_secure(nfut=6):
    from aiohomekit.controller.ip.connection import SecureHomeKitProtocol

    log = []
    conn = _Conn(log)
    p = SecureHomeKitProtocol(conn, A2C, C2A)
    group = []
    p.result_cbs = type(p.result_cbs)(_StubFut(log, i, group) for i in range(nfut))
    p._vt_log = log
    p._vt_conn = conn
    return p


def canon_secure(p):
    from vt import canon

    # generic walk: every attribute of the protocol object except back references and the cipher objects (keyed by the constant test keys)
    return (canon_resp(p.current_response), len(p.result_cbs), canon.canon(p, depth=1, skip=("connection", "result_cbs", "current_response", "loop", "transport", "encryptor", "decryptor")))


def observe(p):
    return tuple(p._vt_log)


# ---------------------------------------------------------------------------- outbound
class _RecTransport:
    def __init__(self):
        self.calls = []
        self.closed = False

    def is_closing(self):
        return self.closed

    def writelines(self, lines):
        self.calls.append(("writelines", b"".join(bytes(x) for x in lines)))

    def write(self, data):
        self.calls.append(("write", bytes(data)))

    def write_eof(self):
        pass

    def close(self):
        self.closed = True


def case_outbound(p):
    """lengths: list of payload lengths sent back-to-back on ONE session (counters must continue)."""
    loop = vloop.VirtualLoop().install()
    out = []
    try:
        proto = make_secure(0)
        proto.result_cbs = []
        tr = _RecTransport()
        proto.connection_made(tr)
        framer = ipacc.Framer(A2C, C2A)
        tasks = []
        for i, n in enumerate(p["lengths"]):
            payload = bytes(((j * 31 + n + i) % 256) for j in range(n))
            before = len(tr.calls)
            t = loop.create_task(proto.send_bytes(payload))
            tasks.append(t)
            loop.run_until_idle()
            calls = tr.calls[before:]
            if n and len(calls) != 1:
                out.append(("outbound:not-a-single-transport-call", {"length": n, "calls": [(k, len(d)) for k, d in calls]}))
            wire = b"".join(d for _, d in calls)
            nframes_before = len(framer.frames_in)
            got = framer.open(wire)
            if framer.broken:
                out.append(("outbound:reference-accessory-cannot-decrypt", {"length": n, "why": framer.why}))
                break
            if framer.buf:
                out.append(("outbound:trailing-partial-frame", {"length": n, "left": len(framer.buf)}))
                break
            if got != payload:
                out.append(("outbound:plaintext-differs", {"length": n, "got_len": len(got)}))
            sizes = [s for _, s in framer.frames_in[nframes_before:]]
            if any(s > 1024 or s == 0 for s in sizes):
                out.append(("outbound:frame-size-out-of-range", {"length": n, "sizes": sizes}))
            if n and len(sizes) != (n + 1023) // 1024:
                # not required by the property (<=1024 is), recorded as extra information only
                pass
        for t in tasks:
            t.cancel()
        loop.run_until_idle()
    finally:
        loop.shutdown()
    return out


def case_outbound_cancel(p):
    """A request of n1 bytes is started and its caller is cancelled after k loop iterations (k = 0: before it ever ran); then a request of n2
    bytes is made on the same protocol object.  Whatever reached the transport while it was open is judged by the reference accessory: every
    frame authenticates in order, and the plaintext is made of whole requests (the abandoned one entirely or not at all) - unless the session
    was ended (transport closed), after which nothing more may follow."""
    loop = vloop.VirtualLoop().install()
    out = []
    try:
        proto = make_secure(0)
        proto.result_cbs = []

        class Tr(_RecTransport):
            def writelines(self, lines):
                if not self.closed:
                    super().writelines(lines)

            def write(self, data):
                if not self.closed:
                    super().write(data)

        tr = Tr()
        proto.connection_made(tr)
        framer = ipacc.Framer(A2C, C2A)
        pay = [bytes(((j * 31 + n + i) % 256) for j in range(n)) for i, n in enumerate(p["lengths"])]
        t1 = loop.create_task(proto.send_bytes(pay[0]))
        for _ in range(p["cancel_after"]):
            loop.run_batch() if loop.has_ready() else None
        t1.cancel()
        loop.run_until_idle()
        closed_after_first = tr.closed
        rest = []
        for x in pay[1:]:
            rest.append(loop.create_task(proto.send_bytes(x)))
            loop.run_until_idle()
        wire = b"".join(d for _, d in tr.calls)
        got = framer.open(wire)
        det = {"lengths": p["lengths"], "cancel_after_iterations": p["cancel_after"], "first_request_done": t1.done() and not t1.cancelled(), "session_ended_by_the_cancel": closed_after_first, "wire_bytes": len(wire)}
        if framer.broken:
            out.append(("outbound:frames-after-an-abandoned-request-do-not-authenticate", dict(det, why=str(framer.why)[:160], frames_ok=len(framer.frames_in))))
        else:
            # whole requests only (the abandoned one: entirely, or not at all), in order; after an ended session nothing needs to arrive
            ok = False
            for first in (pay[0], b""):
                want = first + b"".join(pay[1:])
                if got == want or (tr.closed and want.startswith(got)):
                    ok = True
            if not ok:
                out.append(("outbound:plaintext-after-an-abandoned-request-is-not-made-of-whole-requests", dict(det, got_len=len(got))))
            if framer.buf and not tr.closed:
                out.append(("outbound:trailing-partial-frame", dict(det, left=len(framer.buf))))
        for t in rest:
            t.cancel()
        loop.run_until_idle()
    finally:
        loop.shutdown()
    return out


# ---------------------------------------------------------------------------- inbound
MSG_SMALL = dict(kind="HTTP/1.1", code=200, reason="OK", headers=[("Content-Type", "application/hap+json")], framing="cl", body=b'{"characteristics":[{"aid":1,"iid":9,"value":true}]}')
MSG_204 = dict(kind="HTTP/1.1", code=204, reason="No Content", headers=[], framing="none")
MSG_EVENT = dict(kind="EVENT/1.0", code=200, reason="OK", headers=[("Content-Type", "application/hap+json")], framing="cl", body=b'{"characteristics":[{"aid":1,"iid":10,"value":3}]}')
MSG_CHUNK = dict(kind="HTTP/1.1", code=200, reason="OK", headers=[], framing="chunked", body=b"ab\r\n0\r\n\r\ncd", chunks=[2, 3])


def big_msg(n):
    return dict(kind="HTTP/1.1", code=200, reason="OK", headers=[("Content-Type", "application/hap+json")], framing="cl", body=bytes((i * 7) % 256 for i in range(n)))


def build_stream(msgs, sizes):
    """-> (ciphertext stream, sent tuple, frame boundaries [(start,end,first_msg_index_touched)])"""
    framer = ipacc.Framer(A2C, C2A)
    plain = b""
    sent = []
    msg_end = []
    for m in msgs:
        w, e = render(dict(m, headers=[tuple(h) for h in m.get("headers", [])], body=bytes(m.get("body", b""))))
        plain += w
        sent.append(e)
        msg_end.append(len(plain))
    frames = framer.seal_frames(plain, sizes)
    bounds = []
    pos = 0
    ppos = 0
    for f in frames:
        n = len(f) - 18
        complete_before = sum(1 for e in msg_end if e <= ppos)
        bounds.append((pos, pos + len(f), complete_before))
        pos += len(f)
        ppos += n
    return b"".join(frames), tuple(sent), bounds


def case_graph(p):
    stream, sent, _ = build_stream(p["msgs"], p["sizes"])
    loop = vloop.VirtualLoop().install()
    try:
        g = explore.seg_graph(lambda: make_secure(len(sent) + 1), lambda o, d: o.data_received(d), canon_secure, observe, stream, expect=sent, max_nodes=40 * (len(stream) + 1))
    finally:
        loop.shutdown()
    out = []
    for path, err in g["errors"][:2]:
        out.append(("inbound:raises-on-some-segmentation", {"segments": list(path), "error": err}))
    for obs, path in g["terminal"].items():
        if obs != sent:
            out.append(("inbound:delivered-differs-from-sent", {"segments": list(path), "got_n": len(obs), "sent_n": len(sent)}))
            break
    if not g["terminal"] and not g["errors"] and not g["capped"] and not g["stopped_early"]:
        out.append(("inbound:stream-end-unreachable", {}))
    for obs, path in g["observations"].items():
        if obs != sent[: len(obs)]:
            out.append(("inbound:delivery-not-prefix-of-sent", {"segments": list(path)}))
            break
    p["_stats"] = (g["nodes"], g["transitions"], len(stream))
    return out


def case_cuts(p):
    stream, sent, _ = build_stream(p["msgs"], p["sizes"])
    n = len(stream)
    cuts = [(c,) for c in range(1, n)]
    if p.get("double"):
        st = p.get("step", 1)
        cuts += [(a, b) for a in range(1, n, st) for b in range(a + 1, n, st)]
    loop = vloop.VirtualLoop().install()
    out = []
    trans = 0
    try:
        for cs in cuts:
            pr = make_secure(len(sent) + 1)
            pos = 0
            try:
                for c in cs + (n,):
                    pr.data_received(stream[pos:c])
                    pos = c
                    trans += 1
                    if p.get("gap"):
                        loop._vtime += p["gap"]  # the stream stalls that long before the next bytes arrive
                    o = observe(pr)
                    if o != sent[: len(o)]:
                        raise AssertionError("delivered is not a prefix of sent")
            except Exception as e:  # noqa: BLE001
                out.append(("inbound:cut-fails", {"cuts": list(cs), "error": f"{type(e).__name__}: {e}", "sizes": p["sizes"]}))
                break
            if observe(pr) != sent:
                out.append(("inbound:cut-differs", {"cuts": list(cs), "sizes": p["sizes"]}))
                break
    finally:
        loop.shutdown()
    p["_stats"] = (0, trans, n)
    return out


def case_framesplits(p):
    """Every choice of where the accessory ends its frames (the only thing the HTTP layer behind the decryption ever sees as a read boundary):
    every two-frame split point of the plaintext and every uniform frame size, each delivered as one read and frame by frame."""
    msgs = p["msgs"]
    plain_len = len(b"".join(render(dict(m, headers=[tuple(h) for h in m.get("headers", [])], body=bytes(m.get("body", b""))))[0] for m in msgs))
    choices = [[k, 1024] for k in range(1, min(plain_len, 1024))] + [[s] for s in range(1, min(plain_len, p.get("max_uniform", 64)) + 1)]
    if p.get("triples"):
        st = p["triples"]
        choices += [[a, b - a, 1024] for a in range(1, plain_len, st) for b in range(a + 1, min(plain_len, a + 1024), st)]
    loop = vloop.VirtualLoop().install()
    out = []
    trans = 0
    try:
        for sizes in choices:
            if sizes[-1] == 1024 and len(sizes) > 1:
                # first frames as given, the rest in full frames
                framer = ipacc.Framer(A2C, C2A)
                plain = b""
                sent = []
                for m in msgs:
                    w, e = render(dict(m, headers=[tuple(h) for h in m.get("headers", [])], body=bytes(m.get("body", b""))))
                    plain += w
                    sent.append(e)
                pos, frames = 0, []
                for n in sizes[:-1]:
                    frames.append(framer.seal_frames(plain[pos : pos + n], [1024])[0])
                    pos += n
                if pos < len(plain):
                    frames += framer.seal_frames(plain[pos:], [1024])
                sent = tuple(sent)
            else:
                stream, sent, bounds = build_stream(msgs, sizes)
                frames = [stream[s:e] for s, e, _ in bounds]
            for mode in ("one-read", "per-frame"):
                pr = make_secure(len(sent) + 1)
                try:
                    for piece in ([b"".join(frames)] if mode == "one-read" else frames):
                        pr.data_received(piece)
                        trans += 1
                        o = observe(pr)
                        if o != sent[: len(o)]:
                            raise AssertionError("delivered is not a prefix of sent")
                except Exception as e:  # noqa: BLE001
                    out.append(("inbound:frame-boundary-fails", {"frame_sizes": sizes, "mode": mode, "error": f"{type(e).__name__}: {e}"[:200]}))
                    break
                if observe(pr) != sent:
                    out.append(("inbound:frame-boundary-differs", {"frame_sizes": sizes, "mode": mode, "got_n": len(observe(pr)), "sent_n": len(sent)}))
                    break
            if out:
                break
    finally:
        loop.shutdown()
    p["_stats"] = (0, trans, plain_len)
    p["_n"] = len(choices)
    return out


def case_bigreads(p):
    """Hundreds of KB of ciphertext (an /accessories document of a bridge, a camera snapshot) in coarse reads: one read, halves, reads of 64 KiB and
    256 KiB (what one recv() of the event loop may return), next to fine ones: the decoded plaintext is the same."""
    msgs = [big_msg(n) for n in p["sizes_plain"]] + [MSG_EVENT]
    stream, sent, _ = build_stream(msgs, [1024])
    n = len(stream)
    plans = [("whole", [n]), ("halves", [n // 2, n - n // 2])]
    plans += [(f"reads-of-{k}", [k] * (n // k) + ([n % k] if n % k else [])) for k in p["read_sizes"]]
    plans += [(f"first-{k}-then-rest", [k, n - k]) for k in p["read_sizes"] if k < n]
    loop = vloop.VirtualLoop().install()
    out = []
    trans = 0
    try:
        for name, sizes in plans:
            pr = make_secure(len(sent) + 1)
            pos = 0
            try:
                for k in sizes:
                    pr.data_received(stream[pos : pos + k])
                    pos += k
                    trans += 1
            except Exception as e:  # noqa: BLE001
                out.append(("inbound:large-stream-segmentation-fails", {"segmentation": name, "ciphertext_bytes": n, "error": f"{type(e).__name__}: {e}"[:200]}))
                break
            if observe(pr) != sent:
                out.append(("inbound:large-stream-segmentation-differs", {"segmentation": name, "ciphertext_bytes": n, "got_n": len(observe(pr)), "sent_n": len(sent)}))
                break
    finally:
        loop.shutdown()
    p["_stats"] = (0, trans, n)
    return out


def case_send_between(p):
    """An EVENT that the accessory cut into two blocks, a request issued by the controller between the two reads (c07's machinery on the secure
    protocol): what was decrypted so far is not lost."""
    from vt.props import c07

    q = {"seq": p["seq"], "secure": True}
    v = c07.case_cuts_send(q)
    p["_stats"] = q.get("_stats", (0, 0, 0))
    return [("inbound:" + sig, det) for sig, det in v]


def case_corrupt(p):
    """Flip bit `bit` of the stream; deliver whole (cut=None) or cut at `cuts` positions, through a MemTransport so the
    real fatal-error path runs; a request is pending."""
    from aiohomekit.exceptions import AccessoryDisconnectedError

    stream, sent, bounds = build_stream(p["msgs"], p["sizes"])
    out = []
    trans = 0
    loop = vloop.VirtualLoop().install()
    try:
        for bit in p["bits"]:
            bad = bytearray(stream)
            bad[bit // 8] ^= 1 << (bit % 8)
            bad = bytes(bad)
            hit = next(i for i, (s, e, _) in enumerate(bounds) if s <= bit // 8 < e)
            allowed = bounds[hit][2]  # messages complete before the hit frame
            for cs in p["cutsets"]:
                net = vloop.SimNet(loop)
                att = {"t": 0, "hosts": ["h"], "port": 1, "fut": loop.create_future(), "outcome": None}
                conn = net.accept(att, "h")
                proto = make_secure(0)
                proto.result_cbs = []
                tr = vloop.MemTransport(loop, proto, att["fut"].result())
                loop.run_until_idle()
                nreq = len([s for s in sent if s[0] == "HTTP"]) if not p.get("no_request") else 0
                tasks = [loop.create_task(proto.send_bytes(b"GET /x HTTP/1.1\r\n\r\n")) for _ in range(nreq)]
                loop.run_until_idle()
                pos = 0
                for c in tuple(cs) + (len(bad),):
                    if c <= pos:
                        continue
                    conn.send(bad[pos:c])
                    trans += 1
                    pos = c
                    loop.run_until_idle()
                # let the 30 s request timers fire
                loop.advance(31)
                results = []
                for t in tasks:
                    if not t.done():
                        results.append("pending")
                    elif t.cancelled():
                        results.append("cancelled")
                    elif t.exception() is not None:
                        results.append(type(t.exception()).__name__)
                    else:
                        r = t.result()
                        results.append(("ok", r.code, bytes(r.body)))
                det = {"bit": bit, "cuts": list(cs), "hit_frame": hit, "results": [r if isinstance(r, str) else "ok" for r in results], "sizes": p["sizes"]}
                delivered = [r for r in results if not isinstance(r, str)]
                events = [e for e in proto._vt_log if e[0] == "EVENT"]
                n_deliv = len(delivered) + len(events)
                if n_deliv > allowed:
                    out.append(("corrupt:plaintext-of-or-after-unauthentic-frame-delivered", det))
                if n_deliv < allowed:
                    # the frames in front of the bad one are authentic and were sent: what they carry is decoded whatever the read boundaries are
                    out.append(("corrupt:authentic-messages-in-front-of-the-bad-frame-lost", dict(det, delivered=n_deliv, complete_before_bad_frame=allowed)))
                exp_http = [s for s in sent[:allowed] if s[0] == "HTTP"]
                for r, s in zip(delivered, exp_http):
                    if (r[1], r[2]) != (s[1], s[3]):
                        out.append(("corrupt:delivered-response-differs", det))
                rest = results[len(delivered):]
                if any(r != "AccessoryDisconnectedError" for r in rest):
                    out.append(("corrupt:pending-request-not-failed-with-disconnection-error", det))
                # does the hit frame complete with the bytes delivered? (a flipped length prefix may make it longer than the stream)
                start = bounds[hit][0]
                declared = int.from_bytes(bad[start : start + 2], "little")
                completes = start + 2 + declared + 16 <= len(bad)
                if not p.get("no_request"):
                    if not tr.is_closing():
                        out.append(("corrupt:session-not-ended", det))
                elif completes:
                    if not tr.is_closing():
                        out.append(("corrupt:session-not-ended:no-request-pending", det))
                    if not proto._vt_conn.lost:
                        out.append(("corrupt:connection-owner-not-told-about-lost-session:no-request-pending", det))
                for t in tasks:
                    t.cancel()
                loop.run_until_idle()
                if out:
                    return out
    finally:
        loop.shutdown()
        p["_stats"] = (0, trans, len(stream))
    return out


def case_frame_order(p):
    """Whole, intact frames at the wrong place in the stream: k frames removed, two frames swapped, a later frame arriving early, a frame
    twice.  A frame is authentic only at its own position (the counter is the nonce): the first misplaced frame fails authentication there,
    nothing of it or behind it is delivered, and the session ends.  p: msgs, sizes, edits (list of ('drop', i, k) | ('swap', i, j) |
    ('early', i, j) | ('twice', i))."""
    stream, sent, bounds = build_stream(p["msgs"], p["sizes"])
    frames = [stream[s_:e_] for s_, e_, _ in bounds]
    out = []
    trans = 0
    loop = vloop.VirtualLoop().install()
    try:
        for edit in p["edits"]:
            kind = edit[0]
            fr = list(frames)
            if kind == "drop":
                i, k = edit[1], edit[2]
                if i + k > len(fr) - 1:
                    continue
                del fr[i : i + k]
                first_bad = i
            elif kind == "swap":
                i, j = edit[1], edit[2]
                if j >= len(fr) or i >= j or fr[i] == fr[j]:
                    continue
                fr[i], fr[j] = fr[j], fr[i]
                first_bad = i
            elif kind == "early":
                i, j = edit[1], edit[2]
                if j >= len(fr) or i >= j:
                    continue
                fr.insert(i, fr.pop(j))
                first_bad = i
            else:
                i = edit[1]
                if i >= len(fr) - 1:
                    continue
                fr.insert(i + 1, fr[i])
                first_bad = i + 1
            allowed = bounds[first_bad][2]
            net = vloop.SimNet(loop)
            att = {"t": 0, "hosts": ["h"], "port": 1, "fut": loop.create_future(), "outcome": None}
            conn = net.accept(att, "h")
            proto = make_secure(0)
            proto.result_cbs = []
            tr = vloop.MemTransport(loop, proto, att["fut"].result())
            loop.run_until_idle()
            for f in fr:
                if tr.is_closing():
                    break
                conn.send(f)
                trans += 1
                loop.run_until_idle()
            events = [e for e in proto._vt_log if e[0] == "EVENT"]
            det = {"edit": list(edit), "frames": len(frames), "first_misplaced_frame": first_bad, "events_delivered": len(events), "events_complete_before_it": allowed, "sizes": p["sizes"]}
            if len(events) > allowed:
                out.append((f"order:plaintext-of-or-behind-a-misplaced-frame-delivered:{kind}", det))
            elif len(events) < allowed:
                out.append(("order:authentic-messages-in-front-of-the-misplaced-frame-lost", det))
            if not tr.is_closing():
                out.append((f"order:session-not-ended-by-a-misplaced-frame:{kind}", det))
            loop.run_until_idle()
            if out:
                return out
    finally:
        loop.shutdown()
        p["_stats"] = (0, trans, len(stream))
    return out


def case_e2e(p):
    """End to end on the rig: the accessory frames a large response with the given sizes; result must be exact."""
    import json

    from vt.env.iprig import IpRig, std_handler

    rig = IpRig(seed=p.get("seed", 0))
    out = []
    try:
        big = {"characteristics": [{"aid": 1, "iid": 9, "value": "v" * p["n"]}]}
        rig.acc.handler = std_handler({("GET", "/characteristics"): (200, json.dumps(big).encode(), "application/hap+json")})
        rig.acc.frame_sizes = p["sizes"]
        rig.connect()
        r = rig.run(rig.pairing.get_characteristics([(1, 9)]))
        if r != {(1, 9): {"value": "v" * p["n"]}}:
            out.append(("e2e:response-differs", {"sizes": p["sizes"], "n": p["n"]}))
        # a long request: reference accessory must have decoded it (it answered) and every inbound frame <= 1024
        val = "w" * p["n"]
        rig.run(rig.pairing.put_characteristics([(1, 9, val)]))
        sess = rig.net.conns[-1].session
        if sess.errors:
            out.append(("e2e:accessory-could-not-decode-request", {"errors": sess.errors}))
        if json.loads(sess.requests[-1][4])["characteristics"][0]["value"] != val:
            out.append(("e2e:request-body-differs", {}))
    except Exception as e:  # noqa: BLE001
        out.append((f"e2e:raises:{type(e).__name__}", {"sizes": p["sizes"], "err": str(e)[:200]}))
    finally:
        rig.close()
    return out


def case_e2e_early_request(p):
    """p: k, api.  While the connection is being made (k loop iterations into it: TCP connect, the two pair-verify round trips, the switch to
    the secure protocol, the re-subscription) a caller issues a request straight on the connection object.  It may be refused, it may wait;
    what it may not do is reach an accessory that has an established secure session as anything but authenticated blocks."""
    from vt.env.iprig import IpRig, std_handler

    rig = IpRig(seed=p.get("seed", 0))
    out = []
    try:
        rig.acc.handler = std_handler()
        t0 = rig.loop.create_task(rig.pairing._ensure_connected())
        for _ in range(p["k"]):
            if rig.loop.has_ready():
                rig.loop.run_batch()
        c = rig.conn
        coro = c.get("/accessories") if p["api"] == "get" else c.put("/characteristics", b'{"characteristics":[{"aid":1,"iid":9,"value":true}]}')
        t1 = rig.loop.create_task(coro)
        for _ in range(40):
            rig.loop.run_until_idle()
            if (t0.done() and t1.done()) or not rig.loop.fire_next_timer():
                break
        rig.loop.run_until_idle()
        det = {"k": p["k"], "api": p["api"], "early_request": ("pending" if not t1.done() else ("cancelled" if t1.cancelled() else (type(t1.exception()).__name__ if t1.exception() else "answered")))}
        for conn in rig.net.conns:
            sess = conn.session
            if sess.errors:
                out.append(("e2e:accessory-could-not-decode-what-arrived-on-an-established-session", dict(det, errors=[str(e)[:80] for e in sess.errors[:2]])))
            # (a request written BEFORE the session was established travels in the clear on the not-yet-secure connection: that is how the
            # connection object is used for pair-setup and not this property's subject)
        if not t0.done() or t0.cancelled() or t0.exception() is not None:
            out.append(("e2e:connection-not-established-because-of-an-early-request", dict(det, connector="pending" if not t0.done() else repr(t0.exception() if not t0.cancelled() else "cancelled")[:100])))
        for t in (t0, t1):
            if not t.done():
                t.cancel()
        rig.loop.run_until_idle()
    except Exception as e:  # noqa: BLE001
        out.append((f"e2e:raises:{type(e).__name__}", {"k": p["k"], "err": str(e)[:200]}))
    finally:
        rig.close()
    return out


def case_e2e_corrupt(p):
    """Real IpPairing over the simulated network, no request in flight: a corrupted (event) frame must end the session -
    the controller closes the connection and the pairing no longer reports connected; nothing of the frame reaches listeners."""
    from vt.env.iprig import IpRig, std_handler

    out = []
    n = 0
    for bit in p["bits"]:
        rig = IpRig(seed=p.get("seed", 0))
        try:
            rig.acc.handler = std_handler()
            conn = rig.connect()
            notes = []
            rig.pairing.dispatcher_connect(lambda ev: notes.append(ev))
            rig.net.auto = lambda att: ("refuse",)  # no reconnect: observe the old connection only
            wire = bytearray(conn.session.event(b'{"characteristics":[{"aid":1,"iid":9,"value":true}]}'))
            if bit // 8 >= len(wire):
                continue
            wire[bit // 8] ^= 1 << (bit % 8)
            declared = int.from_bytes(wire[:2], "little")
            completes = 2 + declared + 16 <= len(wire)
            conn.send(bytes(wire))
            rig.loop.run_until_idle()
            n += 1
            det = {"bit": bit, "frame_completes": completes}
            if notes:
                out.append(("e2e-corrupt:unauthentic-frame-reached-listeners", det))
            if completes:
                if conn.client_open:
                    out.append(("e2e-corrupt:controller-kept-the-connection-open-after-unauthentic-frame", det))
                if rig.pairing.is_connected:
                    out.append(("e2e-corrupt:pairing-still-reports-connected-after-unauthentic-frame", det))
        finally:
            rig.close()
        if out:
            break
    p["_stats"] = (0, n, 0)
    return out


CASES = {"frame_order": case_frame_order, "e2e_early_request": case_e2e_early_request, "outbound_cancel": case_outbound_cancel, "bigreads": case_bigreads, "send_between": case_send_between, "framesplits": case_framesplits, "e2e_corrupt": case_e2e_corrupt, "outbound": case_outbound, "graph": case_graph, "cuts": case_cuts, "corrupt": case_corrupt, "e2e": case_e2e}


def _work(item, seed, tier):
    acc = core.Acc()
    name, p = item
    v = CASES[name](p)
    nodes, trans, n = p.pop("_stats", (0, 0, 0))
    nchoices = p.pop("_n", 1)
    acc.states += nodes
    acc.transitions += trans
    mult = len(p["lengths"]) if name == "outbound" else (len(p["bits"]) * len(p["cutsets"]) if name == "corrupt" else (len(p["bits"]) if name == "e2e_corrupt" else (nchoices if name == "framesplits" else 1)))
    acc.extra[f"{name}_executions"] += mult
    acc.case(key=(name, core.jsonable(p)), outcome=f"{name}:{'ok' if not v else v[0][0]}", sample={"case": name, "params": {k: (v_ if not isinstance(v_, list) or len(v_) < 12 else v_[:12] + ['...']) for k, v_ in p.items()}}, symbols=(name,))
    acc.traces += mult
    for sig, detail in v:
        acc.violation(sig, name, p, detail)
    return acc


def run(ctx):
    quick = ctx.tier == "quick"
    work = []
    N = 2200 if quick else 6200
    lens = list(range(0, N + 1))
    for i in range(0, len(lens), 50):
        work.append(("outbound", {"lengths": lens[i : i + 50]}))
    work.append(("outbound", {"lengths": [1023, 1024, 1025, 2047, 2048, 2049, 3072, 3073, 1, 0, 1024, 1024 * 8 + 1, 65536, 65537]}))
    for k in range(0, 40):
        for api in ("get", "put"):
            work.append(("e2e_early_request", {"k": k, "api": api}))
    # whole frames at the wrong place: 12 events in frames of 25 (3 frames per event) and of 1024 (one frame per event)
    for sizes in ([25], [1024], [7]):
        nfr = {25: 3, 1024: 1, 7: 11}[sizes[0]] * 12
        idx = range(nfr) if not quick else sorted(set(list(range(0, 8)) + list(range(8, nfr, 5))))
        edits = [("drop", i, k) for i in idx for k in (1, 2, 3, 4, 5, 6, 7, 12)] + [("swap", i, j) for i in idx for j in (i + 1, i + 2, i + 5, i + 6)] + [("early", i, j) for i in idx for j in (i + 1, i + 3, i + 5, i + 6)] + [("twice", i) for i in idx]
        for c in range(0, len(edits), 120):
            work.append(("frame_order", {"msgs": [dict(MSG_EVENT, body=('{"characteristics":[{"aid":1,"iid":10,"value":%d}]}' % n_).encode()) for n_ in range(12)], "sizes": sizes, "edits": edits[c : c + 120]}))
    # a request abandoned by its caller after k loop iterations (small, several blocks, beyond 64 KiB and 128 KiB), then another one
    for n1 in (1, 1024, 5000, 65536, 65537, 70000, 140000, 200000) if quick else (0, 1, 1023, 1024, 1025, 5000, 32768, 65535, 65536, 65537, 70000, 131072, 131073, 140000, 200000, 300000, 600000):
        for k in range(0, 6 if quick else 12):
            for tail in ([100], [100, 3000]) if quick else ([100], [100, 3000], [70000]):
                work.append(("outbound_cancel", {"lengths": [n1] + tail, "cancel_after": k}))
    # inbound graphs (small streams)
    graphs = [
        ([MSG_SMALL], [1024]), ([MSG_204], [2]), ([MSG_SMALL, MSG_EVENT], [40]), ([MSG_204, MSG_EVENT, MSG_204], [1024]),
    ]
    if not quick:
        graphs += [([MSG_EVENT, MSG_SMALL], [7]), ([MSG_CHUNK, MSG_EVENT], [16]), ([MSG_SMALL, MSG_SMALL], [1024]), ([MSG_204, MSG_204, MSG_204], [5]),
                   ([MSG_204], [1]), ([MSG_CHUNK], [5]), ([MSG_SMALL, MSG_204, MSG_EVENT], [64, 1, 30]), ([MSG_EVENT, MSG_EVENT], [100])]
    for msgs, sizes in graphs:
        work.append(("graph", {"msgs": msgs, "sizes": sizes}))
    # cut sweeps with 1023/1024/1025-byte boundaries
    work.append(("cuts", {"msgs": [big_msg(2300), MSG_EVENT], "sizes": [1024]}))
    work.append(("cuts", {"msgs": [big_msg(2000)], "sizes": [1023, 1, 1024]}))
    if not quick:
        work.append(("cuts", {"msgs": [big_msg(3000), MSG_SMALL], "sizes": [1024, 1023, 1]}))
        work.append(("cuts", {"msgs": [big_msg(480), MSG_EVENT], "sizes": [300], "double": True}))
        work.append(("cuts", {"msgs": [big_msg(1100)], "sizes": [1024], "double": True, "step": 3}))
    # frame boundaries as the accessory chooses them (= the read boundaries of the HTTP layer behind the decryption)
    MSG_CHUNK2 = dict(kind="EVENT/1.0", code=200, reason="OK", headers=[("Content-Type", "application/hap+json")], framing="chunked", body=b'{"characteristics":[{"aid":1,"iid":10,"value":3}]}', chunks=[20, 1, 400])
    work.append(("framesplits", {"msgs": [MSG_CHUNK, MSG_EVENT]}))
    work.append(("framesplits", {"msgs": [MSG_CHUNK2, MSG_204, MSG_CHUNK]}))
    work.append(("framesplits", {"msgs": [MSG_SMALL, MSG_EVENT, MSG_204]}))
    if not quick:
        work.append(("framesplits", {"msgs": [MSG_CHUNK, MSG_CHUNK2], "triples": 1, "max_uniform": 200}))
        work.append(("framesplits", {"msgs": [MSG_EVENT, MSG_CHUNK2, MSG_SMALL], "triples": 2, "max_uniform": 400}))
        work.append(("framesplits", {"msgs": [dict(MSG_CHUNK2, body=bytes(range(256)) * 9, chunks=[1024, 1, 1023, 256])], "max_uniform": 1024}))
    work.append(("bigreads", {"sizes_plain": [90000, 150000], "read_sizes": [1024, 16384, 65535, 65536, 65553, 65554, 131072, 262144]}))
    # well beyond the largest single read of the event loop (256 KiB), in reads that never end on a block boundary: the buffer never runs empty
    work.append(("bigreads", {"sizes_plain": [200000, 150000, 3000], "read_sizes": [1500, 1043, 4096, 65535, 262143, 262144]}))
    work.append(("bigreads", {"sizes_plain": [600000], "read_sizes": [1041, 100000, 262144, 300000]}))
    if not quick:
        work.append(("bigreads", {"sizes_plain": [70000, 300000, 65000], "read_sizes": [1, 7, 1042, 4096, 65536, 100000, 262144, 524288]}))
    for gap in (31.0, 3600.0) if quick else (1.0, 29.0, 31.0, 61.0, 3600.0, 1e6):
        work.append(("cuts", {"msgs": [MSG_EVENT, MSG_SMALL, MSG_CHUNK2, MSG_204], "sizes": [37], "gap": gap}))
    # the same through other legal spellings of the messages inside the session (field-name case, separator, hex case of chunk sizes): where a
    # message ends - and so what is delivered from the decrypted stream - does not depend on them
    spelled = [dict(MSG_EVENT, cl_name="content-length"), dict(MSG_SMALL, cl_name="CONTENT-LENGTH", sep=""), dict(MSG_CHUNK2, te_name="transfer-encoding", upper_hex=True), dict(MSG_204, sep="\t"), dict(MSG_CHUNK, te_name="TRANSFER-ENCODING")]
    work.append(("cuts", {"msgs": spelled, "sizes": [37]}))
    work.append(("framesplits", {"msgs": spelled[:3]}))
    work.append(("graph", {"msgs": [dict(MSG_204, sep=""), dict(MSG_EVENT, cl_name="content-length")], "sizes": [29]}))
    work.append(("send_between", {"seq": [MSG_EVENT, MSG_SMALL, MSG_EVENT]}))
    work.append(("send_between", {"seq": [MSG_CHUNK2, MSG_CHUNK, MSG_CHUNK2]}))
    # corruption
    cmsgs, csizes = [MSG_204, MSG_EVENT, MSG_SMALL], [60]
    stream, sent, bounds = build_stream(cmsgs, csizes)
    nbits = len(stream) * 8
    bits = list(range(nbits)) if not quick else [b * 8 + ((b + ctx.seed) % 8) for b in range(len(stream))]
    allcuts = [()] + [(c,) for c in range(1, len(stream), 1 if not quick else 9)]
    for i in range(0, len(bits), 16 if not quick else 8):
        work.append(("corrupt", {"msgs": cmsgs, "sizes": csizes, "bits": bits[i : i + (16 if not quick else 8)], "cutsets": allcuts}))
    # corruption while NO request is in flight (unsolicited events only): nothing but the loop's fatal-error path can end the session
    emsgs, esizes = [MSG_EVENT, MSG_EVENT], [50]
    estream, _, _ = build_stream(emsgs, esizes)
    ebits = list(range(len(estream) * 8)) if not quick else [b * 8 + ((b + ctx.seed) % 8) for b in range(len(estream))]
    ecuts = [()] + [(c,) for c in range(1, len(estream), 3 if not quick else 17)]
    for i in range(0, len(ebits), 16):
        work.append(("corrupt", {"msgs": emsgs, "sizes": esizes, "bits": ebits[i : i + 16], "cutsets": ecuts, "no_request": True}))
    ebits2 = list(range(180 * 8)) if not quick else [b * 8 + ((b + ctx.seed) % 8) for b in range(180)]
    for i in range(0, len(ebits2), 12):
        work.append(("e2e_corrupt", {"bits": ebits2[i : i + 12]}))
    # end to end
    for sizes in ([1024], [1], [1023], [7, 1024, 3]):
        work.append(("e2e", {"sizes": sizes, "n": 2500 if sizes != [1] else 300}))
    ctx.pmap(_work, work)
    ctx.exhaustive = True
    ctx.bounds.update(outbound_lengths=f"0..{N}", graphs=len(graphs), corrupt_stream_bytes=len(stream), corrupt_bits=len(bits), corrupt_cutsets=len(allcuts))
    for s in CASES:
        ctx.require(ctx.acc.symbols[s] > 0, f"{s} never ran")

"""C13 faithful per-characteristic read/write outcomes: bounded-exhaustive enumeration of request sets x accessory
replies on the real pairing API (IP over the verified session; CoAP/BLE legs in c13_coap / c13_ble when present)."""
from __future__ import annotations

import itertools
import json

from vt import core
from vt.env.iprig import IpRig, std_handler

META = dict(
    level="exploration",
    engine="E3",
    technique="bounded-exhaustive enumeration of request sets x per-item status vectors x reply shapes (204/207/global status/partial lists/malformed entries) against the real get/put_characteristics on a scripted reference accessory, per transport",
    text="request sets of 1..n characteristics over 1-2 accessory ids with permissions {pr+pw, pw only, pw+tw} x every status vector over {0, each defined HAP code, its positive twin, "
    "an unknown code} x reply shape {204, 207 full list, 207 failed-only, 200 list, global status with partial list} x malformed entries {missing, duplicated, non-dict, id-less}; "
    "oracle: reads report value or status for every mentioned id and the global error for unmentioned ones; writes never present a rejected characteristic as written, never report an "
    "accepted one non-zero, listeners are notified for exactly accepted and readable characteristics, malformed entries never raise IP cells repeat under pre-histories (subscribed to the written characteristics, subscribed and reconnected, partly unsubscribed), legal HTTP spellings of the reply and other read-cutting environments; CoAP reads follow writes the accessory rejected and include success with an empty body. Also: caller-kept containers are left alone; overlapping readers on one pairing; CoAP error PDUs with a body; a CoAP write racing an event for the same characteristic (listeners are told the written value). Also histories written -> accessory database changed (permissions flipped) -> listed again -> written: the current database says what is readable. Also a fault (close, garbage, silence) at the k-th request a write call makes; BLE: rejected writes with subscriptions to restore around them and a hang-up during the restore.",
    note="ids a 207 does not mention are treated as accepted-or-don't-care for notifications (weakest reading); status-less entries in a write reply are not judged",
    design_ref="DESIGN.md §4 C13",
    rule="a case = (transport, operation, request set, reply description); distinct = distinct tuple; non-trivial = reply carries at least one non-zero status or malformed entry",
)

HAP_CODES = [-70401, -70402, -70403, -70404, -70405, -70406, -70407, -70408, -70409, -70410, -70411, -70412]
FULL = [0] + HAP_CODES + [-c for c in HAP_CODES] + [-12345, 99]
SMALL = [0, -70402, 70410, -12345]
READABLE = {(1, 9), (1, 10), (2, 9), (2, 10)}
WRITE_SETS = [[(1, 9)], [(1, 11)], [(1, 9), (1, 10)], [(1, 9), (1, 12)], [(1, 10), (2, 9)], [(1, 9), (1, 10), (2, 9)], [(1, 9), (1, 11), (2, 9), (2, 10)]]
READ_SETS = [[(1, 9)], [(1, 9), (1, 10)], [(1, 10), (2, 9)], [(1, 9), (1, 10), (2, 9)], [(1, 9), (1, 10), (2, 9), (2, 10)]]
MALFORMED = {"none": [], "bool": [True], "null": [None], "str": ["x"], "idless": [{"status": -70402}], "aidonly": [{"aid": 1, "status": -70402}], "list": [[1, 2]]}


def build_write_reply(ids, statuses, shape, malformed, dup):
    """-> (http code, body bytes) ; None body for 204."""
    entries = [{"aid": a, "iid": i, "status": s} for (a, i), s in zip(ids, statuses)]
    if shape == "204":
        return 204, b""
    if shape.startswith("http-"):
        # the accessory (or a proxy in front of it) refuses the whole request with an HTTP error status and no body at all
        return int(shape.split("-")[1]), b""
    if shape.startswith("global"):
        # request-wide error: {"status": g} with no list at all / with a list mentioning only the first id
        g = next((s for s in statuses if s != 0), -70407)
        body = {"status": g}
        if shape == "global-partial-list":
            body["characteristics"] = entries[:1]
        return 207, json.dumps(body).encode()
    if shape == "207-failed-only":
        entries = [e for e in entries if e["status"] != 0]
    if dup and entries:
        entries = entries + [dict(entries[0])]
    entries = list(MALFORMED[malformed]) + entries
    code = 200 if shape == "200-list" else 207
    return code, json.dumps({"characteristics": entries}).encode()


def case_ip_write(p):
    ids = [tuple(x) for x in p["ids"]]
    out = []
    rig = IpRig(seed=p.get("seed", 0), env=p.get("env"))
    n = 0
    try:
        reply = {}
        import json as _json

        def put(sess, method, target, headers, body):
            if any("ev" in c for c in _json.loads(body).get("characteristics", [])):
                return 204, b"", None  # a subscription request: always granted
            return reply["code"], reply["body"], "application/hap+json"

        inner = std_handler({("PUT", "/characteristics"): put})
        db = {}
        rig.acc.handler = lambda sess, method, target, headers, body: (200, _json.dumps(db["now"], separators=(",", ":")).encode(), "application/hap+json") if target == "/accessories" and db else inner(sess, method, target, headers, body)
        rig.acc.http_style = p.get("wire")
        rig.connect()
        readable = set(READABLE)
        if p.get("pre") in ("written-then-db-relisted", "written-then-db-relisted-twice"):
            # every id was written once (accepted); then the accessory's database changed - what could be read back cannot any more and the
            # other way round - and the application listed it again.  From then on the CURRENT database says what is readable.
            import copy

            from vt.env.iprig import ACCESSORIES_JSON

            reply["code"], reply["body"] = 204, b""
            rig.run(rig.pairing.list_accessories_and_characteristics())
            rig.run(rig.pairing.put_characteristics([(a, i, 1) for a, i in ids]))
            for _ in range(2 if p["pre"].endswith("twice") else 1):
                cur = copy.deepcopy(db.get("now", ACCESSORIES_JSON))
                for acc_ in cur["accessories"]:
                    for svc in acc_["services"]:
                        for ch in svc["characteristics"]:
                            k = (acc_["aid"], ch["iid"])
                            if k in ids:
                                if "pr" in ch["perms"]:
                                    ch["perms"] = [x for x in ch["perms"] if x not in ("pr", "ev")]
                                    ch.pop("value", None)
                                    readable.discard(k)
                                else:
                                    ch["perms"] = ["pr"] + ch["perms"]
                                    ch["value"] = 0
                                    readable.add(k)
                db["now"] = cur
                rig.run(rig.pairing.list_accessories_and_characteristics())
                if p["pre"].endswith("twice"):
                    rig.run(rig.pairing.put_characteristics([(a, i, 1) for a, i in ids]))
        # the pairing's history before the writes: none, subscribed to (some of) the written characteristics, subscribed and reconnected, ...
        pre = p.get("pre")
        if pre in ("subscribed", "subscribed-reconnected", "subscribed-unsubscribed"):
            rig.run(rig.pairing.subscribe(ids))
            if pre == "subscribed-unsubscribed":
                rig.run(rig.pairing.unsubscribe(ids[:1]))
            if pre == "subscribed-reconnected":
                rig.net.conns[-1].peer_close()
                rig.loop.run_until_idle()
                rig.connect()
        elif pre == "subscribed-first":
            rig.run(rig.pairing.subscribe(ids[:1]))
        notes = []
        kept_w = {}
        rig.pairing.dispatcher_connect(lambda ev: notes.append(dict(ev)))
        for statuses, shape, malformed, dup in p["replies"]:
            if shape == "204" and any(statuses):
                continue
            if shape.startswith("http-"):
                if any(statuses):
                    continue
                eff = [-70402] * len(ids)  # nothing was accepted: failing the call, or a non-zero status per id, are both fine; "written" is not
            elif shape.startswith("global"):
                if not any(statuses):
                    continue
                g = next(s for s in statuses if s != 0)
                # no list at all: the request-wide error rejects everything.  partial list: only the mentioned id is judged, the ids a reply
                # does not mention are don't-care (DESIGN section 7)
                eff = [g] * len(ids) if shape == "global-no-list" else [statuses[0] if statuses[0] != 0 else None] + [None] * (len(ids) - 1)
            elif not shape.startswith("http-"):
                eff = list(statuses)
            n += 1
            reply["code"], reply["body"] = build_write_reply(ids, statuses, shape, malformed, dup)
            del notes[:]
            vals = {k: (i + 1) for i, k in enumerate(ids)}
            det = {"transport": "ip", "ids": ids, "statuses": statuses, "shape": shape, "malformed": malformed, "dup": dup, "history": p.get("pre"), "wire": p.get("wire")}
            try:
                wcont = p.get("container") or "list"
                triples = [(a, i, vals[(a, i)]) for a, i in ids]
                # what a caller hands in is the caller's: a kept list handed in for every write, a tuple, a single-pass generator
                warg = kept_w.setdefault("c", list(triples)) if wcont == "kept-list" else {"tuple": tuple, "generator": lambda t: (x for x in t), "list-of-lists": lambda t: [list(x) for x in t]}.get(wcont, list)(triples)
                res = rig.run(rig.pairing.put_characteristics(warg))
                raised = None
                if isinstance(warg, (list, tuple)) and [tuple(x) for x in warg] != triples:
                    out.append(("ip:write-modifies-the-caller-s-list-of-values", dict(det, now=[list(x) for x in warg])))
                    break
            except Exception as e:  # noqa: BLE001
                res, raised = None, e
            if not rig.pairing.is_connected:
                rig.connect()
            if raised is not None:
                # raising is an acceptable way to fail a write with rejections; never acceptable for malformed-only or all-accepted replies
                if not any(eff):
                    out.append((f"ip:write-raises-on-accepted-write:{type(raised).__name__}:malformed={malformed}", det))
                elif malformed != "none":
                    out.append((f"ip:write-raises-on-malformed-entry:{type(raised).__name__}:{malformed}", det))
                continue
            notified = {}
            for ev in notes:
                notified.update(ev)
            for k, s in zip(ids, eff):
                r = res.get(k)
                if s is None:
                    continue  # first id of a partial list under a global error with its own status 0: not judged
                if s != 0:
                    if r is None or r.get("status") in (0, None):
                        out.append(("ip:rejected-write-not-reported", dict(det, key=k, result=res)))
                    elif r["status"] not in (s, -abs(s)) and not shape.startswith("global") and not shape.startswith("http-"):
                        out.append(("ip:rejected-write-reported-with-other-status", dict(det, key=k, got=r["status"])))
                    if k in notified:
                        out.append(("ip:listener-notified-of-rejected-write", dict(det, key=k)))
                else:
                    if r is not None and r.get("status") not in (0, None):
                        out.append(("ip:accepted-write-reported-non-zero", dict(det, key=k, got=r)))
                    mentioned = shape in ("207-full", "200-list")
                    if k in readable and k not in notified:
                        out.append(("ip:listener-not-notified-of-accepted-write" + (":mentioned-in-207" if mentioned else ":unmentioned"), dict(det, key=k)))
                    if k not in readable and k in notified:
                        out.append(("ip:listener-notified-for-unreadable-characteristic", dict(det, key=k)))
                    if k in notified and notified[k] != {"value": vals[k]}:
                        out.append(("ip:listener-notified-with-wrong-value", dict(det, key=k, got=notified[k])))
            if out:
                break
    finally:
        rig.close()
    p["_n"] = n
    return out


def case_ip_write_ack(p):
    """p: ids, fault ('close' | 'garbage' | 'mute'), at (which PUT of the call meets the fault: 2 = the second, if there is one).
    Every request of a write call that the accessory answered 'all accepted' - and whose answer reached the controller - counts: listeners
    hear of its readable characteristics whatever happens to later requests of the same call (however many requests the library makes of it)."""
    import json as _json

    ids = [tuple(x) for x in p["ids"]]
    out = []
    rig = IpRig(seed=p.get("seed", 0))
    try:
        seen = []

        def put(sess, method, target, headers, body):
            chars = _json.loads(body).get("characteristics", [])
            if any("ev" in c for c in chars):
                return 204, b"", None
            seen.append([(c["aid"], c["iid"]) for c in chars])
            if len(seen) == p["at"]:
                if p["fault"] == "close":
                    conn = next(c for c in rig.net.conns if getattr(c, "session", None) is sess)
                    rig.loop.call_soon(conn.peer_close)
                    return None
                if p["fault"] == "mute":
                    return None
                return 200, b"<html>busy</html>", "application/hap+json"
            return 204, b"", None

        rig.acc.handler = std_handler({("PUT", "/characteristics"): put})
        rig.connect()
        notes = []
        rig.pairing.dispatcher_connect(lambda ev: notes.append(dict(ev)))
        vals = {k: (i + 1) for i, k in enumerate(ids)}
        try:
            rig.run(rig.pairing.put_characteristics([(a, i, vals[(a, i)]) for a, i in ids]), horizon=120.0)
            raised = None
        except Exception as e:  # noqa: BLE001
            raised = type(e).__name__
        rig.loop.run_until_idle()
        notified = {}
        for ev in notes:
            notified.update(ev)
        acked = [k for n, req in enumerate(seen, 1) if n != p["at"] for k in req]
        det = {"ids": ids, "fault": p["fault"], "at": p["at"], "requests_made": [list(map(list, r)) for r in seen], "raised": raised}
        for k in acked:
            if k in READABLE and k not in notified:
                out.append(("ip:listener-not-notified-of-a-write-the-accessory-accepted-and-acknowledged", dict(det, key=k)))
            elif k in notified and notified[k] != {"value": vals[k]}:
                out.append(("ip:listener-notified-with-wrong-value", dict(det, key=k, got=notified[k])))
        failed = seen[p["at"] - 1] if len(seen) >= p["at"] else []
        for k in failed:
            if k in notified:
                out.append(("ip:listener-notified-of-a-write-that-was-never-acknowledged", dict(det, key=k)))
        if len(seen) >= p["at"] and raised is None:
            out.append(("ip:write-completes-though-a-request-of-it-went-unanswered", det))
    finally:
        rig.close()
    p["_n"] = 1
    return out


def build_read_reply(ids, statuses, shape, malformed, dup, gstatus):
    entries = []
    for (a, i), s in zip(ids, statuses):
        if s == "omit":
            continue
        e = {"aid": a, "iid": i}
        if s == 0:
            e["value"] = a * 100 + i
        elif s == "ok+status0":
            e["value"] = a * 100 + i
            e["status"] = 0
        else:
            e["status"] = s
        entries.append(e)
    if dup and entries:
        entries = entries + [dict(entries[0])]
    entries = list(MALFORMED[malformed]) + entries
    body = {"characteristics": entries}
    if gstatus is not None:
        body["status"] = gstatus
    if shape == "no-list":
        del body["characteristics"]
    return (207 if any(isinstance(s, int) and s != 0 for s in statuses) else 200), json.dumps(body).encode()


def _judge_read(res, ids, statuses, shape, gstatus, det):
    out = []
    for k, s in zip(ids, statuses):
        r = res.get(k)
        mentioned = s != "omit" and shape != "no-list"
        if mentioned:
            if r is None:
                out.append(("ip:read-result-missing-for-mentioned-characteristic", dict(det, key=k)))
            elif s in (0, "ok+status0"):
                if r.get("value") != k[0] * 100 + k[1] or r.get("status", 0) != 0:
                    out.append(("ip:read-value-wrong", dict(det, key=k, got=r)))
            elif r.get("status") not in (s, -abs(s)) or "value" in r:
                out.append(("ip:read-status-wrong", dict(det, key=k, got=r)))
        elif gstatus not in (None, 0):
            if r is None or r.get("status") not in (gstatus, -abs(gstatus)):
                out.append(("ip:global-error-not-applied-to-unmentioned-characteristic", dict(det, key=k, got=r)))
    extra = set(res) - set(ids)
    if extra:
        out.append(("ip:read-result-for-unrequested-characteristic", dict(det, extra=sorted(extra))))
    return out


def case_ip_read_big(p):
    """A read of many characteristics (a bridge poll).  However many requests the library turns it into, each characteristic ends up with what
    the accessory said in the answer to the request that carried it: a request-wide error belongs to the ids of THAT request only."""
    import json as _json

    n_ids, fail_at = p["n"], p["fail_at"]
    ids = [(1 + (k % 3), 100 + k) for k in range(n_ids)]
    out = []
    rig = IpRig(seed=p.get("seed", 0))
    try:
        said = {}
        nreq = {"n": 0}

        def get(sess, method, target, headers, body):
            asked = [tuple(int(y) for y in x.split(".")) for x in target.split("id=")[1].split("&")[0].split(",")]
            k = nreq["n"]
            nreq["n"] += 1
            if fail_at is not None and k == fail_at:
                for a in asked:
                    said[a] = ("status", -70407)
                return 207, _json.dumps({"status": -70407}).encode(), "application/hap+json"
            for a in asked:
                said[a] = ("value", a[0] * 1000 + a[1])
            return 200, _json.dumps({"characteristics": [{"aid": a, "iid": i, "value": a * 1000 + i} for a, i in asked]}).encode(), "application/hap+json"

        rig.acc.handler = std_handler({("GET", "/characteristics"): get})
        rig.connect()
        det = {"transport": "ip", "n_ids": n_ids, "request_answered_with_a_request_wide_error": fail_at}
        try:
            res = rig.run(rig.pairing.get_characteristics(list(ids)))
        except Exception as e:  # noqa: BLE001
            return [(f"ip:big-read-raises:{type(e).__name__}", dict(det, err=str(e)[:160]))]
        det["requests"] = nreq["n"]
        for a in ids:
            r = res.get(a)
            kind, v = said.get(a, ("never-asked", None))
            if kind == "never-asked":
                out.append(("ip:big-read:characteristic-never-requested", dict(det, key=a)))
            elif kind == "value" and (r is None or r.get("value") != v or r.get("status", 0) != 0):
                out.append(("ip:big-read:value-the-accessory-returned-replaced-by-something-else", dict(det, key=a, got=r)))
            elif kind == "status" and (r is None or r.get("status") not in (v, -abs(v)) or "value" in r):
                out.append(("ip:big-read:request-wide-error-not-applied-to-the-ids-of-its-request", dict(det, key=a, got=r)))
            if len(out) >= 3:
                break
    finally:
        rig.close()
    return out


def case_ip_read_overlap(p):
    """Several callers read at the same time on one pairing (the same ids, or different ones): the accessory is silent until all of them have
    asked, then answers one request after the other.  Every caller gets the outcome of every characteristic IT asked for."""
    import json as _json

    ids = [tuple(x) for x in p["ids"]]
    out = []
    rig = IpRig(seed=p.get("seed", 0))
    n = 0
    try:
        cur = {}

        def get(sess, method, target, headers, body):
            asked = [tuple(int(y) for y in x.split(".")) for x in target.split("id=")[1].split("&")[0].split(",")]
            st = [cur["statuses"][ids.index(a)] if a in ids else 0 for a in asked]
            code, body_ = build_read_reply(asked, st, cur["shape"], "none", False, cur["g"])
            return code, body_, "application/hap+json"

        rig.acc.handler = std_handler({("GET", "/characteristics"): get})
        rig.connect()
        for statuses, shape, gstatus in p["replies"]:
            for callers in p["callers"]:
                n += 1
                cur.update(statuses=statuses, shape=shape, g=gstatus)
                rig.auto_deliver = False
                sets = [ids if c == "same" else (ids[:1] if c == "first" else list(reversed(ids))) for c in callers]
                tasks = [rig.loop.create_task(rig.pairing.get_characteristics(list(s_))) for s_ in sets]
                for _ in range(6 * len(tasks) + 6):
                    rig.loop.run_until_idle()
                    if all(t.done() for t in tasks):
                        break
                    if rig.outbox:
                        cc, data = rig.outbox.pop(0)
                        cc.send(data)
                rig.auto_deliver = True
                det = {"transport": "ip", "ids": ids, "statuses": statuses, "shape": shape, "global": gstatus, "callers": list(callers)}
                for j, (t, s_) in enumerate(zip(tasks, sets)):
                    if not t.done():
                        t.cancel()
                        out.append(("ip:overlapping-read-never-completes", dict(det, caller=j)))
                    elif t.exception() is not None:
                        out.append((f"ip:overlapping-read-raises:{type(t.exception()).__name__}", dict(det, caller=j, err=str(t.exception())[:160])))
                    else:
                        st = [statuses[ids.index(a)] for a in s_]
                        out += [(sig + ":overlapping-callers", dict(d, caller=j)) for sig, d in _judge_read(t.result(), list(s_), st, shape, gstatus, det)]
                if out:
                    break
                if not rig.pairing.is_connected:
                    rig.connect()
            if out:
                break
    finally:
        rig.close()
    p["_n"] = n
    return out


def case_ip_read(p):
    ids = [tuple(x) for x in p["ids"]]
    out = []
    rig = IpRig(seed=p.get("seed", 0), env=p.get("env"))
    n = 0
    try:
        reply = {}
        rig.acc.handler = std_handler({("GET", "/characteristics"): lambda *a: (reply["code"], reply["body"], "application/hap+json")})
        rig.acc.http_style = p.get("wire")
        rig.connect()
        kept = {}
        for statuses, shape, malformed, dup, gstatus in p["replies"]:
            n += 1
            reply["code"], reply["body"] = build_read_reply(ids, statuses, shape, malformed, dup, gstatus)
            det = {"transport": "ip", "ids": ids, "statuses": statuses, "shape": shape, "malformed": malformed, "dup": dup, "global": gstatus, "wire": p.get("wire"), "container": p.get("container")}
            try:
                cont = p.get("container") or "list"
                if cont.startswith("kept-"):
                    # the caller keeps ONE container and hands it in for every read (a poller's set of ids): it is the caller's, a read leaves it alone
                    arg = kept.setdefault("c", {"kept-set": set, "kept-list": list, "kept-dict": lambda x: dict.fromkeys(x, None)}[cont](ids))
                else:
                    arg = {"generator": lambda: (i for i in ids), "iterator": lambda: iter(list(ids)), "map": lambda: map(tuple, [list(i) for i in ids]), "tuple": lambda: tuple(ids), "set": lambda: set(ids), "frozenset": lambda: frozenset(ids)}.get(cont, lambda: list(ids))()
                res = rig.run(rig.pairing.get_characteristics(arg))
                if isinstance(arg, (set, frozenset, list, tuple, dict)) and sorted(arg) != sorted(set(ids) if isinstance(arg, (set, frozenset, dict)) else ids):
                    out.append(("ip:read-modifies-the-caller-s-container-of-ids", dict(det, now=sorted(arg))))
                    break
            except Exception as e:  # noqa: BLE001
                out.append((f"ip:read-raises:{type(e).__name__}:malformed={malformed}:shape={shape}", dict(det, err=str(e)[:200])))
                if not rig.pairing.is_connected:
                    rig.connect()
                break
            out += _judge_read(res, ids, statuses, shape, gstatus, det)
            if out:
                break
    finally:
        rig.close()
    p["_n"] = n
    return out


CASES = {"ip_write_ack": case_ip_write_ack, "ip_write": case_ip_write, "ip_read": case_ip_read, "ip_read_overlap": case_ip_read_overlap, "ip_read_big": case_ip_read_big}
for _mod in ("c13_coap", "c13_ble"):
    try:
        _m = __import__(f"vt.props.{_mod}", fromlist=["CASES"])
        CASES.update(_m.CASES)
    except ImportError:
        pass


def _work(item, seed, tier):
    acc = core.Acc()
    name, p = item
    p = dict(p, seed=seed)
    v = CASES[name](p)
    n = p.pop("_n", 1)
    acc.case(key=(name, core.jsonable(p)), outcome=f"{name}:{'ok' if not v else v[0][0]}", sample={"case": name, "ids": p["ids"], "first_reply": core.jsonable(p["replies"][0]) if p.get("replies") else None}, symbols=(name,))
    acc.n += max(0, n - 1)
    for i in range(max(0, n - 1)):
        acc.keys.add(core.h64((name, core.jsonable(p), i)))
    acc.extra[f"{name}_replies"] += n
    for sig, detail in v:
        acc.violation(sig, name, p, detail)
    return acc


def vectors(n, quick):
    alph = FULL if n == 1 else (FULL if n in (2, 3) and not quick else SMALL)
    if n == 2 and quick:
        # every code against accepted/rejected neighbour
        return [(a, b) for a in FULL for b in (0, -70402)] + [(b, a) for a in FULL for b in (0, -70402)]
    return list(itertools.product(alph, repeat=n))


def plan(tier):
    quick = tier == "quick"
    work = []
    for ids in WRITE_SETS:
        if quick and len(ids) > 3:
            continue
        reps = []
        for vec in vectors(len(ids), quick):
            for shape in ("204", "207-full", "207-failed-only", "200-list") + (("http-400", "http-422", "http-470", "http-404", "http-500", "http-503") if not any(vec) else ()):
                reps.append((list(vec), shape, "none", False))
            if vec[0] != 0 and not any(vec[1:]):
                for shape in ("global-no-list", "global-partial-list"):
                    reps.append((list(vec), shape, "none", False))
        base = [0] * len(ids)
        rej = [-70402] + [0] * (len(ids) - 1)
        for m in MALFORMED:
            for dup in (False, True):
                for vec in (base, rej, list(reversed(rej))):
                    reps.append((vec, "207-full", m, dup))
        for i in range(0, len(reps), 120):
            work.append(("ip_write", {"ids": ids, "replies": reps[i : i + 120]}))
            if i == 0 or not quick:
                for pre in ("subscribed", "subscribed-first", "subscribed-reconnected", "subscribed-unsubscribed", "written-then-db-relisted", "written-then-db-relisted-twice"):
                    work.append(("ip_write", {"ids": ids, "replies": reps[i : i + 120], "pre": pre}))
                for wire in ("chunked", "lower", "chunked-2") if quick else ("chunked", "lower", "chunked-2", "upper", "mixed", "lws", "extra-headers", "chunked-lower"):
                    work.append(("ip_write", {"ids": ids, "replies": reps[i : i + 120], "wire": wire}))
                for cont in ("kept-list", "tuple", "generator", "list-of-lists"):
                    work.append(("ip_write", {"ids": ids, "replies": reps[i : i + 120], "container": cont}))
                work.append(("ip_write", {"ids": ids, "replies": reps[i : i + 120], "wire": "chunked-lower", "env": dict(delivery="bytes", frames=[7])}))
                work.append(("ip_write", {"ids": ids, "replies": reps[i : i + 120], "env": dict(delivery="3/4", frames=[48])}))
    for ids in READ_SETS:
        if quick and len(ids) > 3:
            continue
        reps = []
        alph = [0, "ok+status0", "omit"] + (FULL[1:] if len(ids) <= (2 if quick else 3) else SMALL[1:])
        for vec in itertools.product(alph, repeat=len(ids)):
            reps.append((list(vec), "list", "none", False, None))
        for g in (-70402, 70402, -12345, 0):
            for vec in itertools.product([0, "omit", -70409], repeat=len(ids)):
                reps.append((list(vec), "list", "none", False, g))
            reps.append((["omit"] * len(ids), "no-list", "none", False, g))
        for m in MALFORMED:
            for dup in (False, True):
                reps.append(([0] * len(ids), "list", m, dup, None))
                reps.append((["omit"] + [0] * (len(ids) - 1), "list", m, dup, -70402))
        for i in range(0, len(reps), 150):
            work.append(("ip_read", {"ids": ids, "replies": reps[i : i + 150]}))
            if i == 0 or not quick:
                for wire in ("chunked", "lower", "chunked-2") if quick else ("chunked", "lower", "chunked-2", "upper", "mixed", "lws", "extra-headers", "chunked-lower"):
                    work.append(("ip_read", {"ids": ids, "replies": reps[i : i + 150], "wire": wire}))
                for cont in ("generator", "iterator", "map", "tuple", "set", "frozenset", "kept-set", "kept-list", "kept-dict"):
                    work.append(("ip_read", {"ids": ids, "replies": reps[i : i + 150], "container": cont}))
                work.append(("ip_read", {"ids": ids, "replies": reps[i : i + 150], "wire": "chunked-lower", "env": dict(delivery="bytes", frames=[7])}))
                work.append(("ip_read", {"ids": ids, "replies": reps[i : i + 150], "env": dict(delivery="3/4", frames=[48])}))
    # a fault at the k-th request a write call makes (k = 1: the only one, if the library sends one request; k = 2, 3: only if it splits)
    for ids in WRITE_SETS + [[(2, 9), (1, 9)], [(1, 9), (2, 9), (1, 10), (2, 10)], [(2, 10), (2, 9), (1, 10)]]:
        for fault in ("close", "garbage", "mute"):
            for at in (1, 2, 3):
                work.append(("ip_write_ack", {"ids": ids, "fault": fault, "at": at}))
    # big reads (bridge polls): if the library splits them, a request-wide error belongs to its own request
    for n_ in (10, 48, 49, 97, 150, 400):
        for fail_at in (None, 0, 1, 2, 3):
            work.append(("ip_read_big", {"ids": [n_], "replies": [None], "n": n_, "fail_at": fail_at}))
    # overlapping readers on one pairing
    for ids in ([(1, 9)], [(1, 9), (1, 10)], [(1, 9), (2, 9), (1, 10)]):
        reps = [([0] * len(ids), "list", None), ([0] + [-70402] * (len(ids) - 1), "list", None), ([0] + ["omit"] * (len(ids) - 1), "list", -70402), (["omit"] * len(ids), "no-list", -70402)]
        callers = [("same", "same"), ("same", "same", "same"), ("same", "first"), ("first", "same"), ("same", "reversed"), ("first", "same", "reversed")]
        work.append(("ip_read_overlap", {"ids": ids, "replies": reps, "callers": callers}))
    for _mod in ("c13_coap", "c13_ble"):
        try:
            _m = __import__(f"vt.props.{_mod}", fromlist=["plan"])
            work += _m.plan(tier)
        except ImportError:
            pass
    return work


def run(ctx):
    work = plan(ctx.tier)
    ctx.pmap(_work, work)
    ctx.exhaustive = True
    ctx.bounds.update(write_sets=WRITE_SETS, read_sets=READ_SETS, status_alphabet_full=FULL, status_alphabet_small=SMALL, malformed=list(MALFORMED))
    for s in ("ip_write", "ip_read"):
        ctx.require(ctx.acc.symbols[s] > 0, f"{s} never ran")

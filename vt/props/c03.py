"""C03 pair-setup: fault enumeration over M2/M4/M6 against the real perform_pair_setup_part1/part2 generators."""
from __future__ import annotations

from vt import core
from vt.env import pairdrv
from vt.env.setupdrv import SetupRun
from vt.ref import crypto as C
from vt.ref import hap, tlv8

META = dict(
    level="fault_enumeration",
    engine="E3",
    technique="exhaustive fault enumeration (every bit of proof / M6 wire / signature / key, structural edits, wrong keys, nonces, codes, re-binding) of accessory replies against the real pair-setup generators, judged by an independent reference accessory/acceptor; plus exhaustive bounded histories of pairing attempts (right/wrong code, link loss at every transport operation, restarts) through the IP, BLE and CoAP discovery APIs against the reference pair-setup service",
    text="each execution replays M1..M5 of the real generators against a reference accessory and then injects one member "
    "of the adversary alphabet at M2, M4 or M6; a reference acceptor classifies the M6 (authentic iff it opens under the "
    "exchange key and carries a valid signature by the key it presents over AccessoryX|id|key); forged must raise and return "
    "nothing, honest must return self-consistent data and the reference accessory must have accepted M3 and M5 Plus, through the public discovery API of each transport (IpDiscovery / BleDiscovery / CoAPDiscovery on fake transports): every bounded history of {start, finish(right code), finish(wrong code), link loss at each transport operation of an attempt, restart} against a reference pair-setup service; the conformant accessory's verdict log is the oracle (an M3 built with the right code in a live exchange is accepted, what is returned was accepted and registered). Also: two / three pairings in one process over all transport pairs (earlier records re-examined afterwards); the accessory factory-reset and paired again through the same discovery object. A proof the reference accessory accepts for a code other than the typed one is a violation (state shared between attempts). Also an M4 with a trailing 900-byte MFi item cut 1..940 bytes short.",
    note="SRP/Ed25519/ChaCha20-Poly1305 strength outside the alphabet is assumed; one setup code/identity per tier row",
    design_ref="DESIGN.md §4 C03",
    debug_pass="thorough",
    rule="a case = (config, decode style, fault, argument); distinct = distinct tuple; every case runs the full M1..M5 prefix on the real code",
    assumptions=["cryptography wheel primitives correct", "reference SRP validated against RFC 5054 app. B"],
)

CONFIGS = [
    dict(code="111-22-333", ios_id="decc6fa3-de3e-41c9-adba-ef7409821bfc", acc_id="AA:BB:CC:DD:EE:FF", with_auth=True),
    dict(code="000-00-000", ios_id="i", acc_id="X", with_auth=False),
    dict(code="999-99-999", ios_id="I" * 36, acc_id="0123456789abcdef0123456789abcdef0123", with_auth=True),
]


def _flip(b, bit):
    m = bytearray(b)
    m[bit // 8] ^= 1 << (bit % 8)
    return bytes(m)


CONFIGS.append(dict(code="111-22-333", ios_id="decc6fa3-de3e-41c9-adba-ef7409821bfc", acc_id=None, acc_id_bytes=bytes.fromhex("aabbccddeeff"), with_auth=True))  # raw 6-byte id: not UTF-8
CONFIGS.append(dict(code="111-22-333", ios_id="decc6fa3-de3e-41c9-adba-ef7409821bfc", acc_id=None, acc_id_bytes="Küche".encode("latin-1"), with_auth=True))
N_BASE = len(CONFIGS)


def _mined():
    import json
    import os

    with open(os.path.join(os.path.dirname(os.path.dirname(__file__)), "data", "srp_corpus.json")) as f:
        return json.load(f)


# configs 3.. : directed SRP exchanges whose A / B / S / K / M1 / M2 / u start with a zero byte (inputs mined with the reference only)
for _m in _mined():
    if _m["target"] in ("A", "B", "S", "K", "M1", "M2", "u", "A00", "HIP", "HIP00", "x"):
        CONFIGS.append(dict(code=_m["code"], ios_id="decc6fa3-de3e-41c9-adba-ef7409821bfc", acc_id="AA:BB:CC:DD:EE:FF", with_auth=True, srp=_m))


def _run(cfg, style, seed):
    c = CONFIGS[cfg]
    acc_id = c["acc_id"].encode() if c.get("acc_id") is not None else c["acc_id_bytes"]
    return SetupRun(f"{seed}|{cfg}", style, code=c["code"], ios_id=c["ios_id"], acc_id=acc_id, with_auth=c["with_auth"], srp=c.get("srp"))


def classify_m6(wire, acc: hap.SetupAccessory, honest_wire):
    if wire == honest_wire:
        return "honest", None
    raw, ok = tlv8.parse_raw(wire)
    if not ok:
        return "forged", None
    d = dict(tlv8.merge(raw))
    if hap.T_STATE in d and d[hap.T_STATE] != b"\x06":
        return "forged", None
    if hap.T_ERROR in d:
        return "variant", None
    if hap.T_ENC not in d:
        return "forged", None
    k = acc.keys()
    pt = C.open_(k["enc"], C.nonce_str(b"PS-Msg06"), d[hap.T_ENC])
    if pt is None:
        return "forged", None
    sraw, sok = tlv8.parse_raw(pt)
    if not sok:
        return "forged", None
    sub = tlv8.merge(sraw)
    ids = [v for t, v in sub if t == hap.T_ID]
    pks = [v for t, v in sub if t == hap.T_PK]
    sigs = [v for t, v in sub if t == hap.T_SIG]
    for i in ids:
        for pk in pks:
            for s in sigs:
                if len(pk) == 32 and C.ed_verify(pk, s, k["acc_x"] + i + pk):
                    return "variant", (i, pk)
    return "forged", None


def _interleave(extra, sub):
    """extra items first, then the authentic ones, never two items of one type next to each other (a signature item is used as the divider)"""
    sig = [i for i in sub if i[0] == hap.T_SIG]
    rest = [i for i in sub if i[0] != hap.T_SIG]
    return list(extra) + sig + rest


def case_setup(p):
    cfg, style, fault, arg = p["cfg"], p["style"], p["fault"], p.get("arg")
    run = _run(cfg, style, p.get("seed", 0))
    acc = run.acc
    det = {"cfg": cfg, "style": style, "fault": fault, "arg": arg}
    stage = fault.split("-")[0]

    def must_raise(st, sig):
        det["outcome"] = st.label
        return [] if st.kind == "raise" else [(sig, dict(det))]

    # ---------------- M2 faults
    if stage == "m2":
        st = run.start()
        if st.kind != "request":
            return [("m1-not-yielded", det)]
        if run.m1.get(hap.T_STATE) != b"\x01" or run.m1.get(hap.T_METHOD) != (b"\x01" if CONFIGS[cfg]["with_auth"] else b"\x00"):
            return [("m1-malformed", {**det, "m1": run.m1})]
        items = acc.m2()
        if fault == "m2-error-extra":
            return must_raise(run.feed_m2(tlv8.encode(items + [(hap.T_ERROR, bytes(arg))])), f"m2-with-error-item-accepted:{bytes(arg).hex() or 'empty'}")
        if fault == "m2-omit":
            items = [i for i in items if i[0] != arg]
            return must_raise(run.feed_m2(tlv8.encode(items)), f"m2-without-field-accepted:{arg}")
        if fault == "m2-empty":
            return must_raise(run.feed_m2(b""), "empty-m2-accepted")
        if fault == "m2-state-alter":
            from vt.props.c01 import STATE_ALTER

            alt = [x for t, v in items for x in (STATE_ALTER[arg](b"\x02") if t == hap.T_STATE else [(t, v)])]
            return must_raise(run.feed_m2(tlv8.encode(alt)), f"altered-state-m2-accepted:{arg}")
        if fault == "m2-corrupt-salt":
            items = [(t, _flip(v, arg) if t == hap.T_SALT else v) for t, v in items]
        elif fault == "m2-corrupt-B":
            items = [(t, _flip(v, arg) if t == hap.T_PK else v) for t, v in items]
        elif fault == "m2-B-special":
            val = {"zero": bytes(384), "N": hap.G.pad(0)[:0] + hap.G.N.to_bytes(384, "big"), "one": (1).to_bytes(384, "big"), "short": acc.B_pad[:383], "empty": b"\x00"}[arg]
            items = [(t, val if t == hap.T_PK else v) for t, v in items]
        st = run.feed_m2(tlv8.encode(items))
        if st.kind == "raise":
            return []
        salt, pk = st.value
        st = run.start_part2(salt, pk)
        if st.kind == "raise":
            return []
        if st.kind != "request":
            return [("part2-returned-without-exchange", det)]
        m4 = acc.handle_m3(run.m3)  # the genuine accessory's verdict on a proof derived from tampered M2
        if acc.m3_ok:
            return [("harness:tampered-m2-still-verifies", det)] if fault != "m2-B-special" else []
        out = must_raise(run.feed(tlv8.encode(m4)), "error-m4-after-tampered-m2-accepted")
        # the MITM may instead answer with a proof-less or random-proof M4
        for alt, sig in (([(hap.T_STATE, b"\x04")], "proofless-m4-accepted"), ([(hap.T_STATE, b"\x04"), (hap.T_PROOF, C.det_bytes(run.seed, "randproof", 64))], "random-proof-m4-accepted")):
            r2 = _run(cfg, style, p.get("seed", 0))
            r2.start()
            s2 = r2.feed_m2(tlv8.encode(items))
            if s2.kind != "return":
                continue
            s2 = r2.start_part2(*s2.value)
            if s2.kind != "request":
                continue
            out += must_raise(r2.feed(tlv8.encode(alt)), sig)
        return out

    # ---------------- M4 faults
    if stage == "m4":
        st = run.honest_until("m3")
        if st.kind != "request":
            return [("honest-prefix-failed-before-m3", {**det, "outcome": st.label})]
        m4 = acc.handle_m3(run.m3)
        if not acc.m3_ok:
            return [("accessory-rejects-controller-m3", det)]
        proof = dict(m4)[hap.T_PROOF]
        if fault == "m4-proof-bitflip":
            items = [(hap.T_STATE, b"\x04"), (hap.T_PROOF, _flip(proof, arg))]
        elif fault == "m4-error-extra":
            items = [(hap.T_STATE, b"\x04"), (hap.T_PROOF, proof), (hap.T_ERROR, bytes(arg))]
        elif fault == "m4-state-alter":
            from vt.props.c01 import STATE_ALTER

            items = STATE_ALTER[arg](b"\x04") + [(hap.T_PROOF, proof)]
        elif fault == "m4-no-proof":
            items = [(hap.T_STATE, b"\x04")]
        elif fault == "m4-empty-proof":
            items = [(hap.T_STATE, b"\x04"), (hap.T_PROOF, b"")]
        elif fault == "m4-proof-trunc":
            items = [(hap.T_STATE, b"\x04"), (hap.T_PROOF, proof[:arg])]
        elif fault == "m4-mfi-wire-trunc":
            # an accessory with an authentication coprocessor appends its MFi proof (about 900 bytes of EncryptedData) to M4; the message is cut
            # `arg` bytes short (inside that last item, on a fragment boundary, inside the proof): a truncated message fails, whatever was cut
            wire = tlv8.encode([(hap.T_STATE, b"\x04"), (hap.T_PROOF, proof), (hap.T_ENC, C.det_bytes(run.seed, "mfi", 900))])
            raw, ok = __import__("vt.ref.tlv8", fromlist=["x"]).parse_raw(wire[: len(wire) - arg])
            if ok:
                return []  # the cut fell between two items: what is left is a complete (shorter) message, judged by the other M4 faults
            return must_raise(run.feed(wire[: len(wire) - arg]), "truncated-m4-accepted:cut-inside-the-trailing-encrypted-data-item" if arg < 900 else "truncated-m4-accepted")
        elif fault == "m4-proof-tail":
            items = [(hap.T_STATE, b"\x04"), (hap.T_PROOF, proof[-arg:])]
            if not any(proof[:-arg]):
                return []  # the dropped leading bytes are all zero: numerically the same proof
        elif fault == "m4-proof-is-m1":
            items = [(hap.T_STATE, b"\x04"), (hap.T_PROOF, run.m3[hap.T_PROOF])]
        elif fault == "m4-proof-zero":
            items = [(hap.T_STATE, b"\x04"), (hap.T_PROOF, bytes(64))]
        elif fault == "m4-wrong-code-proof":
            # an accessory that does not know the code but sends "its" proof computed with its own idea of K
            bad = hap.SetupAccessory(run.ident, "123-45-678", acc.salt, acc.b)
            bad.B_pad = acc.B_pad  # it presented the same B (it is the MITM relaying M2)
            A = int.from_bytes(run.m3[hap.T_PK], "big")
            u = int.from_bytes(hap.G.H(hap.G.pad(A), acc.B_pad), "big")
            S = pow(A * pow(bad.v, u, hap.G.N) % hap.G.N, acc.b, hap.G.N)
            K = hap.G.H(hap.G.pad(S))
            items = [(hap.T_STATE, b"\x04"), (hap.T_PROOF, hap.G.H(hap.G.pad(A), run.m3[hap.T_PROOF], K))]
        elif fault == "m4-proof-of-other-exchange":
            o = hap.SetupAccessory(run.ident, acc.code, acc.salt, acc.b + 1)
            o.handle_m3({**run.m3})
            # o rejects (different B) -> craft its proof regardless
            A = int.from_bytes(run.m3[hap.T_PK], "big")
            u = int.from_bytes(hap.G.H(hap.G.pad(A), o.B_pad), "big")
            S = pow(A * pow(o.v, u, hap.G.N) % hap.G.N, o.b, hap.G.N)
            K = hap.G.H(hap.G.pad(S))
            items = [(hap.T_STATE, b"\x04"), (hap.T_PROOF, hap.G.H(hap.G.pad(A), run.m3[hap.T_PROOF], K))]
        else:
            raise core.HarnessError(fault)
        return must_raise(run.feed(tlv8.encode(items)), f"bad-m4-accepted:{fault}")

    if fault == "wrongcode":
        c = CONFIGS[cfg]
        run = SetupRun(f"{p.get('seed', 0)}|{cfg}", style, code=c["code"], acc_code=arg, ios_id=c["ios_id"], acc_id=c["acc_id"].encode())
        st = run.honest_until("m5")
        det["outcome"] = st.label
        if run.acc.m3_ok:
            return [("accessory-accepts-wrong-code", det)]
        return [] if st.kind == "raise" else [("wrong-code-pairing-continued", det)]

    # ---------------- M6 faults (and honest)
    st = run.honest_until("m5")
    if st.kind != "request":
        return [("honest-prefix-failed-before-m5", {**det, "outcome": st.label})]
    if not acc.m3_ok:
        return [("accessory-rejects-controller-m3", det)]
    m6_honest_items = acc.handle_m5(run.m5)
    if not acc.m5_ok:
        return [("accessory-rejects-controller-m5", det)]
    honest = tlv8.encode(m6_honest_items)
    k = acc.keys()
    f = fault
    if f == "honest":
        wire = honest
    elif f == "m6-wire-bitflip":
        wire = _flip(honest, arg)
    elif f == "m6-trunc":
        wire = honest[:arg]
    elif f == "m6-wrong-key":
        wire = tlv8.encode(acc.m6(enc_key=C.det_bytes(run.seed, "wrongkey")))
    elif f == "m6-wrong-nonce":
        wire = tlv8.encode(acc.m6(nonce=arg.encode()))
    elif f == "m6-echo-m5":
        wire = tlv8.encode([(hap.T_STATE, b"\x06"), (hap.T_ENC, run.m5[hap.T_ENC])])
    elif f == "m6-omit":
        wire = tlv8.encode(acc.m6(omit=(arg,)))
    elif f == "m6-omit-but-in-envelope":
        # a required item is missing from the encrypted part and an item of that type travels OUTSIDE it, in the plaintext envelope (where
        # anybody on the path can put it): a required item that is not under the PS-Msg06 seal is missing
        which, val = arg
        true = {hap.T_ID: run.ident.id, hap.T_PK: run.ident.pk, hap.T_SIG: None}[which]
        items = acc.m6(omit=(which,))
        if which == hap.T_SIG:
            full = dict(tlv8.decode(C.open_(k["enc"], C.nonce_str(b"PS-Msg06"), dict(m6_honest_items)[hap.T_ENC])))
            true = full[hap.T_SIG]
        outside = true if val == "true" else {hap.T_ID: run.other.id, hap.T_PK: run.other.pk, hap.T_SIG: bytes(64)}[which]
        wire = tlv8.encode(list(items) + [(which, outside)])
    elif f == "m6-sig-bitflip":
        wire = tlv8.encode(acc.m6(sub_override=lambda sub: [(t, _flip(v, arg) if t == hap.T_SIG else v) for t, v in sub]))
    elif f == "m6-pk-bitflip":
        wire = tlv8.encode(acc.m6(sub_override=lambda sub: [(t, _flip(v, arg) if t == hap.T_PK else v) for t, v in sub]))
    elif f == "m6-id-bitflip":
        wire = tlv8.encode(acc.m6(sub_override=lambda sub: [(t, _flip(v, arg) if t == hap.T_ID else v) for t, v in sub]))
    elif f == "m6-sig-over-other-id":
        wire = tlv8.encode(acc.m6(signed_id=run.other.id))
    elif f == "m6-sig-over-other-pk":
        wire = tlv8.encode(acc.m6(signed_pk=run.other.pk))
    elif f == "m6-signed-by-other-key":
        wire = tlv8.encode(acc.m6(signer=run.other))
    elif f == "m6-presented-other-pk":
        wire = tlv8.encode(acc.m6(sub_override=lambda sub: [(t, run.other.pk if t == hap.T_PK else v) for t, v in sub]))
    elif f == "m6-other-identity-consistent":
        wire = tlv8.encode(acc.m6(ident=run.other))
    elif f == "m6-second-identity":
        # the authentic items plus a second, unsigned identifier / key (not adjacent to the first of its type, so TLV8 keeps them apart): what
        # comes back, if anything, is the identity the signature covers
        extra = {"id": [(hap.T_ID, run.other.id)], "pk": [(hap.T_PK, run.other.pk)], "both": [(hap.T_ID, run.other.id), (hap.T_PK, run.other.pk)]}[arg[0]]
        if arg[1] == "after":
            wire = tlv8.encode(acc.m6(sub_override=lambda sub: list(sub) + extra))
        else:
            wire = tlv8.encode(acc.m6(sub_override=lambda sub: _interleave(extra, list(sub))))
    elif f == "m6-sig-with-x":
        # signature computed with the wrong HKDF label for AccessoryX
        x = {"ctrl": k["ctrl_x"], "enc": k["enc"], "K": acc.K[:32], "none": b""}[arg]
        sig = run.ident.sign(x + run.ident.id + run.ident.pk)
        wire = tlv8.encode(acc.m6(sub_override=lambda sub: [(t, sig if t == hap.T_SIG else v) for t, v in sub]))
    elif f == "m6-sig-trunc":
        wire = tlv8.encode(acc.m6(sub_override=lambda sub: [(t, v[:arg] if t == hap.T_SIG else v) for t, v in sub]))
    elif f == "m6-error-extra":
        wire = tlv8.encode(list(m6_honest_items) + [(hap.T_ERROR, bytes(arg))])
    elif f == "m6-no-enc":
        wire = tlv8.encode([(hap.T_STATE, b"\x06")])
    elif f == "m6-state-alter":
        from vt.props.c01 import STATE_ALTER

        # the state item of M6 lies outside the encrypted part: nothing but the reply check itself notices an alteration of it
        wire = tlv8.encode([x for t, v in m6_honest_items for x in (STATE_ALTER[arg](b"\x06") if t == hap.T_STATE else [(t, v)])])
    else:
        raise core.HarnessError(fault)
    verdict, presented = classify_m6(wire, acc, honest)
    if f in ("m6-state-alter", "m6-omit-but-in-envelope"):
        verdict = "forged"  # an altered message makes pairing fail
    if f == "m6-error-extra":
        verdict = "forged"  # the accessory flags an error: nothing may be returned, whatever else the reply carries
    p["_verdict"] = verdict
    st = run.feed(wire)
    det.update(verdict=verdict, outcome=st.label)
    if verdict == "forged":
        return [] if st.kind == "raise" else [(f"forged-m6-accepted:{fault}", det)]
    if st.kind == "request":
        return [("setup-continues-after-m6", det)]
    out = []
    if verdict == "honest":
        if st.kind != "return":
            if CONFIGS[cfg].get("acc_id") is None and st.kind == "raise":
                return []  # an identifier that is not text: failing (and returning nothing) is fine, returning a different identifier is not
            return [("honest-pairing-failed", det)]
        presented = (run.ident.id, run.ident.pk)
    if st.kind == "return":
        r = st.value
        try:
            ltsk = bytes.fromhex(r["iOSDeviceLTSK"])
            if C.ed_pub_bytes(C.ed_priv(ltsk)).hex() != r["iOSDeviceLTPK"]:
                out.append(("returned-ltsk-ltpk-mismatch", det))
            if presented and (r["AccessoryPairingID"].encode("utf-8", "surrogateescape") != presented[0] or bytes.fromhex(r["AccessoryLTPK"]) != presented[1]):
                out.append(("returned-accessory-identity-not-the-authenticated-one", det))
            if r["iOSPairingId"] != CONFIGS[cfg]["ios_id"]:
                out.append(("returned-ios-pairing-id-differs", det))
            if acc.controller != (CONFIGS[cfg]["ios_id"].encode(), bytes.fromhex(r["iOSDeviceLTPK"])):
                out.append(("accessory-registered-different-controller-key", det))
        except Exception as e:  # noqa: BLE001
            out.append((f"returned-data-unusable:{type(e).__name__}", det))
    return out


CASES = {"setup": case_setup}
from vt.props import c03_api  # noqa: E402

CASES.update(c03_api.CASES)


def _work_api(item, seed, tier):
    acc = core.Acc()
    for p in item:
        p = dict(p, seed=seed)
        v = c03_api.case_history(p)
        trace = p.pop("_trace", [])
        p.pop("_ops", None)
        acc.case(key=("api", core.jsonable(p)), outcome=f"api:{p['transport']}:{'/'.join(str(t[1]) for t in trace)}:{'ok' if not v else v[0][0]}", sample={"case": "api_history", "params": p},
                 symbols=("api", f"api:{p['transport']}") + tuple(f"api-op:{o.partition('@')[0]}" for o in p["ops"]) + (("api:paired",) if any(t[1] == "ret" for t in trace) else ()))
        for sig, detail in v:
            if sig.startswith("harness:"):
                raise core.HarnessError(f"{sig} {detail}")
            acc.violation(sig, "api_history", p, detail)
    return acc


def _work_two(item, seed, tier):
    acc = core.Acc()
    for p in item:
        p = dict(p, seed=seed)
        v = c03_api.case_two_pairings(p)
        acc.case(key=("two", core.jsonable(p)), outcome=f"two:{'ok' if not v else v[0][0]}", sample={"case": "two_pairings", "params": p}, symbols=("two_pairings",))
        for sig, detail in v:
            acc.violation(sig, "two_pairings", p, detail)
    return acc


def _work(item, seed, tier):
    acc = core.Acc()
    for p in item:
        p = dict(p, seed=seed)
        v = case_setup(p)
        verdict = p.pop("_verdict", None)
        acc.case(key=core.jsonable(p), outcome=f"{p['fault']}:{verdict}:{'ok' if not v else v[0][0]}", sample={"case": "setup", "params": p},
                 symbols=(p["fault"], f"style:{p['style']}") + ((f"verdict:{verdict}",) if verdict else ()))
        for sig, detail in v:
            if sig.startswith("harness:"):
                raise core.HarnessError(f"{sig} {detail}")
            acc.violation(sig, "setup", p, detail)
    return acc


def run(ctx):
    quick = ctx.tier == "quick"
    cfgs = [0] if quick else [0, 1, 2]
    bitsel = (lambda nbits: [by * 8 + ((by + ctx.seed) % 8) for by in range(nbits // 8)]) if quick else (lambda nbits: list(range(nbits)))
    plist = []
    for cfg in cfgs:
        run0 = _run(cfg, "ip", ctx.seed)
        run0.honest_until("m5")
        m6len = len(tlv8.encode(run0.acc.handle_m5(run0.m5)))
        idlen = len(run0.ident.id)
        fl = [("honest", None)]
        fl += [("m2-omit", t) for t in (hap.T_SALT, hap.T_PK)] + [("m2-empty", None)]
        fl += [(f"{m}-state-alter", a) for m in ("m2", "m4", "m6") for a in ("zero-ext", "zero-ext-3", "lead-zero", "two-items", "ff-ext")]
        fl += [("m2-corrupt-salt", b) for b in (bitsel(128)[:: 4 if quick else 1])]
        fl += [("m2-corrupt-B", b) for b in (0, 7, 8, 1535, 3064, 3071) + (() if quick else tuple(range(16, 3072, 128)))]
        fl += [("m2-B-special", s) for s in ("zero", "N", "one", "short", "empty")]
        fl += [("m4-proof-bitflip", b) for b in bitsel(512)]
        fl += [("m4-no-proof", None), ("m4-empty-proof", None), ("m4-proof-is-m1", None), ("m4-proof-zero", None), ("m4-wrong-code-proof", None), ("m4-proof-of-other-exchange", None)]
        errs = [b"\x00", b"\x01", b"\x02", b"\x08", b"\x12", b"\x42", b"\x82", b"\xff", b"", b"\x02\x00"]
        fl += [(f"{m}-error-extra", e) for m in ("m2", "m4", "m6") for e in errs]
        fl += [("m4-proof-trunc", n) for n in (1, 32, 63)] + [("m4-proof-tail", n) for n in (1, 2, 32, 63)]
        fl += [("m4-mfi-wire-trunc", n) for n in ((1, 2, 3, 40, 135, 136, 137, 390, 391, 392, 600, 899, 905, 915, 940) if quick else tuple(range(1, 975)))]
        fl += [("wrongcode", c) for c in ("111-22-334", "000-00-001", "11122333")]
        fl += [("m6-wire-bitflip", b) for b in bitsel(m6len * 8)]
        fl += [("m6-trunc", n) for n in (range(0, m6len, 5) if quick else range(m6len))]
        fl += [("m6-wrong-key", None), ("m6-echo-m5", None), ("m6-no-enc", None)] + [("m6-wrong-nonce", n) for n in ("PS-Msg05", "PS-Msg04", "PV-Msg02")]
        fl += [("m6-omit", t) for t in (hap.T_ID, hap.T_PK, hap.T_SIG)]
        fl += [("m6-omit-but-in-envelope", (t, v_)) for t in (hap.T_ID, hap.T_PK, hap.T_SIG) for v_ in ("true", "other")]
        fl += [("m6-sig-bitflip", b) for b in bitsel(512)]
        fl += [("m6-pk-bitflip", b) for b in bitsel(256)]
        fl += [("m6-id-bitflip", b) for b in bitsel(idlen * 8)]
        fl += [("m6-sig-over-other-id", None), ("m6-sig-over-other-pk", None), ("m6-signed-by-other-key", None), ("m6-presented-other-pk", None), ("m6-other-identity-consistent", None)]
        fl += [("m6-second-identity", [w, pos]) for w in ("id", "pk", "both") for pos in ("after", "before")]
        fl += [("m6-sig-with-x", x) for x in ("ctrl", "enc", "K", "none")] + [("m6-sig-trunc", n) for n in (0, 32, 63)]
        for style in pairdrv.STYLES:
            plist += [{"cfg": cfg, "style": style, "fault": f, "arg": a} for f, a in fl]
    # directed SRP boundary exchanges: honest run + one fault per stage (the value-level sweep is C02's; here the *use* of K, A, B, proofs in the protocol)
    seen_t = {}
    for cfg in (3, 4):
        for style in pairdrv.STYLES:
            plist += [{"cfg": cfg, "style": style, "fault": "honest", "arg": None}]
    for cfg in range(N_BASE, len(CONFIGS)):
        t = CONFIGS[cfg]["srp"]["target"]
        seen_t[t] = seen_t.get(t, 0) + 1
        if quick and seen_t[t] > 1:
            continue
        for style in pairdrv.STYLES:
            plist += [{"cfg": cfg, "style": style, "fault": f, "arg": a} for f, a in (("honest", None), ("m4-proof-bitflip", 7), ("m6-sig-bitflip", 9), ("m6-wrong-key", None), ("m4-proof-tail", 63))]
    ctx.pmap(_work, [plist[i : i + 12] for i in range(0, len(plist), 12)])
    hs = list(c03_api.histories(ctx.tier, ctx.seed))
    ctx.pmap(_work_api, [hs[i : i + 8] for i in range(0, len(hs), 8)])
    import itertools as _it

    two = [{"transports": list(c)} for n_ in ((2,) if quick else (2, 3)) for c in _it.product(("ip", "ble", "coap"), repeat=n_)]
    ctx.pmap(_work_two, [two[i : i + 3] for i in range(0, len(two), 3)])
    ctx.bounds.update(pairings_in_one_process=[t["transports"] for t in two][:12])
    ctx.bounds.update(api_histories=len(hs), api_alphabet="start | finish(right) | finish(wrong) | link loss at every transport operation of an attempt; length <= " + ("4" if quick else "5"))
    ctx.exhaustive = True
    ctx.bounds.update(configs=len(cfgs), styles=list(pairdrv.STYLES), bits="one bit per byte (seed-selected)" if quick else "all bits")
    a = ctx.acc
    ctx.require(a.symbols["verdict:honest"] >= 2 * len(cfgs), "honest runs missing")
    ctx.require(N_BASE == 5, "config numbering")
    ctx.require(a.symbols["verdict:forged"] >= 100, "too few forged M6")
    ctx.require(a.symbols["verdict:variant"] >= 1, "no authentic-variant M6 (other consistent identity)")
    for t in ("ip", "ble", "coap"):
        ctx.require(a.symbols[f"api:{t}"] >= 10, f"api histories missing for {t}")
    ctx.require(a.symbols["api:paired"] >= 30 and a.symbols["api-op:wrong"] >= 6 and a.symbols["api-op:right-drop"] >= 10, "api histories vacuous")

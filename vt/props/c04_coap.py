"""C04, CoAP leg: the pair-verify and pair-setup steps as the CoAP connection runs them (reply TLVs from the cell alphabet, carried by a 2.04 or by
a 4.xx / 5.xx CoAP response - an accessory may signal the failure at both levels), and remove-pairing answered with every defined PDU status (a status byte outside the table makes the PDU layer raise ValueError: never "done", and not judged further), a reply for
another transaction, a reply without the response bit, with and without a body."""
from __future__ import annotations

from vt.ref import hap

CODES = ("changed", "badreq", "unauth", "unavail")
STEPS = {"coap-verify-m2": 2, "coap-verify-m4": 4, "coap-setup-m2": 2, "coap-setup-m4": 4, "coap-setup-m6": 6, "coap-remove": 2}
REMOVE = {"s1": {"status": 1}, "s2": {"status": 2}, "s3": {"status": 3}, "s4": {"status": 4}, "s5": {"status": 5}, "s6": {"status": 6}, "tid": {"tid_delta": 7}, "ctl": {"control": 0x00}}


def _items(p):
    from vt.props.c04 import ERRORS, _state_val

    state = _state_val(p["state"], STEPS[p["step"]])
    items = [(hap.T_STATE, state)] if state is not None else []
    if ERRORS[p["err"]] is not None:
        e = (hap.T_ERROR, ERRORS[p["err"]])
        if p.get("errpos") == "first":
            items.insert(0, e)
        else:
            items.append(e)
    return items


def _judge(p, raised, returned):
    from vt.props.c04 import DOCUMENTED, MAPPED

    det = {k: p.get(k) for k in ("step", "err", "state", "code", "errpos")}
    wrong_state = p["state"] not in ("expected", "absent")
    if p["err"] == "absent" and not wrong_state:
        return []
    sa = "state-absent" if p["state"] == "absent" else ("state-wrong" if wrong_state else "state-ok")
    cx = f":coap-{p['code']}" if p.get("code", "changed") != "changed" else ""
    if raised is None:
        which = "error" if p["err"] != "absent" else "wrong-state"
        return [(f"{p['step']}:{which}-reply-completes:{sa}{cx}", dict(det, returned=repr(returned)[:80]))]
    name = type(raised).__name__
    if wrong_state:
        return []
    want = MAPPED.get(p["err"])
    if want is None:
        return [] if name in DOCUMENTED else [(f"{p['step']}:malformed-error-raises-undocumented:{name}{cx}", dict(det, err=str(raised)[:120]))]
    if name != want:
        return [(f"{p['step']}:error-{p['err']}-raises-{name}-not-{want}{cx}", dict(det, err=str(raised)[:120]))]
    return []


def case_coap(p):
    step = p["step"]
    if step == "coap-remove":
        return _case_remove(p)
    key = step[len("coap-"):]
    fault = {key: _items(p), "code": p.get("code", "changed")}
    if step.startswith("coap-verify"):
        from vt.env.coaprig import CoapRig

        rig = CoapRig(seed=p.get("seed", 0))
        try:
            rig.acc.pair_fault = fault
            try:
                ret, exc = rig.run(rig.pairing.connection.do_pair_verify(rig.pairing.pairing_data)), None
            except Exception as e:  # noqa: BLE001
                ret, exc = None, e
            out = _judge(p, exc, ret)
            if exc is not None and rig.pairing.connection.is_connected:
                out.append((f"{step}:failed-verify-leaves-a-session-in-place", {"err": p["err"], "state": p["state"], "code": p.get("code")}))
            return out
        finally:
            rig.close()
    from vt.env.setuprig import CoapSetupRig
    from vt.props.c03_api import RIGHT

    rig = CoapSetupRig(seed=p.get("seed", 0))
    try:
        rig.acc.pair_fault = fault
        exc = rig.start()
        ret = None
        if exc is None:
            ret, exc = rig.finish(RIGHT)
        return _judge(p, exc, ret)
    finally:
        rig.close()


def _case_remove(p):
    from vt.env.coaprig import CoapRig

    from aiohomekit.exceptions import HomeKitException

    rig = CoapRig(seed=p.get("seed", 0))
    out = []
    try:
        rig.run(rig.pairing.list_accessories_and_characteristics())
        sc = dict(REMOVE[p["reply"]])
        if p.get("body"):
            sc["body"] = b"\x01\x01\x00"
        rig.acc.script = {(0x02, 24): sc}
        try:
            ret, exc = rig.run(rig.pairing.remove_pairing("someone-else")), None
        except Exception as e:  # noqa: BLE001
            ret, exc = None, e
        det = {"step": "coap-remove", "reply": p["reply"], "body": bool(p.get("body"))}
        if exc is None:
            out.append((f"coap-remove:refused-or-unattributable-reply-reported-as-done:{p['reply']}{':with-body' if p.get('body') else ''}", dict(det, returned=repr(ret))))
        elif not isinstance(exc, HomeKitException):
            out.append((f"coap-remove:fails-with-non-library-error:{type(exc).__name__}", dict(det, err=str(exc)[:120])))
        return out
    finally:
        rig.close()


CASES = {"coap": case_coap}


def cells(tier):
    from vt.props.c04 import ERRORS, STATES

    for step in STEPS:
        if step == "coap-remove":
            for r in REMOVE:
                for body in (False, True):
                    if body and "status" not in REMOVE[r]:
                        continue
                    yield ("coap", dict(step=step, err="n/a", state="n/a", style="coap", reply=r, body=body))
            continue
        slow = step in ("coap-setup-m4", "coap-setup-m6")
        for err in ERRORS:
            for state in (STATES if (err == "absent" or tier == "thorough") and not slow else ["expected", "absent"]):
                for code in CODES if (tier == "thorough" or not slow) else ("changed", "badreq"):
                    if err == "absent" and state in ("expected", "absent"):
                        continue
                    if slow and tier == "quick" and err not in ("02", "06", "07", "2byte"):
                        continue
                    for errpos in ("last", "first") if err != "absent" and not slow else ("last",):
                        yield ("coap", dict(step=step, err=err, state=state, style="coap", code=code, errpos=errpos))

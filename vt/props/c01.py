"""C01 pair-verify authenticity: fault enumeration over accessory replies M2/M4 (and resume replies) fed to the
real get_session_keys generator the way each transport feeds it; oracle = an independent reference acceptor
(forged -> must raise; honest -> must yield keys equal to the reference accessory's)."""
from __future__ import annotations

import itertools

from vt import core
from vt.env import pairdrv
from vt.ref import crypto as C
from vt.ref import hap, tlv8

META = dict(
    level="fault_enumeration",
    engine="E3",
    technique="exhaustive fault enumeration (every bit of every wire byte, every resealed structural edit, key/identifier re-binding, replay, resume faults) of accessory replies against the real pair-verify state machine, judged by an independent reference acceptor",
    text="for each pairing record x controller ephemeral key x transport decode style, the honest M2/M4 produced by a "
    "reference accessory and every member of a declared adversary alphabet are fed to get_session_keys; a reference "
    "acceptor (spec logic, own crypto glue) classifies each reply as honest / authentic variant / forged; forged must raise, "
    "honest must return keys that equal the reference accessory's and the accessory must accept M3; resume likewise Also: M2 fields cut in two around a foreign item and structural M2 edits end to end on IP / CoAP / BLE; two BLE pairings in one process; the verified session through the connection layer (reconnection harness, 'c01:' invariants: connected only after the accessory completed pair-verify, no application request in the clear). Also CoAP: the session is lost (accessory restart / reconnect) and pair-verify runs again on the same objects, 2 and 3 sessions: an event under the new event key is delivered, one under any lost session's event key is not.",
    note="cryptographic strength outside the alphabet rests on Ed25519/X25519/ChaCha20-Poly1305/HKDF and the cryptography wheel",
    design_ref="DESIGN.md §4 C01",
    rule="a case = (record, ephemeral, decode style, fault, argument); distinct = distinct tuple; non-trivial = the fault produced a reply "
    "different from the honest one (or is the honest one)",
    assumptions=["cryptography wheel primitives correct", "reference acceptor encodes HAP R2 5.7 / 7.3.7"],
)

RECORDS = [
    ("AA:BB:CC:DD:EE:FF", "decc6fa3-de3e-41c9-adba-ef7409821bfc"),
    ("X", "ios-1"),
    ("0123456789abcdef0123456789abcdef0123", "C" * 40),
]
PERMS = ["".join(p) for p in itertools.permutations("aIc") if "".join(p) != "aIc"]


def _setup(rec, eph, seed=0):
    acc_id, ios_id = RECORDS[rec]
    acc = hap.Identity(f"{seed}|{rec}", "acc", acc_id.encode())
    other = hap.Identity(f"{seed}|{rec}", "other-acc", b"11:22:33:44:55:66")
    ios = hap.Identity(f"{seed}|{rec}", "ios", ios_id.encode())
    pairing = {
        "AccessoryPairingID": acc_id,
        "AccessoryLTPK": acc.pk.hex(),
        "iOSPairingId": ios_id,
        "iOSDeviceLTSK": C.det_bytes(f"{seed}|{rec}", "ltsk|ios").hex(),
        "iOSDeviceLTPK": ios.pk.hex(),
    }
    pin_seed = f"{seed}|{rec}|{eph}"
    ios_eph = C.x_priv(C.det_bytes(pin_seed, "x25519|1"))
    return acc, other, ios, pairing, pin_seed, ios_eph


def classify_m2(wire, ios_eph, ios_pub, stored_id: bytes, stored_ltpk: bytes, honest_wire):
    """Reference acceptor -> 'honest' | 'variant' | 'forged'."""
    if wire == honest_wire:
        return "honest"
    raw, ok = tlv8.parse_raw(wire)
    if not ok:
        return "forged"
    d = dict(tlv8.merge(raw))
    if hap.T_STATE in d and d[hap.T_STATE] != b"\x02":
        return "forged"
    if hap.T_ERROR in d:
        return "variant"  # C04's business
    pk = d.get(hap.T_PK)
    if pk is None or len(pk) != 32 or hap.T_ENC not in d:
        return "forged"
    try:
        shared = C.x_exchange(ios_eph, pk)
    except Exception:  # noqa: BLE001  (all-zero shared secret)
        return "forged"
    pt = C.open_(hap.pv_enc_key(shared), C.nonce_str(b"PV-Msg02"), d[hap.T_ENC])
    if pt is None:
        return "forged"
    sraw, sok = tlv8.parse_raw(pt)
    if not sok:
        return "forged"
    for t, v in tlv8.merge(sraw):
        if t == hap.T_SIG and C.ed_verify(stored_ltpk, v, pk + stored_id + ios_pub):
            return "variant"
    return "forged"


def _flip(b: bytes, bit: int) -> bytes:
    m = bytearray(b)
    m[bit // 8] ^= 1 << (bit % 8)
    return bytes(m)


def build_m2(fault, arg, acc, other, ios_pub, eph_seed, pin_seed):
    """-> (wire bytes, honest wire, shared, acc_pub)."""
    items, shared, acc_pub = hap.pv_m2(acc, eph_seed, ios_pub)
    honest = tlv8.encode(items)
    f = fault
    if f in ("honest", "m4-state-bitflip", "m4-state-alter", "m4-extra", "m4-error"):
        return honest, honest, shared, acc_pub
    if f == "wire-bitflip":
        return _flip(honest, arg), honest, shared, acc_pub
    if f == "wire-bytesub":
        m = bytearray(honest)
        m[arg[0]] = arg[1]
        return bytes(m), honest, shared, acc_pub
    if f == "trunc":
        return honest[:arg], honest, shared, acc_pub
    kw = {}
    if f == "reseal:sig-bitflip":
        kw["sig_edit"] = lambda s: _flip(s, arg)
    elif f == "reseal:id-bitflip":
        kw["claimed_id"] = _flip(acc.id, arg)
        kw["transcript"] = None
        # signature still over the true id: the MITM cannot re-sign
        it, _, _ = hap.pv_m2(acc, eph_seed, ios_pub)
        true_sig = dict(tlv8.decode(C.open_(hap.pv_enc_key(shared), C.nonce_str(b"PV-Msg02"), dict(it)[hap.T_ENC])))[hap.T_SIG]
        kw["sub_edit"] = lambda sub: [(hap.T_ID, _flip(acc.id, arg)), (hap.T_SIG, true_sig)]
    elif f == "reseal:remove":
        kw["sub_edit"] = lambda sub: [i for i in sub if i[0] != arg]
    elif f == "reseal:empty":
        kw["sub_edit"] = lambda sub: [(t, b"" if t == arg else v) for t, v in sub]
    elif f == "reseal:dup":
        kw["sub_edit"] = lambda sub: [x for i in sub for x in ([i, i] if i[0] == arg else [i])]
    elif f == "reseal:reorder":
        kw["sub_edit"] = lambda sub: list(reversed(sub))
    elif f == "reseal:sig-trunc":
        kw["sig_edit"] = lambda s: s[:arg]
    elif f == "reseal:zero-sig":
        kw["sig_edit"] = lambda s: bytes(64)
    elif f == "wrong-ltsk":
        kw["signer"] = other
    elif f == "other-accessory":
        it, _, _ = hap.pv_m2(other, eph_seed, ios_pub)
        return tlv8.encode(it), honest, shared, acc_pub
    elif f == "right-key-other-id":
        kw["claimed_id"] = other.id
    elif f == "right-key-id-variant":
        # an identifier that only *resembles* the stored one, consistently signed by the right long-term key
        v = ID_VARIANTS[arg](acc.id)
        if v == acc.id:
            v = acc.id + b"'"
        kw["claimed_id"] = v
    elif f == "claimed-right-id-signed-other-id":
        it, _, _ = hap.pv_m2(acc, eph_seed, ios_pub, claimed_id=other.id)
        sig = dict(tlv8.decode(C.open_(hap.pv_enc_key(shared), C.nonce_str(b"PV-Msg02"), dict(it)[hap.T_ENC])))[hap.T_SIG]
        kw["sub_edit"] = lambda sub: [(hap.T_ID, acc.id), (hap.T_SIG, sig)]
    elif f == "transcript":
        kw["transcript"] = arg
    elif f == "replay-sig":
        # signature recorded in another exchange (other controller ephemeral), resealed under this session's key
        old_ios = C.x_pub_bytes(C.x_priv(C.det_bytes(pin_seed, "old-ios")))
        it, osh, _ = hap.pv_m2(acc, eph_seed, old_ios)
        sig = dict(tlv8.decode(C.open_(hap.pv_enc_key(osh), C.nonce_str(b"PV-Msg02"), dict(it)[hap.T_ENC])))[hap.T_SIG]
        kw["sub_edit"] = lambda sub: [(hap.T_ID, acc.id), (hap.T_SIG, sig)]
    elif f == "replay-sig-other-acc-eph":
        it, osh, _ = hap.pv_m2(acc, C.det_bytes(pin_seed, "old-acc-eph"), ios_pub)
        sig = dict(tlv8.decode(C.open_(hap.pv_enc_key(osh), C.nonce_str(b"PV-Msg02"), dict(it)[hap.T_ENC])))[hap.T_SIG]
        kw["sub_edit"] = lambda sub: [(hap.T_ID, acc.id), (hap.T_SIG, sig)]
    elif f == "replay-whole":
        old_ios = C.x_pub_bytes(C.x_priv(C.det_bytes(pin_seed, "old-ios")))
        it, _, _ = hap.pv_m2(acc, eph_seed, old_ios)
        return tlv8.encode(it), honest, shared, acc_pub
    elif f == "pk-len":
        pk = (acc_pub * 3)[:arg]
        kw["sent_pk"] = pk
    elif f == "pk-zero":
        kw["sent_pk"] = bytes(32)
    elif f == "pk-other":
        kw["sent_pk"] = C.x_pub_bytes(C.x_priv(C.det_bytes(pin_seed, "unrelated")))
    elif f == "enc-wrong-key":
        kw["enc_key"] = C.det_bytes(pin_seed, "wrongkey")
    elif f == "enc-wrong-nonce":
        kw["nonce"] = arg.encode()
    elif f == "inner-extra-pk":
        # the encrypted sub-TLV carries an exchange key of its own and the signature covers THAT key, not the one the session is computed with
        other_pk = C.x_pub_bytes(C.x_priv(C.det_bytes(pin_seed, "inner-pk")))
        sig = acc.sign(other_pk + acc.id + ios_pub)
        extra = (hap.T_PK, other_pk)
        kw["sub_edit"] = lambda sub: ([extra] if arg == "first" else []) + [(hap.T_ID, acc.id), (hap.T_SIG, sig)] + ([extra] if arg == "last" else [])
    elif f == "split-foreign":
        # one field of the honest reply cut in two pieces (at byte `cut`) with a foreign item spliced in between: to a TLV8 reader these are two
        # separate (short) values, not the authentic one
        which, mid, cut = arg
        it, _, _ = hap.pv_m2(acc, eph_seed, ios_pub)
        parts = []
        for t, v in it:
            if t == which:
                c = cut if cut >= 0 else len(v) + cut
                parts += [(t, v[:c]), (mid, b"" if mid == 255 else b"\x01"), (t, v[c:])]
            else:
                parts.append((t, v))
        return b"".join(tlv8.encode([x]) for x in parts), honest, shared, acc_pub
    elif f == "m2-state-alter":
        it, _, _ = hap.pv_m2(acc, eph_seed, ios_pub)
        alt = STATE_ALTER[arg](b"\x02")
        return tlv8.encode([(t, v) for t, v in it if t != hap.T_STATE][:0] + [x for t, v in it for x in (alt if t == hap.T_STATE else [(t, v)])]), honest, shared, acc_pub
    elif f == "mitm-own-dh":
        # attacker runs X25519 himself with his own ephemeral and signs with his own long-term key, claiming the stored id
        it, _, _ = hap.pv_m2(hap.Identity(pin_seed, "mitm", acc.id), C.det_bytes(pin_seed, "mitm-eph"), ios_pub)
        return tlv8.encode(it), honest, shared, acc_pub
    else:
        raise core.HarnessError(f"unknown fault {f}")
    it, _, _ = hap.pv_m2(acc, eph_seed, ios_pub, **kw)
    return tlv8.encode(it), honest, shared, acc_pub


def case_verify(p):
    from aiohomekit.protocol import get_session_keys

    rec, eph, style, fault, arg = p["rec"], p["eph"], p["style"], p["fault"], p.get("arg")
    acc, other, ios, pairing, pin_seed, ios_eph = _setup(rec, eph, p.get("seed", 0))
    ios_pub = C.x_pub_bytes(ios_eph)
    out = []
    with pairdrv.pinned_keys(pin_seed):
        gen = get_session_keys(pairing)
        st = pairdrv.send(gen, None, None, style)
    if st.kind != "request":
        return [("m1-not-yielded", {"label": st.label})]
    req, expected = st.value
    d, _ = pairdrv.req_dict(req)
    if d.get(hap.T_STATE) != b"\x01" or d.get(hap.T_PK) != ios_pub:
        return [("m1-malformed-or-ephemeral-not-pinned", {"d": d})]
    eph_seed = C.det_bytes(pin_seed, "acc-eph")
    wire, honest, shared, acc_pub = build_m2(fault, arg, acc, other, ios_pub, eph_seed, pin_seed)
    verdict = classify_m2(wire, ios_eph, ios_pub, acc.id, acc.pk, honest)
    st = pairdrv.send(gen, wire, expected, style)
    det = {"fault": fault, "arg": arg, "style": style, "rec": rec, "eph": eph, "verdict": verdict, "outcome": st.label}
    p["_verdict"] = verdict
    if verdict == "forged":
        if st.kind != "raise":
            out.append((f"forged-m2-accepted:{fault}", det))
        return out
    if verdict == "variant":
        return out
    # honest M2
    if st.kind != "request":
        return [("honest-m2-rejected", det)]
    req3, expected3 = st.value
    d3, _ = pairdrv.req_dict(req3)
    if not hap.pv_check_m3(d3, shared, acc_pub, ios_pub, {ios.id: ios.pk}):
        out.append(("accessory-rejects-controller-m3", det))
    m4 = tlv8.encode([(hap.T_STATE, b"\x04")])
    if fault == "m4-state-bitflip":
        m4 = tlv8.encode([(hap.T_STATE, _flip(b"\x04", arg))])
    elif fault == "m4-state-alter":
        m4 = tlv8.encode(STATE_ALTER[arg](b"\x04"))
    elif fault == "m4-extra":
        m4 = tlv8.encode([(hap.T_STATE, b"\x04"), (arg, b"\x01")]) if arg != hap.T_STATE else tlv8.encode([(hap.T_STATE, b"\x04"), (255, b""), (hap.T_STATE, b"\x05")])
    elif fault == "m4-error":
        # the accessory rejected the controller's proof (or an attacker altered M4): any error item, whatever its value, ends the attempt
        m4 = tlv8.encode([(hap.T_STATE, b"\x04"), (hap.T_ERROR, bytes(arg))])
    st = pairdrv.send(gen, m4, expected3, style)
    det["outcome"] = st.label
    if fault in ("m4-state-bitflip", "m4-state-alter"):
        if st.kind != "raise":
            out.append(("wrong-state-m4-accepted" if fault == "m4-state-bitflip" else f"altered-state-m4-accepted:{arg}", det))
        return out
    if fault == "m4-error":
        if st.kind != "raise":
            out.append(("m4-with-error-item-yields-keys", det))
        return out
    if fault == "m4-extra":
        return out
    if st.kind != "return":
        return out + [("honest-exchange-did-not-return-keys", det)]
    try:
        sid, derive = st.value
        ref = hap.session_keys(shared)
        got = dict(
            c2a=derive(b"Control-Salt", b"Control-Write-Encryption-Key"),
            a2c=derive(b"Control-Salt", b"Control-Read-Encryption-Key"),
            event=derive(b"Event-Salt", b"Event-Read-Encryption-Key"),
        )
    except Exception as e:  # noqa: BLE001
        return out + [(f"result-unusable:{type(e).__name__}", det)]
    for k in got:
        if got[k] != ref[k]:
            out.append((f"session-key-differs:{k}", det))
    if bytes(sid) != ref["session_id"]:
        out.append(("session-id-differs", det))
    if len({got["c2a"], got["a2c"], got["event"]}) != 3:
        out.append(("session-keys-not-distinct", det))
    return out


def case_resume(p):
    from aiohomekit.protocol import get_session_keys

    rec, eph, style, fault, arg = p["rec"], p["eph"], p["style"], p["fault"], p.get("arg")
    acc, other, ios, pairing, pin_seed, ios_eph1 = _setup(rec, eph, p.get("seed", 0))
    out = []
    with pairdrv.pinned_keys(pin_seed):
        # session 1 (honest, full)
        gen = get_session_keys(pairing)
        st = pairdrv.send(gen, None, None, style)
        req, expected = st.value
        ios_pub1 = C.x_pub_bytes(ios_eph1)
        items, shared1, acc_pub1 = hap.pv_m2(acc, C.det_bytes(pin_seed, "acc-eph"), ios_pub1)
        st = pairdrv.send(gen, tlv8.encode(items), expected, style)
        if st.kind != "request":
            return [("honest-m2-rejected", {"outcome": st.label})]
        st = pairdrv.send(gen, tlv8.encode([(hap.T_STATE, b"\x04")]), st.value[1], style)
        if st.kind != "return":
            return [("honest-exchange-did-not-return-keys", {"outcome": st.label})]
        sid1, derive1 = st.value
        # session 2 with resume
        gen = get_session_keys(pairing, sid1, derive1)
        st = pairdrv.send(gen, None, None, style)
    if st.kind != "request":
        return [("resume-m1-not-yielded", {"label": st.label})]
    req, expected = st.value
    d, _ = pairdrv.req_dict(req)
    ios_eph2 = C.x_priv(C.det_bytes(pin_seed, "x25519|2"))
    ios_pub2 = C.x_pub_bytes(ios_eph2)
    det = {"fault": fault, "arg": arg, "style": style, "rec": rec, "eph": eph}
    if d.get(hap.T_PK) != ios_pub2:
        return [("resume-m1-ephemeral-not-fresh-or-not-pinned", det)]
    ref1 = hap.session_keys(shared1)
    if not hap.resume_check_m1(d, shared1, ref1["session_id"]):
        out.append(("accessory-rejects-resume-m1", det))
    new_sid = C.det_bytes(pin_seed, "newsid", 8)
    kw = {}
    verdict = "forged"
    if fault == "resume-honest":
        verdict = "honest"
    elif fault == "resume-wrong-secret":
        kw["secret_for_tag"] = C.det_bytes(pin_seed, "wrongsecret")
    elif fault == "resume-wrong-sid":
        kw["sent_session_id"] = C.det_bytes(pin_seed, "othersid", 8)
    elif fault == "resume-old-sid-tag":
        # tag computed over the *old* session id, new id sent
        it_old, _ = hap.resume_m2(ios_pub2, shared1, ref1["session_id"])
        old_tag = dict(it_old)[hap.T_ENC]
    elif fault == "resume-wrong-method":
        kw["method"] = bytes([arg])
    elif fault == "resume-replayed-for-other-ephemeral":
        pass
    elif fault == "resume-fallback-full":
        verdict = "fallback"
    items, shared2 = hap.resume_m2(ios_pub2, shared1, new_sid, **kw)
    if fault == "resume-tag-bitflip":
        items = [(t, _flip(v, arg) if t == hap.T_ENC else v) for t, v in items]
    elif fault == "resume-tag-len":
        # the right tag cut short (a prefix of it) or with bytes behind it: not the 16 bytes the accessory's secret produces
        items = [(t, (v[:arg] if arg <= 16 else v + bytes(range(arg - 16))) if t == hap.T_ENC else v) for t, v in items]
    elif fault == "resume-error-extra":
        items = items + [(hap.T_ERROR, bytes(arg))]
    elif fault == "resume-state-alter":
        items = [x for t, v in items for x in (STATE_ALTER[arg](b"\x02") if t == hap.T_STATE else [(t, v)])]
    elif fault == "resume-old-sid-tag":
        items = [(t, old_tag if t == hap.T_ENC else v) for t, v in items]
    elif fault == "resume-no-field":
        items = [i for i in items if i[0] != arg]
    elif fault == "resume-replayed-for-other-ephemeral":
        other_pub = C.x_pub_bytes(C.x_priv(C.det_bytes(pin_seed, "old-ios")))
        items, _ = hap.resume_m2(other_pub, shared1, new_sid)
    elif fault == "resume-state-bitflip":
        items = [(t, _flip(v, arg) if t == hap.T_STATE else v) for t, v in items]
    elif fault == "resume-fallback-full":
        items, shared_full, acc_pub2 = hap.pv_m2(acc, C.det_bytes(pin_seed, "acc-eph2"), ios_pub2)
    # The resume reply types (method, session id) are not in the expected-list of step 2; IP/CoAP never resume (they pass no
    # session), BLE decodes unfiltered.  Feed unfiltered for ble, filtered for ip (where the reply degrades to a non-resume M2).
    st = pairdrv.send(gen, tlv8.encode(items), expected, style)
    det["outcome"] = st.label
    if verdict == "forged":
        if st.kind != "raise":
            out.append((f"forged-resume-accepted:{fault}", det))
        return out
    if verdict == "fallback":
        if st.kind == "request":
            d3, _ = pairdrv.req_dict(st.value[0])
            if not hap.pv_check_m3(d3, shared_full, acc_pub2, ios_pub2, {ios.id: ios.pk}):
                out.append(("accessory-rejects-controller-m3-after-resume-fallback", det))
        elif st.kind == "return":
            out.append(("resume-fallback-returned-keys-without-m3", det))
        return out
    # honest resume
    if style == "ip":
        # filtered decode drops method/session id: must not return keys from a reply it cannot authenticate
        if st.kind == "return":
            out.append(("resume-keys-from-filtered-reply", det))
        return out
    if st.kind != "return":
        return out + [("honest-resume-rejected", det)]
    sid2, derive2 = st.value
    ref2 = hap.session_keys(shared2)
    k2 = derive2(b"Control-Salt", b"Control-Write-Encryption-Key")
    if k2 != ref2["c2a"] or derive2(b"Control-Salt", b"Control-Read-Encryption-Key") != ref2["a2c"]:
        out.append(("resumed-session-key-differs", det))
    if k2 == derive1(b"Control-Salt", b"Control-Write-Encryption-Key"):
        out.append(("resumed-session-reuses-previous-keys", det))
    if bytes(sid2) != new_sid:
        out.append(("resumed-session-id-differs", det))
    return out


def case_fresh(p):
    """Two exchanges in one process WITHOUT pinning the key generator: the controller's exchange keys must be fresh, and the
    complete M2/M4 recorded from exchange 1 replayed into exchange 2 must fail (the signature covers *this* session's keys)."""
    from aiohomekit.protocol import get_session_keys

    rec, style = p["rec"], p["style"]
    acc, other, ios, pairing, pin_seed, _ = _setup(rec, 0, p.get("seed", 0))
    out = []
    pubs = []
    recorded = None
    det = {"rec": rec, "style": style, "fault": "fresh"}
    for k in range(3):
        gen = get_session_keys(pairing)
        st = pairdrv.send(gen, None, None, style)
        if st.kind != "request":
            return [("m1-not-yielded", det)]
        d, _ = pairdrv.req_dict(st.value[0])
        ios_pub = d.get(hap.T_PK)
        pubs.append(ios_pub)
        if k == 0:
            items, shared, acc_pub = hap.pv_m2(acc, C.det_bytes(pin_seed, "acc-eph"), ios_pub)
            recorded = tlv8.encode(items)
            st = pairdrv.send(gen, recorded, st.value[1], style)
            if st.kind != "request":
                return [("honest-m2-rejected", dict(det, outcome=st.label))]
            st = pairdrv.send(gen, tlv8.encode([(hap.T_STATE, b"\x04")]), st.value[1], style)
            if st.kind != "return":
                return [("honest-exchange-did-not-return-keys", dict(det, outcome=st.label))]
        else:
            st = pairdrv.send(gen, recorded, st.value[1], style)
            if st.kind != "raise":
                out.append(("m2-recorded-from-an-earlier-exchange-accepted", dict(det, exchange=k, outcome=st.label)))
    if len(set(pubs)) != len(pubs):
        out.append(("controller-exchange-key-not-fresh", dict(det, pubs=[x[:4] for x in pubs])))
    return out


def case_reconn(p):
    """One execution of the reconnection harness (vt/env/reconn.py), judged only by its 'c01:' invariants: the pairing reports connected only on
    a connection whose pair-verify the accessory has completed, and no application request ever travels in the clear."""
    from vt import explore
    from vt.env import reconn

    h, menus, trace, v = explore.run_default(lambda: reconn.ReconnH(p), tuple(p.get("choices", ())))
    try:
        if not v:
            v = h.finish()
        return [(s_, dict(detail=d, trace=trace)) for s_, d in v if s_.startswith("c01:")]
    finally:
        h.close()


def _work_reconn(item, seed, tier):
    from vt import explore
    from vt.env import reconn

    acc = core.Acc()
    p, root, max_dev = item
    tmp = core.Acc()
    explore.explore_dev(lambda: reconn.ReconnH(p), tmp, max_dev=max_dev, case="reconn", params=p, root=root)
    tmp.viol = [v for v in tmp.viol if v["signature"].startswith("c01:")]
    for k in list(tmp.viol_count):
        if not k.startswith("c01:"):
            del tmp.viol_count[k]
    acc.merge(tmp)
    return acc


CASES = {"verify": case_verify, "resume": case_resume, "fresh": case_fresh, "reconn": case_reconn}
from vt.props import c01_e2e  # noqa: E402

CASES.update(c01_e2e.CASES)


def _work(item, seed, tier):
    acc = core.Acc()
    name, plist = item
    for p in plist:
        p = dict(p, seed=seed)
        v = CASES[name](p)
        verdict = p.pop("_verdict", None)
        acc.case(
            key=(name, core.jsonable(p)),
            outcome=f"{name}:{verdict or p['fault']}:{'ok' if not v else v[0][0]}" if name == "verify" else f"{name}:{p['fault']}:{'ok' if not v else v[0][0]}",
            nontrivial=True,
            sample={"case": name, "params": p},
            symbols=(f"{name}:{p['fault']}", f"style:{p['style']}") + ((f"verdict:{verdict}",) if verdict else ()),
        )
        for sig, detail in v:
            acc.violation(sig, name, p, detail)
    return acc


# a state item whose value is the right number with something added that a numeric comparison would not see
STATE_ALTER = {
    "zero-ext": lambda s_: [(hap.T_STATE, s_ + b"\x00")], "zero-ext-3": lambda s_: [(hap.T_STATE, s_ + b"\x00\x00")], "lead-zero": lambda s_: [(hap.T_STATE, b"\x00" + s_)],
    "two-items": lambda s_: [(hap.T_STATE, s_), (hap.T_STATE, b"\x00")],  # equal-typed neighbours without separator: one value to a TLV8 reader
    "ff-ext": lambda s_: [(hap.T_STATE, s_ + b"\xff")],
}
ID_VARIANTS = {
    "lower": lambda i: i.lower(), "upper": lambda i: i.upper(), "swapcase": lambda i: i.swapcase(), "title": lambda i: i.title(),
    "space-after": lambda i: i + b" ", "space-before": lambda i: b" " + i, "nul-after": lambda i: i + b"\x00", "shorter": lambda i: i[:-1],
    "no-colons": lambda i: i.replace(b":", b""), "dashes": lambda i: i.replace(b":", b"-"), "empty": lambda i: b"",
    "kelvin": lambda i: i.replace(b"k", "\u212a".encode()).replace(b"K", "\u212a".encode()), "fullwidth": lambda i: i.decode("latin-1").translate({ord("A"): 0xFF21, ord("a"): 0xFF41, ord("0"): 0xFF10}).encode(),
}


def faults(quick, seed):
    honest_len = 3 + 34 + 2 + (2 + 17 + 2 + 64 + 16)  # informative only; real length computed per record below
    f = [("honest", None)]
    f += [("reseal:remove", t) for t in (hap.T_ID, hap.T_SIG)]
    f += [("reseal:empty", t) for t in (hap.T_ID, hap.T_SIG)]
    f += [("reseal:dup", t) for t in (hap.T_ID, hap.T_SIG)]
    f += [("reseal:reorder", None), ("reseal:zero-sig", None)]
    f += [("reseal:sig-trunc", n) for n in (0, 1, 32, 63)]
    f += [("wrong-ltsk", None), ("other-accessory", None), ("right-key-other-id", None), ("claimed-right-id-signed-other-id", None)]
    f += [("right-key-id-variant", v) for v in ID_VARIANTS]
    f += [("inner-extra-pk", a) for a in ("first", "last")] + [("m2-state-alter", a) for a in STATE_ALTER] + [("m4-state-alter", a) for a in STATE_ALTER]
    f += [("transcript", perm) for perm in PERMS]
    f += [("replay-sig", None), ("replay-sig-other-acc-eph", None), ("replay-whole", None), ("mitm-own-dh", None)]
    f += [("pk-len", n) for n in (0, 1, 31, 33, 64)] + [("pk-zero", None), ("pk-other", None)]
    f += [("enc-wrong-key", None)] + [("enc-wrong-nonce", n) for n in ("PV-Msg03", "PV-Msg01", "PS-Msg06")]
    f += [("split-foreign", (which, mid, cut)) for which in (hap.T_PK, hap.T_ENC, hap.T_STATE) for mid in (255, 0x80, 8, 1) for cut in (1, 16, -1)]
    f += [("m4-state-bitflip", b) for b in range(8)]
    f += [("m4-extra", t) for t in (hap.T_STATE, 1, 9)]
    f += [("m4-error", bytes([c])) for c in range(256)] + [("m4-error", b""), ("m4-error", b"\x02\x00"), ("m4-error", b"\x00\x02")]
    f += [("reseal:sig-bitflip", b) for b in range(64 * 8)]
    return f


def run(ctx):
    quick = ctx.tier == "quick"
    recs = [0] if quick else [0, 1, 2]
    ephs = [0] if quick else [0, 1, 2]
    work = []
    for rec in recs:
        for eph in ephs:
            acc, other, ios, pairing, pin_seed, ios_eph = _setup(rec, eph, ctx.seed)
            items, _, _ = hap.pv_m2(acc, C.det_bytes(pin_seed, "acc-eph"), C.x_pub_bytes(ios_eph))
            n = len(tlv8.encode(items))
            fl = faults(quick, ctx.seed)
            fl += [("reseal:id-bitflip", b) for b in range(len(acc.id) * 8)]
            fl += [("wire-bitflip", b) for b in range(n * 8)]
            fl += [("trunc", k) for k in range(n)]
            fl += [("wire-bytesub", (pos, val)) for pos in range(n) for val in ((0, 255) if quick else (0, 1, 2, 6, 7, 255))]
            for style in pairdrv.STYLES:
                plist = [{"rec": rec, "eph": eph, "style": style, "fault": f, "arg": a} for f, a in fl]
                for i in range(0, len(plist), 250):
                    work.append(("verify", plist[i : i + 250]))
                rl = [("resume-honest", None), ("resume-wrong-secret", None), ("resume-wrong-sid", None), ("resume-old-sid-tag", None),
                      ("resume-replayed-for-other-ephemeral", None), ("resume-fallback-full", None)]
                rl += [("resume-wrong-method", m) for m in (0, 1, 2, 5, 7)]
                rl += [("resume-no-field", t) for t in (hap.T_METHOD, hap.T_SESSID, hap.T_ENC)]
                rl += [("resume-tag-bitflip", b) for b in range(16 * 8)]
                rl += [("resume-state-bitflip", b) for b in range(8)]
                rl += [("resume-tag-len", n_) for n_ in list(range(0, 16)) + [17, 18, 32]] + [("resume-error-extra", e_) for e_ in (b"\x02", b"\x07", b"\x00", b"")] + [("resume-state-alter", a_) for a_ in STATE_ALTER]
                plist = [{"rec": rec, "eph": eph, "style": style, "fault": f, "arg": a} for f, a in rl]
                for i in range(0, len(plist), 50):
                    work.append(("resume", plist[i : i + 50]))
    work += c01_e2e.plan()
    work += [("fresh", [{"rec": r, "eph": 0, "style": st, "fault": "fresh"}]) for r in recs for st in pairdrv.STYLES]
    ctx.pmap(_work, work)
    # the verified session as the connection layer uses it: through reconnects in which the step AFTER a successful pair-verify fails (the
    # re-subscription is refused / cut off) and the next connection's pair-verify is still in flight when callers look
    from vt.props import c10 as _c10

    rc = [
        (dict(hosts=["10.0.0.1"], rounds=5, subscriptions=True, behaviours=["ok", "ok-bad-subscribe-reply", "ok-close-on-subscribe", "mute", "mute-m3", "bad-sig"], triggers=["ensure", "zc-same", "drop"]), 2),
        (dict(hosts=["10.0.0.1", "10.0.0.2"], rounds=5, behaviours=["ok", "mute", "mute-m3", "wrong-id", "close-m3"], triggers=["ensure", "drop", "put-garbled:not-json"]), 2 if quick else 3),
    ]
    ctx.pmap(_work_reconn, _c10.plan(ctx, rc))
    ctx.bounds.update(reconnect_configs=[dict(hosts=c["hosts"], behaviours=c["behaviours"], triggers=c["triggers"], deviations=d) for c, d in rc])
    ctx.exhaustive = True
    ctx.bounds.update(records=len(recs), ephemerals=len(ephs), styles=list(pairdrv.STYLES), bits="all bits of every wire byte, signature, identifier, resume tag")
    a = ctx.acc
    ctx.require(a.symbols["verdict:honest"] >= len(recs) * len(ephs) * 2, "honest exchanges missing")
    ctx.require(a.symbols["verdict:forged"] > 1000, "too few forged replies classified")
    ctx.require(a.outcomes and all(("honest-" not in k) for k in a.outcomes if k.endswith(":ok")), "outcome bookkeeping")
    for s in ("verify:wire-bitflip", "verify:reseal:sig-bitflip", "verify:transcript", "resume:resume-honest", "resume:resume-tag-bitflip"):
        ctx.require(a.symbols[s] > 0, f"fault {s} never exercised")

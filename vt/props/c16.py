"""C16 Structured TLV8: every TLVStruct message type found by reflection, every field over its boundary alphabet,
round-tripped through the real codec and compared with an independent reference codec (vt/ref/tlvstruct.py)."""
from __future__ import annotations

import base64
import importlib
import itertools
import pkgutil

from vt import core
from vt.ref import tlv8 as rt
from vt.ref import tlvstruct as ts

META = dict(
    level="exploration",
    engine="E3",
    technique="bounded-exhaustive enumeration of a declared finite alphabet (message type x field x boundary value, pairs, "
    "all-fields, nested lists sized around the 255-byte fragment boundary, packed id lists, accessory databases) on the real "
    "TLVStruct.encode/decode against an independent reference codec driven by the same declared field metadata",
    text="every TLVStruct dataclass found by importing every module of the package (plus three synthetic types covering "
    "every supported field type) is enumerated: the empty message, each field alone over its alphabet (ints 0/1/max/"
    "byte-pattern, every IntEnum member, str/bytes of 1 254 255 256 510 511 bytes with plain, UTF-8, zero, 0xff and "
    "TLV-looking fills, nested messages small/max/big, lists of 1-3 items, long lists crossing 255 and 510 bytes, lists whose "
    "first item is sized so that the fragment boundary falls before, inside and after the separator), all field pairs at "
    "small values, boundary-sized fields followed by another field, all fields set; encode must equal the reference bytes, "
    "decode(encode(m)) == m, and decoding the reference (conformant accessory) encoding must return exactly the encoded "
    "field values.  Received structures: packed u16 link lists with 0..6 ids and every byte value in each id byte, CoAP "
    "databases of 1..3 accessories x services x characteristics in 9 variants, struct-valued characteristic access Each message is decoded twice with the first result scrambled in between (decoding is a function of the bytes); struct-valued characteristics are read over histories of updates stored through set_value and process_changes. Also: signatures decoded from a bytearray / a slice of one. Also: families of message types (base, derived, sibling) in every order of first use x first use by encoding or decoding, on classes made per run; a list field spelled typing.Sequence[...]. Also a message edited in place (at every depth) into the next message of the enumeration and encoded again. Struct-valued characteristics also with line-wrapped / CRLF-wrapped / newline-terminated base64 text.",
    note="the reference codec is trusted (hand-assembled examples and a captured accessory database in selftest); fields of "
    "a type the codec does not support (float) stay unset, zero-length values/empty lists of messages and the non-conformant "
    "id 0 are outside the quantifier; field values outside the boundary alphabet are not covered",
    design_ref="DESIGN.md §4 C16",
    rule="a case = one (message type, field values) run through encode, decode(encode) and decode(reference bytes); "
    "distinct = distinct (type, values); non-trivial = at least one field set",
    assumptions=["reference structured-TLV codec (vt/ref/tlvstruct.py on vt/ref/tlv8.py) is correct: validated in selftest"],
)

SIZES = [1, 254, 255, 256, 510, 511]
SEP_LENGTHS = [250, 251, 252, 253, 254, 255, 256, 257]

# ---------------------------------------------------------------- reflection
_REG = None


def registry():
    """-> (package classes {id: cls}, synthetic classes {id: cls}, modules that failed to import)"""
    global _REG
    if _REG is None:
        import aiohomekit
        from aiohomekit.tlv8 import TLVStruct

        failed = []
        for m in pkgutil.walk_packages(aiohomekit.__path__, "aiohomekit.", onerror=lambda n: failed.append(n)):
            if m.name.rsplit(".", 1)[-1] == "__main__":
                continue
            try:
                importlib.import_module(m.name)
            except Exception as e:  # noqa: BLE001
                failed.append(f"{m.name}: {type(e).__name__}")

        def subs(c):
            for s in c.__subclasses__():
                yield s
                yield from subs(s)

        pkg = {}
        for c in subs(TLVStruct):
            if c.__module__.startswith("aiohomekit.") and ts.is_message_class(c):
                pkg[f"{c.__module__}:{c.__qualname__}"] = c
        from vt.env import tlvprobe

        probes = {f"synthetic:{c.__name__}": c for c in tlvprobe.PROBES}
        _REG = (dict(sorted(pkg.items())), probes, failed)
    return _REG


def _cls(cid):
    pkg, probes, _ = registry()
    c = pkg.get(cid) or probes.get(cid)
    if c is None:
        raise core.HarnessError(f"unknown message type {cid}")
    return c


# ---------------------------------------------------------------- value generators
def _fill_bytes(n, mode, salt, t=1):
    if mode == "pat":
        return bytes(((i * 13 + salt * 7 + 1) % 256) for i in range(n))
    if mode == "zero":
        return bytes(n)
    if mode == "ff":
        return b"\xff" * n
    if mode == "tlvish":  # looks like list separators followed by a maximal fragment header of the field's own type
        return (bytes((0, 0, t & 0xFF, 255)) * (n // 4 + 1))[:n]
    raise core.HarnessError(mode)


def _fill_str(n, mode, salt):
    if mode == "ascii":
        return "".join(chr(97 + (i + salt) % 26) for i in range(n))
    if mode == "utf8":  # n bytes of two-byte characters: a character straddles the 255-byte fragment boundary for even n
        return ("a" if n % 2 else "") + "é" * (n // 2)
    raise core.HarnessError(mode)


def _supported(cls):
    return [f for f in ts.schema(cls) if f.kind not in ("packed", "unsupported")]


def _has_var(cls, seen=()):
    if cls in seen:
        return False
    for f in _supported(cls):
        if f.kind in ("str", "bytes"):
            return True
        if f.kind in ("struct", "list") and _has_var(f.arg, seen + (cls,)):
            return True
    return False


def _gen_field(f, mode, salt, i):
    k = f.kind
    if k == "int":
        mx = (1 << (8 * f.arg[0])) - 1
        return min(i + 1, mx) if mode == "small" else mx
    if k == "enum":
        members = [int(m) for m in f.arg if 0 <= int(m) <= 255]
        if not members:
            return None
        return members[0] if mode == "small" else members[-1]
    if k == "str":
        return chr(97 + i % 26) if mode != "big" else _fill_str(256, "ascii", salt + i)
    if k == "bytes":
        return bytes([(i + 1) % 256]) if mode != "big" else _fill_bytes(256, "pat", salt + i)
    if k == "struct":
        return _gen(f.arg, mode, salt) or None
    if k == "list":
        if mode == "small":
            items = [_gen(f.arg, "small", salt)]
        elif mode == "max":
            items = [_gen(f.arg, "max", salt), _gen(f.arg, "small", salt)]
        else:
            items = [_gen(f.arg, "big", salt), _gen(f.arg, "small", salt), _gen(f.arg, "big", salt)]
        return items if all(items) else None
    return None


def _gen(cls, mode, salt):
    """All supported fields of cls set: small distinct values / maxima / maxima with 256-byte strings (recursively)."""
    tree = {}
    for i, f in enumerate(ts.schema(cls)):
        v = _gen_field(f, mode, salt, i)
        if v is not None:
            tree[f.name] = v
    return tree


def _first_only(cls, salt):
    for i, f in enumerate(ts.schema(cls)):
        v = _gen_field(f, "small", salt, i)
        if v is not None:
            return {f.name: v}
    return {}


def _var_path(cls, seen=()):
    """Path of nested-message fields leading to a direct str/bytes field (the last one declared), or None."""
    if cls in seen:
        return None
    direct = [f for f in _supported(cls) if f.kind in ("str", "bytes")]
    if direct:
        return [direct[-1]]
    for f in _supported(cls):
        if f.kind == "struct":
            sub = _var_path(f.arg, seen + (cls,))
            if sub:
                return [f] + sub
    return None


def _sized(cls, length, salt):
    """A message of type cls whose reference encoding is exactly `length` bytes (one variable field set), or None."""
    path = _var_path(cls)
    if not path:
        return None

    def tree_for(n):
        leaf = path[-1]
        v = _fill_str(n, "ascii", salt) if leaf.kind == "str" else _fill_bytes(n, "pat", salt)
        t = {leaf.name: v}
        for f in reversed(path[:-1]):
            t = {f.name: t}
        return t

    for n in range(1, length):
        t = tree_for(n)
        ln = len(ts.encode(cls, t))
        if ln == length:
            return t
        if ln > length:
            return None
    return None


def _alphabet(f, quick, salt, idx):
    """-> list of (symbol, value) for one field."""
    k = f.kind
    if k == "int":
        w = f.arg[0]
        mx = (1 << (8 * w)) - 1
        vals = [("int:0", 0), ("int:1", 1), ("int:max", mx), ("int:byte-pattern", int.from_bytes(bytes(range(1, w + 1)), "big"))]
        if w >= 2:
            vals += [("int:255", 255), ("int:256", 256)]
        return vals
    if k == "enum":
        return [("enum:member", int(m)) for m in f.arg if 0 <= int(m) <= 255]
    if k == "str":
        out = [(f"str:{n}", _fill_str(n, "ascii", salt)) for n in SIZES]
        out += [(f"str-utf8:{n}", _fill_str(n, "utf8", salt)) for n in ((2, 256, 510) if quick else SIZES)]
        # characters a decoder might be tempted to trim or normalise: a string is its code points, all of them
        edge = {"nul-last": "net\x00", "nul-only": "\x00", "nul-first": "\x00net", "nul-inside": "a\x00b", "nuls-last": "ab\x00\x00\x00", "space-last": "net ", "space-first": " net",
                "tab-newline-last": "net\t\r\n", "bom-first": "\ufeffnet", "nbsp-last": "net\u00a0", "combining": "e\u0301", "astral": "\U0001f600x", "del-last": "net\x7f",
                "nul-last-256": "a" * 255 + "\x00"}
        out += [(f"str-edge:{k}", v) for k, v in edge.items()]
        return out
    if k == "bytes":
        out = [(f"bytes:{n}", _fill_bytes(n, "pat", salt)) for n in SIZES]
        for mode in ("zero", "ff", "tlvish"):
            out += [(f"bytes-{mode}:{n}", _fill_bytes(n, mode, salt, f.tlv_type)) for n in ((2, 255, 256) if quick else [2] + SIZES)]
        return out
    if k == "struct":
        out = [("struct:small", _gen(f.arg, "small", salt)), ("struct:first-field-only", _first_only(f.arg, salt)), ("struct:max", _gen(f.arg, "max", salt))]
        if _has_var(f.arg):
            out.append(("struct:big", _gen(f.arg, "big", salt)))
        return [(s, v) for s, v in out if v]
    if k == "list":
        c = f.arg
        s, m, first = _gen(c, "small", salt), _gen(c, "max", salt), _first_only(c, salt)
        if not s:
            return []
        out = [("list:1", [s]), ("list:1", [m]), ("list:2", [s, s]), ("list:2", [s, m]), ("list:2", [first, first]), ("list:3", [s, s, s]), ("list:3", [m, s, first])]
        # a list item with every field unset encodes to zero bytes: [<unset>, X] is canonically `00 00 X` (a *trailing* unset item is outside
        # the quantifier: it is indistinguishable from a shorter list on the wire)
        out += [("list:2:unset-item-first", [{}, s]), ("list:3:unset-item-middle", [s, {}, m]), ("list:3:unset-items-first", [{}, {}, s])]
        if _has_var(c):
            b = _gen(c, "big", salt)
            out += [("list:1:item>255", [b]), ("list:2:item>255", [b, s]), ("list:2:item>255", [s, b]), ("list:2:item>255", [b, b]),
                    ("list:3:item>255", [b, s, b]), ("list:3:item>255", [b, b, b])]
            for ln in SEP_LENGTHS + ([] if quick else [505, 506, 507, 508, 509, 510, 511, 512]):
                t = _sized(c, ln, salt)
                if t:
                    out.append((f"list:separator-at-{ln}", [t, s]))
                    out.append((f"list:separator-at-{ln}", [s, t, s]))
                    if not quick:
                        out.append((f"list:separator-at-{ln}", [t, t, t]))
        item_len = len(ts.encode(c, s)) + 2
        for target in (256, 511) if quick else (255, 256, 257, 511, 766):
            n = min(-(-target // item_len) + 1, 400)
            out.append((f"list:long>{target - 1}", [s] * n))
        return out
    return []


def _message_trees(cls, quick, salt):
    """-> list of (family symbol, value symbol, tree) for one message type (packed-list fields are left to `links`)."""
    fields = _supported(cls)
    index = {f.name: i for i, f in enumerate(ts.schema(cls))}
    out = [("empty", "empty", {})]
    small = {}
    for f in fields:
        v = _gen_field(f, "small", salt, index[f.name])
        if v is not None:
            small[f.name] = v
    for f in fields:
        for sym, v in _alphabet(f, quick, salt, index[f.name]):
            out.append(("alone", sym, {f.name: v}))
    names = [f.name for f in fields if f.name in small]
    for a, b in itertools.combinations(names, 2):
        out.append(("pair", "pair:small", {a: small[a], b: small[b]}))
    # a boundary-sized variable-length field followed / preceded by another field
    var = [f for f in fields if f.kind in ("str", "bytes")]
    for f in var:
        pos = names.index(f.name)
        others = names[pos + 1 : pos + 2] + names[max(pos - 1, 0) : pos] if quick else names[:pos] + names[pos + 1 :]
        for n in (255, 256, 510) if quick else (254, 255, 256, 510, 511):
            v = _fill_str(n, "ascii", salt) if f.kind == "str" else _fill_bytes(n, "pat", salt)
            for o in others:
                out.append(("boundary-pair", f"boundary-pair:{n}", {f.name: v, o: small[o]}))
    for mode in ("small", "max", "big"):
        t = _gen(cls, mode, salt)
        if t:
            out.append(("all-fields", f"all-fields:{mode}", t))
    seen = set()
    uniq = []
    for fam, sym, t in out:
        k = repr(sorted(t.items(), key=lambda kv: kv[0]))
        if k in seen:
            continue
        seen.add(k)
        uniq.append((fam, sym, t))
    return uniq


# ---------------------------------------------------------------- judging
def _packed_set(cls, tree, path=""):
    """[(path, owner class, field, ids)] for every set packed-list field anywhere in the tree."""
    out = []
    for f in ts.schema(cls):
        v = tree.get(f.name)
        if v is None:
            continue
        if f.kind == "packed":
            out.append((f"{path}{cls.__name__}.{f.name}", cls, f, v))
        elif f.kind == "struct":
            out += _packed_set(f.arg, v, f"{path}{cls.__name__}.{f.name}/")
        elif f.kind == "list":
            for i, item in enumerate(v):
                out += _packed_set(f.arg, item, f"{path}{cls.__name__}.{f.name}[{i}]/")
    return out


def _strip_packed(cls, tree):
    out = {}
    for f in ts.schema(cls):
        v = tree.get(f.name)
        if v is None or f.kind == "packed":
            continue
        if f.kind == "struct":
            v = _strip_packed(f.arg, v)
        elif f.kind == "list":
            v = [_strip_packed(f.arg, item) for item in v]
        out[f.name] = v
    return out


def _drop_empty_packed(cls, tree):
    out = {}
    for f in ts.schema(cls):
        v = tree.get(f.name)
        if v is None or (f.kind == "packed" and len(v) == 0):
            continue
        if f.kind == "struct" and isinstance(v, dict):
            v = _drop_empty_packed(f.arg, v)
        elif f.kind == "list" and isinstance(v, list):
            v = [_drop_empty_packed(f.arg, item) if isinstance(item, dict) else item for item in v]
        out[f.name] = v
    return out


def _link_cause(ids):
    if len(ids) >= 2:
        return "two-or-more-ids"
    if len(ids) == 0:
        return "empty-list"
    return "single-id-low-byte-zero" if ids[0] & 0xFF == 0 else "single-id"


def _short(v, n=24):
    if isinstance(v, (bytes, bytearray)):
        return {"len": len(v), "head": bytes(v[:n])}
    if isinstance(v, str) and len(v) > n:
        return {"len": len(v), "head": v[:n]}
    if isinstance(v, list) and len(repr(v)) > 200:
        return {"items": len(v), "repr_head": repr(v)[:200]}
    if isinstance(v, dict) and len(repr(v)) > 200:
        return {"fields": sorted(v), "repr_head": repr(v)[:200]}
    return v


def _classify(direction, diffs):
    out = []
    for path, owner, f, w, g in diffs:
        d = {"field": path, "tlv_type": f.tlv_type, "kind": f.kind, "encoded": _short(w), "decoded": _short(g)}
        if f.kind == "packed":
            sig = f"link-list-misdecoded:{owner.__name__}:{_link_cause(w or [])}"
        elif f.tlv_type in ts.shared_types(owner):
            sig = f"duplicate-tlv-type:{owner.__name__}:{f.tlv_type}"
            d["fields_sharing_type"] = ts.shared_types(owner)[f.tlv_type]
        else:
            sig = f"{direction}-differs:{owner.__name__}.{f.name}:{f.kind}"
        out.append((sig, d))
    return out


def _decode_conformant(cls, tree, data):
    """Decode reference-encoded bytes with the library and compare field values.  -> (violations, decoded obj or None)"""
    try:
        obj = cls.decode(data)
        got = ts.plain(cls, obj)
    except Exception as e:  # noqa: BLE001
        kind = "decode-wrong-python-type" if isinstance(e, ts.Shape) else f"decode-raises:{type(e).__name__}"
        packed = _packed_set(cls, tree)
        if packed:
            # blame the packed id list only if the same message without it decodes correctly
            stripped = _strip_packed(cls, tree)
            try:
                ok = ts.plain(cls, cls.decode(ts.encode(cls, stripped))) == stripped
            except Exception:  # noqa: BLE001
                ok = False
            if ok:
                worst = max(packed, key=lambda p: len(p[3]))
                return [(f"link-list-misdecoded:{worst[1].__name__}:{_link_cause(worst[3])}", {"field": worst[0], "ids": worst[3], "outcome": f"{kind}: {e}"[:200]})], None
        return [(f"{kind}:{cls.__name__}", {"error": str(e)[:200], "data_len": len(data), "data_head": data[:48]})], None
    # weakest reading: a received packed list with no entries may come back as [] or stay unset
    got, tree = _drop_empty_packed(cls, got), _drop_empty_packed(cls, tree)
    if got != tree:
        return _classify("decode", ts.diff(cls, tree, got)), obj
    return [], obj


def _uniq(viol):
    seen = set()
    out = []
    for sig, d in viol:
        if sig in seen:
            continue
        seen.add(sig)
        out.append((sig, d))
    return out


def judge_message(cls, tree):
    out = []
    want = ts.encode(cls, tree)
    if ts.decode(cls, want) != tree and not ts.shared_types(cls):
        raise core.HarnessError(f"reference codec does not round-trip {cls.__name__} {str(tree)[:200]}")
    if not _packed_set(cls, tree):
        obj = ts.build(cls, tree)
        try:
            got = bytes(obj.encode())
        except Exception as e:  # noqa: BLE001
            out.append((f"encode-raises:{type(e).__name__}:{cls.__name__}", {"error": str(e)[:200], "fields": sorted(tree)}))
            got = None
        if got is not None:
            if got != want:
                try:
                    same_content = ts.decode(cls, got) == tree
                except Exception:  # noqa: BLE001
                    same_content = False
                out.append((f"encode-not-canonical:{cls.__name__}", {"fields": sorted(tree), "got_len": len(got), "want_len": len(want), "got_head": got[:48], "want_head": want[:48], "reference_decodes_it_to_the_same_values": same_content}))
            try:
                back = cls.decode(got)
            except Exception as e:  # noqa: BLE001
                out.append((f"roundtrip-decode-raises:{type(e).__name__}:{cls.__name__}", {"error": str(e)[:200], "fields": sorted(tree)}))
            else:
                if not (back == obj):
                    try:
                        diffs = ts.diff(cls, tree, ts.plain(cls, back))
                    except ts.Shape as e:
                        out.append((f"roundtrip-wrong-python-type:{cls.__name__}", {"what": str(e)}))
                    else:
                        out += _classify("roundtrip", diffs) or [(f"roundtrip-not-equal:{cls.__name__}", {"fields": sorted(tree)})]
        # the same message with the values carried by other Python types a caller may use (a bytearray - what the pairing TLV writer and a
        # GATT read hand over - where bytes are declared; the member's plain number where an IntEnum is declared): the same bytes
        if got is not None:
            try:
                loose = bytes(ts.build(cls, tree, "loose").encode())
            except Exception as e:  # noqa: BLE001
                out.append((f"encode-raises:{type(e).__name__}:{cls.__name__}:values-carried-by-bytearray-or-plain-numbers", {"error": str(e)[:200], "fields": sorted(tree)}))
            else:
                if loose != got:
                    out.append((f"encode-depends-on-the-python-type-carrying-a-value:{cls.__name__}", {"fields": sorted(tree), "canonical_len": len(got), "loose_len": len(loose)}))
    v, _ = _decode_conformant(cls, tree, want)
    return _uniq(out + v)


# ---------------------------------------------------------------- cases
FAMILY_TREES = {
    "base": [{"blob": b"\x01\x02", "n": 7}, {"n": 200}, {}],
    "derived": [{"blob": b"\xaa" * 3, "n": 1, "ttl": 513, "text": "abc"}, {"ttl": 65535}, {"text": "x" * 300, "n": 2}],
    "sibling": [{"blob": b"\x05", "n": 3, "flag": 9, "more": b"\x00\x01\x02"}, {"more": b"\x07" * 256}, {"flag": 255}],
}


def case_family(p):
    """p: order - a permutation of base / derived / sibling, each optionally with a direction ('base:decode').  A family of message types
    (one extends the other) is used in that order in one process, on classes made for this run: what a type encodes and decodes does not
    depend on which relative was used first, nor on whether it was first encoded or first decoded."""
    from vt.env import tlvprobe

    classes = dict(zip(("base", "derived", "sibling"), tlvprobe.fresh_family()))
    out = []
    for step in p["order"]:
        who, _, first = step.partition(":")
        cls = classes[who]
        for tree in FAMILY_TREES[who]:
            if first == "decode":
                # a message from the peer is the first thing this type ever sees
                v, _ = _decode_conformant(cls, tree, ts.encode(cls, tree))
                out += [(f"family:{sig}".replace(cls.__name__, who), dict(det, order=p["order"])) for sig, det in v]
            for sig, det in judge_message(cls, tree):
                out.append((f"family:{sig}".replace(cls.__name__, who), dict(det, order=p["order"])))
    return _uniq(out)


def case_message(p):
    """p: cls (registry id), tree (plain field values)"""
    return judge_message(_cls(p["cls"]), p["tree"])


def _link_tree(cls, field, ids, context, salt):
    tree = _gen(cls, "small", salt) if context == "with-others" else {}
    tree[field] = list(ids)
    return tree


def case_links(p):
    """p: cls, field, ids, context (alone | with-others) — a received structure with a packed list of 16-bit ids"""
    cls = _cls(p["cls"])
    tree = _link_tree(cls, p["field"], p["ids"], p["context"], p.get("salt", 0))
    data = ts.encode(cls, tree)
    viol, obj = _decode_conformant(cls, tree, data)
    if obj is not None and hasattr(obj, "to_dict"):
        # only where to_dict() works on the same structure without the link list (it needs semantically valid fields)
        try:
            stripped = _strip_packed(cls, tree)
            cls.decode(ts.encode(cls, stripped)).to_dict()
        except Exception:  # noqa: BLE001
            return _uniq(viol)
        try:
            d = obj.to_dict()
        except Exception as e:  # noqa: BLE001
            viol.append((f"to_dict-raises:{type(e).__name__}:{cls.__name__}", {"ids": p["ids"]}))
        else:
            linked = d.get("linked") or []
            if list(linked) != list(p["ids"]) and not viol:
                viol.append((f"link-list-misdecoded:{cls.__name__}:{_link_cause(p['ids'])}", {"to_dict_linked": linked, "ids": p["ids"]}))
    return _uniq(viol)


PRESENTATION_FORMATS = {"bool": 0x01, "uint8": 0x04, "uint16": 0x06, "uint32": 0x08, "int": 0x10, "float": 0x14, "string": 0x19, "data": 0x1B}


def _db_tree(p):
    """Accessory database (plain tree of the type named p['cls']) of nA accessories x nS services x nC characteristics."""
    na, ns, nc, variant, salt = p["na"], p["ns"], p["nc"], p["variant"], p.get("salt", 0)
    nlinks = {"links0": 0, "links1": 1, "links2": 2, "links3": 3, "bigdesc+links1": 1, "links6": 6}.get(variant)
    accs = []
    for a in range(na):
        services = []
        iid = 1
        siids = [1 + s * (nc + 1) for s in range(ns)]
        for s in range(ns):
            chars = []
            s_iid = iid
            iid += 1
            for c in range(nc):
                ch = {
                    "type": (0x14 + c) if variant != "vendortype" else int.from_bytes(_fill_bytes(16, "pat", salt + c), "big") | 1,
                    "instance_id": iid if variant != "bigiid" else 0x0100 * (iid + 1) + 0xFF - iid,
                    "properties": [0x0010, 0x0030, 0x0290, 0x03B0][c % 4],
                    "presentation_format": bytes((0x04 if variant == "ranges" else sorted(PRESENTATION_FORMATS.values())[(c + s) % 8], 0, 0x00, 0x27, 1, 0, 0)),
                }
                if variant in ("bigdesc", "bigdesc+links1"):
                    ch["user_descriptor"] = _fill_bytes(300 - 7 * c, "pat", salt + c)
                if variant == "ranges":
                    ch["valid_range"] = bytes((0, 100))
                    ch["step_value"] = bytes((1,))
                    ch["valid_values"] = bytes((0, 1, 2))
                chars.append({"characteristic": ch})
                iid += 1
            sv = {
                "type": 0x3E + s if variant != "vendortype" else int.from_bytes(_fill_bytes(16, "ff", 0), "big") - s,
                "instance_id": s_iid if variant != "bigiid" else 0x0100 * (s_iid + 1) + 0xFF - s_iid,
                "_characteristics": chars,
                "properties": 1 if s == 0 else 0,
            }
            if nlinks is not None:
                pool = [i if variant != "bigiid" else 0x0100 * (i + 1) + 0xFF - i for i in siids if i != s_iid] or [s_iid + 100]
                sv["linked_services"] = [pool[i % len(pool)] + (0 if i < len(pool) else 0x1000 * (i // len(pool))) for i in range(nlinks)]
            services.append({"service": sv})
        accs.append({"accessory": {"instance_id": a + 1 if variant != "bigiid" else 0x0200 + a, "_services": services}})
    return {"_accessories": accs}


def _expected_db_dict(tree):
    out = []
    for a in tree["_accessories"]:
        acc = a["accessory"]
        services = []
        for s in acc["_services"]:
            sv = s["service"]
            d = {"type": f"{sv['type']:X}", "iid": sv["instance_id"], "characteristics": [{"type": f"{c['characteristic']['type']:X}", "iid": c["characteristic"]["instance_id"]} for c in sv["_characteristics"]]}
            if sv.get("linked_services"):
                d["linked"] = list(sv["linked_services"])
            services.append(d)
        out.append({"aid": acc["instance_id"], "services": services})
    return out


def _project_db_dict(d):
    out = []
    for acc in d:
        services = []
        for sv in acc["services"]:
            e = {"type": sv["type"], "iid": sv["iid"], "characteristics": [{"type": c["type"], "iid": c["iid"]} for c in sv["characteristics"]]}
            if "linked" in sv:
                e["linked"] = list(sv["linked"])
            services.append(e)
        out.append({"aid": acc["aid"], "services": services})
    return out


def _short_int_width(f, value):
    """Accessories send characteristic / service types in the shortest form (1, 2 or 16 bytes)."""
    if f.kind == "int" and f.arg[0] == 16:
        return 1 if value < 0x100 else 2 if value < 0x10000 else 16
    return None


def case_database(p):
    """p: cls (the database message type), na, ns, nc, variant"""
    cls = _cls(p["cls"])
    tree = _db_tree(p)
    data = ts.encode(cls, tree, int_width=_short_int_width if p["variant"] == "shorttype" else None)
    viol, obj = _decode_conformant(cls, tree, data)
    if obj is not None:
        try:
            got = _project_db_dict(obj.to_dict())
        except Exception as e:  # noqa: BLE001
            viol.append((f"to_dict-raises:{type(e).__name__}:{cls.__name__}", {"error": str(e)[:200]}))
        else:
            if got != _expected_db_dict(tree) and not viol:
                viol.append((f"to_dict-differs:{cls.__name__}", {"got": str(got)[:400], "want": str(_expected_db_dict(tree))[:400]}))
    return _uniq(viol)


def _struct_chars():
    """[(characteristic type uuid, message class id, is_array)] for every struct-valued characteristic the package declares."""
    from aiohomekit.model.characteristics.data import characteristics

    pkg, _, _ = registry()
    ids = {c: cid for cid, c in pkg.items()}
    out = []
    for uuid, info in sorted(characteristics.items()):
        st = info.get("struct")
        if st is not None and st in ids:
            out.append((uuid, ids[st], bool(info.get("array"))))
    return out


def case_charvalue(p):
    """p: uuid, cls, array (bool), trees (list of plain trees; one unless array) — Characteristic.value of a tlv8 characteristic"""
    from aiohomekit.model import Accessory

    cls = _cls(p["cls"])
    trees = p["trees"]
    data = ts.SEPARATOR.join(ts.encode(cls, t) for t in trees)
    acc = Accessory(1)
    serv = acc.add_service("0000FE00-0000-1000-8000-0026BB765291")
    ch = serv.add_char(p["uuid"], value=base64.b64encode(data).decode(), format="tlv8", perms=["pr"])
    # the base64 text as other encoders legitimately write it (RFC 2045: lines of 76 characters; a trailing newline): the same message
    for how, text in (("line-wrapped", base64.encodebytes(data).decode()), ("trailing-newline", base64.b64encode(data).decode() + "\n"), ("crlf-wrapped", base64.encodebytes(data).decode().replace("\n", "\r\n"))):
        ch2 = serv.add_char(p["uuid"], value=text, format="tlv8", perms=["pr"])
        try:
            v2 = ch2.value
            got2 = [ts.plain(cls, v) for v in v2] if p["array"] else [ts.plain(cls, v2)]
        except Exception as e:  # noqa: BLE001
            return [(f"char-value-raises:{type(e).__name__}:{cls.__name__}:base64-text-{how}", {"error": str(e)[:200]})]
        if got2 != trees:
            return [(f"char-value-differs:{cls.__name__}:base64-text-{how}", {"want_items": len(trees), "got_items": len(got2)})]
    try:
        val = ch.value
        got = [ts.plain(cls, v) for v in val] if p["array"] else [ts.plain(cls, val)]
    except ts.Shape as e:
        return [(f"char-value-wrong-python-type:{cls.__name__}", {"what": str(e)[:200]})]
    except Exception as e:  # noqa: BLE001
        return [(f"char-value-raises:{type(e).__name__}:{cls.__name__}", {"error": str(e)[:200]})]
    if got != trees:
        if len(got) == len(trees):
            viol = []
            for w, g in zip(trees, got):
                viol += _classify("char-value", ts.diff(cls, w, g))
            return _uniq(viol)
        return [(f"char-value-item-count:{cls.__name__}", {"want": len(trees), "got": len(got)})]
    return []


def _scramble(obj, depth=0):
    """Overwrite everything reachable from a decoded message in place (what an application, or the CoAP connection's raw_value updates, may do
    with an object it was handed)."""
    import dataclasses

    if depth > 6 or not dataclasses.is_dataclass(obj) or isinstance(obj, type):
        return
    for f in dataclasses.fields(obj):
        v = getattr(obj, f.name, None)
        if isinstance(v, list):
            for x in v:
                _scramble(x, depth + 1)
            try:
                v.clear()
            except Exception:  # noqa: BLE001
                pass
        else:
            _scramble(v, depth + 1)
        try:
            setattr(obj, f.name, None)
        except Exception:  # noqa: BLE001
            pass


def case_decode_twice(p):
    """p: cls, tree.  Decoding is a function of the bytes: what an earlier caller did with the message it got must not show in a later decode of
    the same bytes, nor in a sibling holding an identical nested blob."""
    cls = _cls(p["cls"])
    tree = p["tree"]
    data = ts.encode(cls, tree)
    try:
        first = cls.decode(data)
        snap = ts.plain(cls, first)
    except Exception:  # noqa: BLE001
        return []  # judged by the message family
    _scramble(first)
    try:
        second = cls.decode(data)
        got = ts.plain(cls, second)
    except Exception as e:  # noqa: BLE001
        return [(f"decode-after-earlier-result-was-modified-raises:{type(e).__name__}:{cls.__name__}", {"error": str(e)[:160]})]
    if second is first:
        return [(f"decode-returns-the-same-object-twice:{cls.__name__}", {"fields": sorted(tree)})]
    if got != snap:
        return [(f"decode-result-depends-on-what-was-done-with-an-earlier-result:{cls.__name__}", {"fields": sorted(tree)})]
    return []


def _mutate_into(cls, obj, tree):
    """Turn the live message `obj` into `tree` the way application code edits a message it holds: nested messages are edited in place, lists
    keep their identity (cleared and refilled, or their items edited), only leaf fields are assigned."""
    for f in ts.schema(cls):
        want = tree.get(f.name)
        cur = getattr(obj, f.name)
        if f.kind == "struct" and isinstance(want, dict) and cur is not None:
            _mutate_into(f.arg, cur, want)
        elif f.kind == "list" and isinstance(want, list) and isinstance(cur, list):
            if len(cur) == len(want):
                for item, w in zip(cur, want):
                    _mutate_into(f.arg, item, w)
            else:
                del cur[:]
                cur.extend(ts.build(f.arg, w) for w in want)
        elif want is None:
            setattr(obj, f.name, None)
        else:
            setattr(obj, f.name, getattr(ts.build(cls, {f.name: want}), f.name))


def case_encode_history(p):
    """p: cls, tree, tree2.  A message is built with the values of `tree` and encoded; the application then edits the SAME object into `tree2`
    (in place, at every depth) and encodes it again: the encoding is that of the field values the message has NOW."""
    cls = _cls(p["cls"])
    a, b = p["tree"], p["tree2"]
    if _packed_set(cls, a) or _packed_set(cls, b):
        return []
    try:
        obj = ts.build(cls, a)
        first = bytes(obj.encode())
    except Exception:  # noqa: BLE001
        return []  # judged by the message family
    if first != ts.encode(cls, a):
        return []  # dito
    try:
        _mutate_into(cls, obj, b)
        second = bytes(obj.encode())
    except Exception as e:  # noqa: BLE001
        return [(f"encode-after-the-message-was-edited-raises:{type(e).__name__}:{cls.__name__}", {"error": str(e)[:160], "fields_before": sorted(a), "fields_after": sorted(b)})]
    if second != ts.encode(cls, b):
        stale = second == first
        return [(f"encode-after-the-message-was-edited-{'returns-the-earlier-bytes' if stale else 'differs'}:{cls.__name__}", {"fields_before": sorted(a), "fields_after": sorted(b)})]
    return []


def case_charvalue_history(p):
    """p: uuid, cls, array, seq (list of tree lists), how ('set_value' | 'process_changes').  One Characteristic object over several updates, its
    .value read after (and twice after) each: it is what was stored last, however it was stored."""
    from aiohomekit.model import Accessories, Accessory

    cls = _cls(p["cls"])
    enc = lambda trees: base64.b64encode(ts.SEPARATOR.join(ts.encode(cls, t) for t in trees)).decode()  # noqa: E731
    accs = Accessories()
    acc = Accessory(1)
    accs.add_accessory(acc)
    serv = acc.add_service("0000FE00-0000-1000-8000-0026BB765291")
    ch = serv.add_char(p["uuid"], value=enc(p["seq"][0]), format="tlv8", perms=["pr"])
    for step, trees in enumerate(p["seq"]):
        if step:
            if p["how"] == "set_value":
                ch.set_value(enc(trees))
            else:
                accs.process_changes({(1, ch.iid): {"value": enc(trees)}})
        for again in (0, 1):
            try:
                val = ch.value
                got = [ts.plain(cls, v) for v in val] if p["array"] else [ts.plain(cls, val)]
            except Exception as e:  # noqa: BLE001
                if step == 0:
                    return []  # judged by the charvalue family
                return [(f"char-value-after-update-raises:{type(e).__name__}:{cls.__name__}", {"step": step, "how": p["how"], "error": str(e)[:160]})]
            if got != trees:
                if step == 0:
                    return []
                stale = got == p["seq"][step - 1]
                return [(f"char-value-{'stale' if stale else 'wrong'}-after-update:{cls.__name__}", {"step": step, "how": p["how"], "read": again + 1, "items_want": len(trees), "items_got": len(got)})]
    return []


SIG_FORMATS = {  # HAP presentation format -> (name, struct code of one value, boundary values)
    0x04: ("uint8", "B", [0, 1, 100, 255]), 0x06: ("uint16", "H", [0, 1, 256, 65535]), 0x08: ("uint32", "L", [0, 1, 86400, 2**31, 2**32 - 1]),
    0x0A: ("uint64", "Q", [0, 1, 2**32, 2**63, 2**64 - 1]), 0x10: ("int", "l", [-(2**31), -90, -1, 0, 1, 90, 2**31 - 1]), 0x14: ("float", "f", [-270.5, -1.0, 0.0, 0.5, 100.0, 1e6]),
}
SIG_UNITS = {0x272F: "celsius", 0x2763: "arcdegrees", 0x27AD: "percentage", 0x2731: "lux", 0x2703: "seconds", 0x2700: None}


def case_signature(p):
    """What the accessory put into a characteristic signature (format, unit, range, step - fixed-width little-endian numbers per HAP) is what the
    decoded structure reports through the accessors and to_dict() that the pairings consume.  p: transport ('ble'|'coap'), fmt, lo, hi, step, unit."""
    import struct as _st

    if p["transport"] == "ble":
        from aiohomekit.controller.ble.structs import Characteristic as Cls
    else:
        from aiohomekit.controller.coap.structs import Pdu09Characteristic as Cls
    name, code, _ = SIG_FORMATS[p["fmt"]]
    lo, hi, step = p["lo"], p["hi"], p["step"]
    pf = _st.pack("<BbHBH", p["fmt"], 0, p["unit"], 1, 0)
    tree = {"presentation_format": pf, "valid_range": _st.pack("<" + code * 2, lo, hi)}
    if step is not None:
        tree["step_value"] = _st.pack("<" + code, step)
    sch = {f.name for f in ts.schema(Cls)}
    if "instance_id" in sch:
        tree["instance_id"] = 11
    if "type" in sch:
        tree["type"] = 0x25
    if "properties" in sch:
        tree["properties"] = 0x0033
    wire = ts.encode(Cls, tree)
    try:
        obj = Cls.decode(wire)
        d = obj.to_dict()
    except Exception as e:  # noqa: BLE001
        return [(f"signature:decode-or-to_dict-raises:{type(e).__name__}:{p['transport']}", {**p, "error": str(e)[:160]})]
    # the same bytes as the transports hand them over: a bytearray (what a GATT read returns), a slice of a larger bytearray - same report
    big = bytearray(b"\x00\x00\x00" + bytes(wire) + b"\x00")
    for how, buf in (("bytearray", bytearray(wire)), ("bytearray-slice", big[3:-1])):
        try:
            d2 = Cls.decode(buf).to_dict()
        except Exception as e:  # noqa: BLE001
            return [(f"signature:decode-or-to_dict-raises:{type(e).__name__}:{p['transport']}:given-a-{how}", {**p, "error": str(e)[:160]})]
        if d2 != d:
            return [(f"signature:report-depends-on-the-buffer-type:{p['transport']}:{how}", {**p, "bytes": repr(d)[:120], how: repr(d2)[:120]})]
    want_lo, want_hi = _st.unpack("<" + code * 2, tree["valid_range"])
    want = {"format": name, "minValue": want_lo, "maxValue": want_hi}
    if step:
        want["minStep"] = _st.unpack("<" + code, tree["step_value"])[0]
    if SIG_UNITS[p["unit"]]:
        want["unit"] = SIG_UNITS[p["unit"]]
    out = []
    for k, v in want.items():
        if k == "format" and p["transport"] == "coap" and d.get(k) == "int" and name != "float":
            continue  # the CoAP structure deliberately reports every integer width as "int" (values still travel in their own width, checked below)
        if d.get(k) != v or type(d.get(k)) is not type(v):
            out.append((f"signature:{k}-differs:{name}:{p['transport']}", {**p, "reported": repr(d.get(k)), "encoded": repr(v)}))
    for k in ("minStep", "unit"):
        if k not in want and k in d:
            out.append((f"signature:{k}-reported-though-absent:{name}:{p['transport']}", {**p, "reported": repr(d.get(k))}))
    # values of that format: what is packed for the wire unpacks to the same value, and is the fixed-width little-endian number
    for v in (lo, hi):
        try:
            raw = obj._pack_value(v)
            back = obj._unpack_value(raw)
        except Exception as e:  # noqa: BLE001
            out.append((f"signature:value-pack-raises:{type(e).__name__}:{name}:{p['transport']}", {**p, "value": repr(v)}))
            continue
        if bytes(raw) != _st.pack("<" + code, v) or back != _st.unpack("<" + code, _st.pack("<" + code, v))[0]:
            out.append((f"signature:value-bytes-differ:{name}:{p['transport']}", {**p, "value": repr(v), "got": bytes(raw).hex()}))
    return _uniq(out)


CASES = {"encode_history": case_encode_history, "family": case_family, "signature": case_signature, "message": case_message, "links": case_links, "database": case_database, "charvalue": case_charvalue, "decode_twice": case_decode_twice, "charvalue_history": case_charvalue_history}


# ---------------------------------------------------------------- work
def _n_set(tree):
    return len(tree)


def _work(item, seed, tier):
    acc = core.Acc()
    family = item[0]
    if family == "family":
        for order in item[1]:
            p = {"order": order}
            viol = case_family(p)
            acc.case(key=core.h64(repr(order).encode()), outcome=f"family:{viol[0][0].split(':')[1] if viol else 'ok'}", nontrivial=True, sample={"case": "family", "params": p}, symbols=["family-order"])
            for sig, detail in viol:
                acc.violation(sig, "family", p, detail)
        return acc
    if family == "message":
        _, cid, quick = item
        cls = _cls(cid)
        synthetic = cid.startswith("synthetic:")
        prev = None
        for fam, sym, tree in _message_trees(cls, quick, seed % 251):
            p = {"cls": cid, "tree": tree}
            if prev is not None and tree:
                # the previous message of the enumeration, edited in place into this one, and the other way round
                for a_, b_ in ((prev, tree), (tree, prev)):
                    ph = {"cls": cid, "tree": a_, "tree2": b_}
                    acc.extra["encode_histories"] += 1
                    for sig, detail in case_encode_history(ph):
                        acc.violation(sig, "encode_history", ph, detail)
            if tree:
                prev = tree
            viol = judge_message(cls, tree)
            syms = [f"type:{cid.split(':')[-1]}", f"family:{fam}", f"value:{sym}"] + (["synthetic-type"] if synthetic else [])
            kinds = {f.kind for f in ts.schema(cls) if f.name in tree}
            syms += [f"kind:{k}" for k in sorted(kinds)]
            if len(ts.encode(cls, tree)) > 255:
                syms.append("encoding>255")
            acc.case(key=core.h64(repr((cid, sorted(tree.items()))).encode()), outcome=f"message:{viol[0][0].split(':')[0] if viol else 'ok'}:{fam}", nontrivial=bool(tree),
                     sample={"case": "message", "params": {"cls": cid, "tree": {k: _short(v) for k, v in tree.items()}}}, symbols=syms)
            for sig, detail in viol:
                acc.violation(sig, "message", p, detail)
            if tree:
                v2 = case_decode_twice(p)
                acc.extra["decode_twice_checked"] += 1
                for sig, detail in v2:
                    acc.violation(sig, "decode_twice", p, detail)
    elif family == "links":
        _, cid, field, context, idlists = item
        for ids in idlists:
            p = {"cls": cid, "field": field, "ids": list(ids), "context": context, "salt": seed % 251}
            viol = case_links(p)
            acc.case(key=("links", cid, field, context, tuple(ids)), outcome=f"links:{viol[0][0].split(':')[0] if viol else 'ok'}:n={len(ids)}", nontrivial=True,
                     sample={"case": "links", "params": p}, symbols=[f"type:{cid.split(':')[-1]}", "family:links", f"links:n={len(ids)}", f"links:{context}"])
            for sig, detail in viol:
                acc.violation(sig, "links", p, detail)
    elif family == "database":
        for p in item[1]:
            viol = case_database(p)
            acc.case(key=("db", p["cls"], p["na"], p["ns"], p["nc"], p["variant"]), outcome=f"database:{viol[0][0].split(':')[0] if viol else 'ok'}:{p['variant']}", nontrivial=True,
                     sample={"case": "database", "params": p}, symbols=["family:database", f"database:{p['variant']}", f"database:shape:{p['na']}x{p['ns']}x{p['nc']}"])
            for sig, detail in viol:
                acc.violation(sig, "database", p, detail)
    elif family == "signature":
        for p in item[1]:
            viol = case_signature(p)
            acc.case(key=("sig", core.jsonable(p)), outcome=f"signature:{viol[0][0].split(':')[1] if viol else 'ok'}", nontrivial=True, sample={"case": "signature", "params": p},
                     symbols=["family:signature", f"signature:{p['transport']}", f"signature:fmt:{p['fmt']}"] + (["signature:negative-bound"] if p["lo"] < 0 else []))
            for sig, detail in viol:
                acc.violation(sig, "signature", p, detail)
    elif family == "charvalue":
        for p in item[1]:
            viol = case_charvalue(p)
            acc.case(key=core.h64(repr(("cv", p["uuid"], p["trees"])).encode()), outcome=f"charvalue:{viol[0][0].split(':')[0] if viol else 'ok'}", nontrivial=any(p["trees"]),
                     sample={"case": "charvalue", "params": {"uuid": p["uuid"], "cls": p["cls"], "items": len(p["trees"])}}, symbols=["family:charvalue", f"charvalue:{'array' if p['array'] else 'single'}", f"type:{p['cls'].split(':')[-1]}"])
            for sig, detail in viol:
                acc.violation(sig, "charvalue", p, detail)
        # histories on one Characteristic object: each case's value followed by its successor's (and back), stored both ways
        cases = item[1]
        for a, b in zip(cases, cases[1:]):
            if a["uuid"] != b["uuid"] or a["trees"] == b["trees"]:
                continue
            for how in ("set_value", "process_changes"):
                q = {"uuid": a["uuid"], "cls": a["cls"], "array": a["array"], "seq": [a["trees"], b["trees"], a["trees"]], "how": how}
                viol = case_charvalue_history(q)
                acc.extra["charvalue_histories"] += 1
                for sig, detail in viol:
                    acc.violation(sig, "charvalue_history", q, detail)
    else:
        raise core.HarnessError(f"unknown family {family}")
    return acc


def _id_lists(quick):
    """Packed lists of non-zero 16-bit ids: 0..6 entries, every byte value in every id byte position."""
    out = [[]]
    edge = (0x00, 0x01, 0x02, 0x10, 0xFE, 0xFF)
    if quick:
        singles = {(hi << 8) | lo for lo in range(256) for hi in edge} | {(hi << 8) | lo for hi in range(256) for lo in edge}
    else:
        singles = set(range(1, 0x10000))
    singles.discard(0)
    out += [[i] for i in sorted(singles)]
    # two ids: every byte value in each of the four byte positions, the other bytes from a small set
    two = set()
    for b in range(256):
        for other in (0x0002, 0x0100, 0xFFFF) if quick else (0x0001, 0x0002, 0x0100, 0x00FF, 0xFF00, 0xFFFF, 0x0101, 0x0302):
            for first in ((b << 8) | 1, (1 << 8) | b, b, b << 8):
                if first and other:
                    two.add((first, other))
                    two.add((other, first))
    out += [list(t) for t in sorted(two)]
    alpha = {3: (1, 2, 0x0100, 0x0102, 0xFFFF), 4: (1, 0x0100, 0xFF01), 5: (2, 0x0300), 6: (0x0001, 0x0100)}
    if not quick:
        alpha = {3: (1, 2, 3, 0x0100, 0x0102, 0x00FF, 0xFF00, 0xFFFF), 4: (1, 2, 0x0100, 0xFF01, 0xFFFF), 5: (1, 2, 0x0300, 0xFFFF), 6: (0x0001, 0x0100, 0xFFFF)}
    for n, ids in alpha.items():
        out += [list(t) for t in itertools.product(ids, repeat=n)]
    return out


DB_VARIANTS = ["plain", "links0", "links1", "links2", "links3", "links6", "bigdesc", "bigdesc+links1", "shorttype", "vendortype", "bigiid", "ranges"]


def run(ctx):
    quick = ctx.tier == "quick"
    pkg, probes, failed = registry()
    salt = ctx.seed % 251
    if failed:
        ctx.note(f"modules that could not be imported during reflection: {failed}")
    ctx.require(len(pkg) >= 26, f"reflection found only {len(pkg)} TLVStruct message types (26 known)")
    unsupported = sorted({f"{c.__name__}.{f.name}:{f.arg}" for c in pkg.values() for f in ts.schema(c) if f.kind == "unsupported"})
    if unsupported:
        ctx.note(f"fields of a type the codec does not support stay unset: {unsupported}")

    # the simplest instances of the suspected defects (DESIGN.md §6) first, so that they are the reported examples
    first = []
    for cid, c in pkg.items():
        for f in ts.schema(c):
            if f.kind == "packed":
                first.append(("links", cid, f.name, "alone", [[1, 2], [256], [1, 2, 3]]))
    ctx.pmap(_work, first, parallel=False)
    for cid, c in pkg.items():  # a message type declaring one tlv type twice: each of the sharing fields alone
        for t, names in ts.shared_types(c).items():
            for name in names:
                f = next(f for f in ts.schema(c) if f.name == name)
                if f.kind == "bytes":
                    tree = {name: b"\x01"}
                    for sig, detail in judge_message(c, tree):
                        ctx.acc.violation(sig, "message", {"cls": cid, "tree": tree}, detail)
    work = [("message", cid, quick) for cid in list(pkg) + list(probes)]
    # packed id lists of received structures
    lists = _id_lists(quick)
    n_link_types = 0
    for cid, c in {**pkg, **probes}.items():
        for f in ts.schema(c):
            if f.kind != "packed":
                continue
            n_link_types += 1
            for context in ("alone", "with-others"):
                for i in range(0, len(lists), 4000):
                    work.append(("links", cid, f.name, context, lists[i : i + 4000]))
    # accessory databases: the type whose nesting reaches a packed list through lists of messages
    db_ids = [cid for cid, c in pkg.items() if c.__name__ == "Pdu09Database"]
    ctx.require(len(db_ids) == 1, "CoAP accessory database type not found by reflection")
    dbs = [{"cls": db_ids[0], "na": a, "ns": s, "nc": c, "variant": v, "salt": salt} for v in DB_VARIANTS for a in (1, 2, 3) for s in (1, 2, 3) for c in (1, 2, 3)]
    for i in range(0, len(dbs), 27):
        work.append(("database", dbs[i : i + 27]))
    # struct-valued characteristics
    cvs = []
    for uuid, cid, array in _struct_chars():
        c = _cls(cid)
        trees = [t for _, _, t in _message_trees(c, quick, salt)]
        if array:
            nonempty = [t for t in trees if t]
            for t in nonempty:
                cvs.append({"uuid": uuid, "cls": cid, "array": True, "trees": [t]})
            for a, b in itertools.product(nonempty[:6], repeat=2):
                cvs.append({"uuid": uuid, "cls": cid, "array": True, "trees": [a, b]})
            for a in nonempty[:4]:
                cvs.append({"uuid": uuid, "cls": cid, "array": True, "trees": [a, nonempty[-1], a]})
        else:
            for t in trees:
                cvs.append({"uuid": uuid, "cls": cid, "array": False, "trees": [t]})
    for i in range(0, len(cvs), 200):
        work.append(("charvalue", cvs[i : i + 200]))

    sigs = []
    for tr in ("ble", "coap"):
        for fmt, (_n, _c, vals) in SIG_FORMATS.items():
            for lo, hi in itertools.combinations(vals, 2):
                for step in (None, vals[1] if vals[1] else vals[2], vals[2]):
                    for unit in (list(SIG_UNITS) if (lo, hi) == (vals[0], vals[-1]) else [0x2700, 0x2763]):
                        sigs.append({"transport": tr, "fmt": fmt, "lo": lo, "hi": hi, "step": step, "unit": unit})
    for i in range(0, len(sigs), 300):
        work.append(("signature", sigs[i : i + 300]))
    # families of message types (one extends another): every order of first use, first use by encoding or by decoding
    roles = ("base", "derived", "sibling")
    orders = [list(o) for n in (2, 3) for o in itertools.permutations([f"{r}{d}" for r in roles for d in ("", ":decode")], n) if len({x.split(":")[0] for x in o}) == n]
    for i in range(0, len(orders), 40):
        work.append(("family", orders[i : i + 40]))
    ctx.pmap(_work, work)
    ctx.exhaustive = True
    ctx.bounds.update(
        family_orders=len(orders),
        signature_cases=len(sigs),
        message_types_by_reflection=len(pkg), synthetic_types=len(probes), sizes=SIZES, separator_item_lengths=SEP_LENGTHS,
        link_list_lengths="0..6", single_ids="all 65535 non-zero" if not quick else "every low byte x 6 high bytes + every high byte x 6 low bytes",
        database_shapes="1..3 x 1..3 x 1..3", database_variants=DB_VARIANTS, struct_characteristics=len(_struct_chars()),
    )
    sy = ctx.acc.symbols
    for cid in list(pkg) + list(probes):
        ctx.require(sy[f"type:{cid.split(':')[-1]}"] > 0, f"message type {cid} never ran")
    for fam in ("empty", "alone", "pair", "boundary-pair", "all-fields", "links", "database", "charvalue"):
        ctx.require(sy[f"family:{fam}"] > 0, f"family {fam} never ran")
    for k in ("int", "enum", "str", "bytes", "struct", "list"):
        ctx.require(sy[f"kind:{k}"] > 0, f"no message with a {k} field ran")
    for n in SIZES:
        ctx.require(sy[f"value:bytes:{n}"] > 0 and sy[f"value:str:{n}"] > 0, f"size {n} never ran")
    for n in range(0, 7):
        ctx.require(sy[f"links:n={n}"] > 0, f"no link list with {n} ids ran")
    ctx.require(n_link_types >= 2, "fewer than two received structures with a packed id list found")
    ctx.require(any(k.startswith("value:list:separator-at-") for k in sy), "no list sized around the fragment boundary ran")
    ctx.require(sy["value:list:3:item>255"] > 0 and sy["encoding>255"] > 100, "too few encodings over 255 bytes")
    for v in DB_VARIANTS:
        ctx.require(sy[f"database:{v}"] == 27, f"database variant {v} incomplete")
    ctx.require(sy["charvalue:array"] > 0 and sy["charvalue:single"] > 0, "struct-valued characteristic access not exercised")
    ctx.require(len(ctx.acc.outcomes) >= 8, "fewer than 8 distinct outcomes")
    ctx.require(ctx.acc.extra["decode_twice_checked"] > 1000 and ctx.acc.extra["charvalue_histories"] > 100, "decode-twice / characteristic histories not exercised")

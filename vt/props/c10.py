"""C10 reconnection discipline: E1 deviation-bounded exploration (see vt/env/reconn.py for harness and oracle)."""
from __future__ import annotations

from vt import core, explore
from vt.env import reconn

META = dict(
    level="model_checking",
    engine="E1",
    technique="stateless deviation-bounded exhaustive exploration (all executions with <= d departures from the default environment answer) of connection-round outcomes, triggers and timer firings against the real reconnect loop on a virtual-time event loop",
    text="a real IpPairing/SecureHomeKitConnection runs against a simulated network with 1-3 advertised hosts; default path: every round refused, "
    "timers fire in order, 16 rounds (past the 60 s cap); every choice point may deviate to any per-round outcome {hang, each host x {ok, close at M1/M3, "
    "HTTP 4xx, wrong pairing id, bad signature, auth error TLV at M2/M4, garbage, busy}} or trigger {zeroconf update same/changed, ensure (plain, own timeout), "
    "cancel waiter, close, shutdown, drop}; oracle on the network log: <=1 round in progress, gaps >=0.1 s, <=60 s, non-decreasing, not constant, "
    "<= 2|hosts| calls per instant, bounded liveness (another round within 130 s on defaults unless connected/closed/auth-failed), silence after "
    "shutdown / close / auth failure, waiting callers released within 10 s with the documented errors Further configurations: address sets that overlap an excluded address in either member, a connection reset while the re-subscription of connection_made runs, other read-cutting / block-size / HTTP-spelling environments, and a 2100-round default run (35 h of virtual back-off). Also: a peer FIN on an idle session; peer addresses as the kernel spells them; an immediate retry needs a reason (callers are none); application requests in flight when the connection goes. Also replies that are damaged rather than refusing (an M2 whose encrypted part does not open, a public key of 31 bytes); an authentication failure is what the accessory SENT, not what the library raised.",
    note="bounded by deviations d and horizon as reported; environment = VirtualLoop + SimNet (conformance-tested)",
    design_ref="DESIGN.md §4 C10",
    rule="state = canonical (timers, connector frame locals incl. interval, flags, exclusions, open conns, waiting callers); transition = one environment choice; execution = run to horizon",
)

PROP = "c10:"


def H(p):
    return reconn.ReconnH(p)


def case_explore(p):
    h, menus, trace, v = explore.run_default(lambda: H(p), tuple(p.get("choices", ())))
    try:
        if not v:
            v = h.finish()
        return [(s, dict(detail=d, trace=trace)) for s, d in v if s.startswith(PROP)]
    finally:
        h.close()


CASES = {"explore": case_explore}


def _work(item, seed, tier):
    acc = core.Acc()
    p, root, max_dev = item
    tmp = core.Acc()
    explore.explore_dev(lambda: H(p), tmp, max_dev=max_dev, case="explore", params=p, root=root)
    tmp.viol = [v for v in tmp.viol if v["signature"].startswith(PROP)]
    for k in list(tmp.viol_count):
        if not k.startswith(PROP):
            del tmp.viol_count[k]
    acc.merge(tmp)
    return acc


def case_browser(p):
    """Announcements as they really arrive: through the zeroconf browser callback of a real IpController (debounced resolution, goodbyes), with a
    loaded pairing whose connection attempts are all refused.  After the accessory was announced at a NEW address (and not taken back), an attempt
    that lists that address follows within 130 s: no advertised address is ignored forever."""
    from vt.props import c19

    h = c19.H(dict(kind="ip", pairing="cached", browser=True, waiters=0, ids=1, P=0, seed=p.get("seed", 0)))
    out = []
    try:
        net = h.net
        last_addr, announced_at, removed = None, None, False
        for ev in p["history"]:
            kind, _, arg = ev.partition(":")
            if kind == "add":
                h._zc("zc-add", c19.IDS[0], "ip", address=arg)
                last_addr, announced_at, removed = arg, h.loop.time(), False
            elif kind == "rm":
                h._zc("zc-rm", c19.IDS[0], "ip")
                removed = True
            elif kind == "wait":
                h.loop.advance(float(arg))
            h.loop.run_until_idle()
        n0 = len(net.attempts)
        h.loop.advance(130.0)
        if last_addr is not None and not removed:
            later = [a for a in net.attempts if a["t"] >= announced_at - 1e-9]
            if not any(last_addr in a["hosts"] for a in later):
                out.append(("c10:browser:announced-address-never-tried", {"history": p["history"], "announced": last_addr, "at": announced_at, "attempt_hosts_since": [a["hosts"] for a in later][:6], "attempts_total": len(net.attempts)}))
    finally:
        h.close()
    return out


CASES["browser"] = case_browser


def _work_browser(item, seed, tier):
    acc = core.Acc()
    for hist in item:
        p = {"history": list(hist), "seed": seed}
        v = case_browser(p)
        acc.case(key=("browser", tuple(hist)), outcome=f"browser:{'ok' if not v else v[0][0]}", sample={"case": "browser", "params": p}, symbols=("browser",) + tuple("br:" + e.split(":")[0] for e in hist))
        acc.traces += 1
        for sig, detail in v:
            acc.violation(sig, "browser", p, detail)
    return acc


def plan(ctx, configs):
    work = []
    for p, d in configs:
        p = dict(p, seed=ctx.seed)
        h, menus, trace, v = explore.run_default(lambda: H(p), ())
        h.close()
        h2, menus2, trace2, _ = explore.run_default(lambda: H(p), ())
        h2.close()
        if trace != trace2:
            raise core.HarnessError("default execution is not deterministic")
        work.append((p, (), 0))
        if d >= 1:
            for i, m in enumerate(menus):
                for alt in range(1, len(m)):
                    work.append((p, tuple([0] * i + [alt]), d))
    return work


def run(ctx):
    quick = ctx.tier == "quick"
    small = dict(behaviours=["ok", "wrong-id", "auth-error", "close-m1", "bad-sig"], triggers=["zc-same", "zc-changed", "ensure", "close", "shutdown", "drop", "cancel-ensure"])
    if quick:
        configs = [
            (dict(hosts=["10.0.0.1"], rounds=16), 1),
            (dict(hosts=["10.0.0.1", "10.0.0.2"], rounds=14), 1),
            (dict(hosts=["10.0.0.1", "10.0.0.2", "fe80::1"], rounds=12, **small), 1),
            (dict(hosts=["10.0.0.1"], rounds=7, **small), 2),
            # address spellings: a scoped link-local address and an uncompressed one (the socket reports the peer in the kernel's spelling)
            (dict(hosts=["fe80::1%eth0", "10.0.0.2", "fd00:0:0:0::5"], rounds=7, behaviours=["ok", "wrong-id", "close-m1"], triggers=["zc-same", "drop", "ensure"]), 2),
            (dict(hosts=["10.0.0.1"], rounds=6, subscriptions=True, behaviours=["ok", "ok-close-on-subscribe", "ok-reset-on-subscribe", "ok-bad-subscribe-reply", "auth-error"], triggers=["zc-same", "ensure", "drop", "close"]), 2),
            # replies that are damaged rather than refusing: an M2 whose encrypted part does not open, a public key of the wrong length
            (dict(hosts=["10.0.0.1"], rounds=6, behaviours=["ok", "bad-tag", "short-key", "auth-error"], triggers=["zc-same", "ensure", "drop"]), 2),
            # from non-initial states: connected then dropped; authentication failed; closed then re-triggered
            (dict(hosts=["10.0.0.1", "10.0.0.2"], rounds=6, prelude=["ok|10.0.0.1|ok", "drop"], **small), 1),
            (dict(hosts=["10.0.0.1"], rounds=5, prelude=["ok|10.0.0.1|auth-error"], **small), 2),
            (dict(hosts=["10.0.0.1"], rounds=6, prelude=["refuse", "timer", "refuse", "timer", "refuse", "close", "zc-same"], **small), 1),
            # announcements that change only the port (same addresses), alone and mixed with address changes
            (dict(hosts=["10.0.0.1", "10.0.0.2"], rounds=7, behaviours=["ok", "wrong-id"], triggers=["zc-port", "zc-same", "zc-changed", "drop"]), 2),
            # the controller itself gives a connection up (garbled 2xx reply to an application write on an idle session): retries must follow
            (dict(hosts=["10.0.0.1"], rounds=6, behaviours=["ok", "auth-error"], triggers=["put-garbled:not-json", "put-garbled:not-utf8", "put-garbled:truncated-json", "drop", "zc-same", "close"]), 2),
            # application requests in flight (one on the wire, one queued behind it) when the connection goes
            (dict(hosts=["10.0.0.1"], rounds=7, behaviours=["ok", "auth-error"], triggers=["app-req", "drop", "ensure", "zc-same"], prelude=["ok|10.0.0.1|ok"]), 3),
            # other environments (read boundaries, block sizes, HTTP spelling of the accessory's replies): nothing in the property depends on them
            (dict(hosts=["10.0.0.1", "10.0.0.2"], rounds=8, env=dict(delivery="bytes", frames=[7], http="chunked-lower"), **small), 1),
            (dict(hosts=["10.0.0.1"], rounds=6, subscriptions=True, env=dict(delivery="3/4", frames=[40], http="lower"), behaviours=["ok", "ok-bad-subscribe-reply", "auth-error", "m4-auth-error"], triggers=["zc-same", "ensure", "drop", "close"]), 1),
            # long horizon on defaults only: the accessory stays unreachable for 2100 consecutive rounds (about 35 h of back-off at the 60 s cap)
            (dict(hosts=["10.0.0.1"], rounds=2100, max_time=1e9, triggers=[]), 0),
            # one of two addresses already excluded (wrong pairing id), then address sets that overlap the old one in either member
            (dict(hosts=["10.0.0.1", "10.0.0.2"], rounds=6, prelude=["ok|10.0.0.2|wrong-id"], behaviours=["ok", "wrong-id"], triggers=["zc-same", "zc-changed", "zc-changed-last", "drop"]), 2),
            (dict(hosts=["10.0.0.1", "10.0.0.2"], rounds=6, prelude=["ok|10.0.0.1|wrong-id"], behaviours=["ok", "wrong-id"], triggers=["zc-same", "zc-changed", "zc-changed-last", "drop"]), 2),
        ]
    else:
        configs = [
            (dict(hosts=["10.0.0.1"], rounds=16), 2),
            (dict(hosts=["10.0.0.1", "10.0.0.2"], rounds=10), 2),
            (dict(hosts=["10.0.0.1", "10.0.0.2", "fd00::1"], rounds=14), 1),
            (dict(hosts=["10.0.0.1", "10.0.0.2"], rounds=7, **small), 3),
            (dict(hosts=["fe80::1%eth0", "fd00:0:0:0::5", "10.0.0.2"], rounds=8, behaviours=["ok", "wrong-id", "close-m1", "auth-error"], triggers=["zc-same", "zc-changed", "drop", "ensure", "close"]), 2),
            (dict(hosts=["10.0.0.1", "10.0.0.2"], rounds=8, prelude=["ok|10.0.0.1|ok", "drop"]), 2),
            (dict(hosts=["10.0.0.1"], rounds=7, subscriptions=True), 2),
            (dict(hosts=["10.0.0.1"], rounds=6, prelude=["ok|10.0.0.1|auth-error"]), 2),
            (dict(hosts=["10.0.0.1"], rounds=8, prelude=["refuse", "timer", "refuse", "timer", "refuse", "close", "zc-same"]), 2),
            (dict(hosts=["10.0.0.1", "10.0.0.2", "fd00::1"], rounds=8, prelude=["ok|10.0.0.1|wrong-id", "ok|10.0.0.2|wrong-id"], **small), 2),
            (dict(hosts=["10.0.0.1"], rounds=5000, max_time=1e9, triggers=[]), 0),
            (dict(hosts=["10.0.0.1", "10.0.0.2"], rounds=2100, max_time=1e9, triggers=[]), 0),
            (dict(hosts=["10.0.0.1", "10.0.0.2"], rounds=8, prelude=["ok|10.0.0.2|wrong-id"], behaviours=["ok", "wrong-id", "close-m1"], triggers=["zc-same", "zc-changed", "zc-changed-last", "drop", "ensure", "close"]), 3),
            (dict(hosts=["10.0.0.1", "10.0.0.2", "fd00::1"], rounds=7, prelude=["ok|10.0.0.2|wrong-id"], behaviours=["ok", "wrong-id"], triggers=["zc-same", "zc-changed", "zc-changed-last", "drop"]), 2),
        ]
    import itertools

    alph = ["add:10.0.0.5", "add:10.0.0.6", "rm", "wait:0.3", "wait:1.0"]
    hists = [hh for n_ in range(1, (4 if quick else 6) + 1) for hh in itertools.product(alph, repeat=n_) if any(e.startswith("add") for e in hh) and not any(a.startswith("wait") and b.startswith("wait") for a, b in zip(hh, hh[1:]))]
    ctx.pmap(_work_browser, [hists[i : i + 25] for i in range(0, len(hists), 25)])
    ctx.bounds.update(browser_histories=len(hists), browser_alphabet=alph)
    work = plan(ctx, configs)
    ctx.bounds.update(configs=[dict(hosts=c["hosts"], rounds=c["rounds"], deviations=d) for c, d in configs])
    ctx.pmap(_work, work)
    ctx.exhaustive = not ctx.acc.capped
    for s in ("refuse", "timer", "ok", "hang", "zc-same", "zc-changed", "ensure", "close", "shutdown", "drop"):
        ctx.require(ctx.acc.symbols[s] > 0, f"event {s} never taken")
    ctx.require(len(ctx.acc.outcomes) >= 4, "too few distinct outcomes")

"""C13, CoAP leg: get/put_characteristics of a real CoAPPairing (reference PDU bytes through a real EncryptionContext)."""
from __future__ import annotations

import itertools

OUTCOMES = ["ok", "s1", "s2", "s3", "s4", "s5", "s6", "s6b", "s7", "s128", "s255", "tid", "ctl", "empty"]  # s6b: a failed transaction whose response PDU carries a (3 byte) body  # empty: success with a zero-length body (reads only)  # s7/s128/s255: status bytes the table does not define
READ_SETS = [[9], [9, 10], [2, 9, 10], [9, 13], [13, 41]]
WRITE_SETS = [[9], [12], [9, 10], [9, 12], [9, 10, 12], [13], [9, 13], [14, 10], [13, 9, 14]]
READABLE = {2, 9, 10, 13, 41}
VALS = {9: True, 10: 7, 12: 3, 13: False, 14: 4}
EXPECT = {2: "Acc", 9: False, 10: 50, 13: True, 41: "Sub"}
AID = {13: 2, 14: 2, 41: 2}


def aid(i):
    return AID.get(i, 1)


def _st(o):
    return int(o[1:].rstrip("b"))


def _script(opcode, ids, vec):
    sc = {}
    for i, o in zip(ids, vec):
        if o.startswith("s"):
            sc[(opcode, i)] = {"status": _st(o), **({"body": b"\x01\x01\x00"} if o.endswith("b") else {})}
        elif o == "tid":
            sc[(opcode, i)] = {"tid_delta": 7}
        elif o == "ctl":
            sc[(opcode, i)] = {"control": 0x00}
        elif o == "empty" and opcode == 0x03:
            sc[(opcode, i)] = {"empty": True}
    return sc


def case_coap_read(p):
    from vt.env.coaprig import CoapRig

    ids, out, n = p["ids"], [], 0
    rig = CoapRig(seed=p.get("seed", 0))
    try:
        rig.run(rig.pairing.list_accessories_and_characteristics())
        # history: values the accessory REJECTED were written first, so whatever the controller keeps locally differs from what the accessory holds
        wr = [(aid(i), i, VALS[i]) for i in ids if i in VALS and i in READABLE]
        if wr and p.get("prior_write", True):
            rig.acc.script = {(0x02, i): {"status": 6} for _, i, _ in wr}
            try:
                rig.run(rig.pairing.put_characteristics(wr))
            except Exception:  # noqa: BLE001
                pass
        for vec in p["vectors"]:
            n += 1
            rig.acc.script = _script(0x03, ids, vec)
            det = {"transport": "coap", "ids": ids, "outcomes": list(vec)}
            try:
                res = rig.run(rig.pairing.get_characteristics([(aid(i), i) for i in ids]))
            except Exception as e:  # noqa: BLE001
                if any(o in ("s7", "s128", "s255") for o in vec):
                    continue  # a status byte outside the table: failing the whole call is acceptable
                out.append((f"coap:read-raises:{type(e).__name__}", dict(det, err=str(e)[:200])))
                break
            for i, o in zip(ids, vec):
                r = res.get((aid(i), i))
                if o == "ok":
                    if r is None or r.get("value") != EXPECT[i] or r.get("status"):
                        out.append(("coap:read-value-wrong-or-attributed-to-other-item", dict(det, key=i, got=r)))
                elif o == "empty":
                    # the accessory sent no value: anything but "no value" (or a per-item error) is a value it never sent
                    if r is None or (not r.get("status") and r.get("value") not in (None, b"", "")):
                        out.append(("coap:read-reports-a-value-the-accessory-did-not-send", dict(det, key=i, got=repr(r))))
                else:
                    if r is None or "value" in r or not r.get("status"):
                        out.append(("coap:failed-item-not-reported-as-per-item-error", dict(det, key=i, got=repr(r))))
                    elif o.startswith("s") and abs(r["status"]) != _st(o):
                        out.append(("coap:read-status-differs-from-accessory-status", dict(det, key=i, got=r["status"])))
            if out:
                break
    finally:
        rig.close()
    p["_n"] = n
    return out


def case_coap_write(p):
    from vt.env.coaprig import CoapRig

    ids, out, n = p["ids"], [], 0
    rig = CoapRig(seed=p.get("seed", 0))
    try:
        rig.run(rig.pairing.list_accessories_and_characteristics())
        notes = []
        rig.pairing.dispatcher_connect(lambda ev: notes.append(dict(ev)))
        for vec in p["vectors"]:
            n += 1
            rig.acc.script = _script(0x02, ids, vec)
            del notes[:]
            det = {"transport": "coap", "ids": ids, "outcomes": list(vec)}
            try:
                res, exc = rig.run(rig.pairing.put_characteristics([(aid(i), i, VALS[i]) for i in ids])), None
            except Exception as e:  # noqa: BLE001
                res, exc = {}, e
            notified = set()
            told = {}
            for ev in notes:
                notified |= {k[1] for k in ev}
                told.update({k[1]: v.get("value") for k, v in ev.items()})
            if exc is not None:
                if all(o == "ok" for o in vec):
                    out.append((f"coap:write-raises-though-nothing-rejected:{type(exc).__name__}", dict(det, err=str(exc)[:200])))
                continue
            for i, o in zip(ids, vec):
                r = res.get((aid(i), i))
                if o.startswith("s"):
                    if r is None or not r.get("status"):
                        out.append(("coap:rejected-write-not-reported", dict(det, key=i)))
                    elif abs(r["status"]) != _st(o):
                        out.append(("coap:rejected-write-reported-with-other-status", dict(det, key=i, got=r["status"])))
                    if i in notified:
                        out.append(("coap:listener-notified-of-rejected-write", dict(det, key=i)))
                elif o == "ok":
                    if r is not None and r.get("status"):
                        out.append(("coap:accepted-write-reported-non-zero", dict(det, key=i, got=repr(r))))
                    if (i in READABLE) != (i in notified):
                        out.append(("coap:listener-notifications-differ-from-accepted-and-readable", dict(det, key=i, notified=sorted(notified))))
                    elif i in notified and told[i] != VALS[i]:
                        out.append(("coap:listeners-told-another-value-than-the-one-written", dict(det, key=i, told=repr(told[i]), written=repr(VALS[i]))))
                else:
                    # reply for this item unusable (wrong tid / control): must be a per-item error, must not be presented as written
                    if r is None or not r.get("status"):
                        out.append(("coap:unattributable-reply-presented-as-written", dict(det, key=i)))
            if out:
                break
    finally:
        rig.close()
    p["_n"] = n
    return out


def case_coap_write_race(p):
    """While a write is on its way the accessory reports another value for the same characteristic (an event), or a read of it completes.
    Listeners are told what happened, in order: the event's value, then - once the accessory has accepted the write - the value that was WRITTEN."""
    from vt.env.coaprig import CoapRig
    from vt.ref import coapacc

    out = []
    rig = CoapRig(seed=p.get("seed", 0))
    try:
        rig.run(rig.pairing.list_accessories_and_characteristics())
        rig.run(rig.pairing.subscribe([(1, 10), (1, 9)]))
        notes = []
        rig.pairing.dispatcher_connect(lambda ev: notes.append(dict(ev)))
        iid, written, other = p["iid"], p["written"], p["other"]
        rig.hold = True
        t = rig.loop.create_task(rig.pairing.put_characteristics([(1, iid, written)]))
        rig.loop.run_until_idle()
        if p["between"] == "event":
            rig.acc.chars[iid].value = other
            rig.deliver_event([(iid, coapacc.pack_value(rig.acc.chars[iid].format, other))])
        rig.hold = False
        while rig.held:
            rig.held.pop(0)()
            rig.loop.run_until_idle()
        if not t.done() or t.exception() is not None:
            return [("coap:write-fails-though-nothing-rejected-it", {"err": repr(t.exception() if t.done() else "pending")[:160], **p})]
        vals = [ev[(1, iid)].get("value") for ev in notes if (1, iid) in ev]
        want = ([other] if p["between"] == "event" else []) + [written]
        if vals != want:
            out.append(("coap:listeners-told-another-value-than-the-one-written", {**p, "told": vals, "expected": want}))
    finally:
        rig.close()
    return out


CASES = {"coap_read": case_coap_read, "coap_write": case_coap_write, "coap_write_race": case_coap_write_race}


def plan(tier):
    work = []
    for ids in READ_SETS:
        alph = OUTCOMES if len(ids) <= (2 if tier == "quick" else 3) else ["ok", "s4", "s6b", "tid", "ctl"]
        vecs = list(itertools.product(alph, repeat=len(ids)))
        work.append(("coap_read", {"ids": ids, "replies": vecs[:1], "vectors": vecs}))
    # the same id more than once in one request (callers pass what they have): every occurrence is answered alike by the accessory
    for ids in ([9, 9, 10], [9, 10, 9], [10, 9, 9, 2], [13, 13, 41]):
        vecs = [v for v in itertools.product(["ok", "s4", "s6b", "tid", "empty"], repeat=len(ids)) if all(v[a] == v[b] for a in range(len(ids)) for b in range(len(ids)) if ids[a] == ids[b])]
        work.append(("coap_read", {"ids": ids, "replies": vecs[:1], "vectors": vecs}))
    for ids in WRITE_SETS:
        alph = [o for o in OUTCOMES if o != "empty"] if len(ids) <= (2 if tier == "quick" else 3) else ["ok", "s6", "s6b", "tid", "ctl"]
        vecs = list(itertools.product(alph, repeat=len(ids)))
        work.append(("coap_write", {"ids": ids, "replies": vecs[:1], "vectors": vecs}))
    for iid, written, other in ((10, 7, 99), (10, 0, 1), (9, True, False), (9, False, True)):
        for between in ("event", "nothing"):
            work.append(("coap_write_race", {"ids": [iid], "replies": [None], "iid": iid, "written": written, "other": other, "between": between}))
    return work

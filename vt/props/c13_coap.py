"""C13, CoAP leg: get/put_characteristics of a real CoAPPairing (reference PDU bytes through a real EncryptionContext)."""
from __future__ import annotations

import itertools

OUTCOMES = ["ok", "s1", "s2", "s3", "s4", "s5", "s6", "s6b", "s7", "s128", "s255", "tid", "ctl", "empty"]  # s6b: a failed transaction whose response PDU carries a (3 byte) body  # empty: success with a zero-length body (reads only)  # s7/s128/s255: status bytes the table does not define
READ_SETS = [[9], [9, 10], [2, 9, 10], [9, 13], [13, 41]]
WRITE_SETS = [[9], [12], [9, 10], [9, 12], [9, 10, 12], [13], [9, 13], [14, 10], [13, 9, 14]]
READABLE = {2, 9, 10, 13, 41}
VALS = {9: True, 10: 7, 12: 3, 13: False, 14: 4}
EXPECT = {2: "Acc", 9: False, 10: 50, 13: True, 41: "Sub"}
AID = {13: 2, 14: 2, 41: 2}


def aid(i):
    return AID.get(i, 1)


def _st(o):
    return int(o[1:].rstrip("b"))


def _script(opcode, ids, vec):
    sc = {}
    for i, o in zip(ids, vec):
        if o.startswith("s"):
            sc[(opcode, i)] = {"status": _st(o), **({"body": b"\x01\x01\x00"} if o.endswith("b") else {})}
        elif o == "tid":
            sc[(opcode, i)] = {"tid_delta": 7}
        elif o == "ctl":
            sc[(opcode, i)] = {"control": 0x00}
        elif o == "empty" and opcode == 0x03:
            sc[(opcode, i)] = {"empty": True}
    return sc


def case_coap_read(p):
    from vt.env.coaprig import CoapRig

    ids, out, n = p["ids"], [], 0
    rig = CoapRig(seed=p.get("seed", 0))
    try:
        rig.run(rig.pairing.list_accessories_and_characteristics())
        # history: values the accessory REJECTED were written first, so whatever the controller keeps locally differs from what the accessory holds
        wr = [(aid(i), i, VALS[i]) for i in ids if i in VALS and i in READABLE]
        if wr and p.get("prior_write", True):
            rig.acc.script = {(0x02, i): {"status": 6} for _, i, _ in wr}
            try:
                rig.run(rig.pairing.put_characteristics(wr))
            except Exception:  # noqa: BLE001
                pass
        for vec in p["vectors"]:
            n += 1
            rig.acc.script = _script(0x03, ids, vec)
            det = {"transport": "coap", "ids": ids, "outcomes": list(vec)}
            try:
                res = rig.run(rig.pairing.get_characteristics([(aid(i), i) for i in ids]))
            except Exception as e:  # noqa: BLE001
                if any(o in ("s7", "s128", "s255") for o in vec):
                    continue  # a status byte outside the table: failing the whole call is acceptable
                out.append((f"coap:read-raises:{type(e).__name__}", dict(det, err=str(e)[:200])))
                break
            for i, o in zip(ids, vec):
                r = res.get((aid(i), i))
                if o == "ok":
                    if r is None or r.get("value") != EXPECT[i] or r.get("status"):
                        out.append(("coap:read-value-wrong-or-attributed-to-other-item", dict(det, key=i, got=r)))
                elif o == "empty":
                    # the accessory sent no value: anything but "no value" (or a per-item error) is a value it never sent
                    if r is None or (not r.get("status") and r.get("value") not in (None, b"", "")):
                        out.append(("coap:read-reports-a-value-the-accessory-did-not-send", dict(det, key=i, got=repr(r))))
                else:
                    if r is None or "value" in r or not r.get("status"):
                        out.append(("coap:failed-item-not-reported-as-per-item-error", dict(det, key=i, got=repr(r))))
                    elif o.startswith("s") and abs(r["status"]) != _st(o):
                        out.append(("coap:read-status-differs-from-accessory-status", dict(det, key=i, got=r["status"])))
            if out:
                break
    finally:
        rig.close()
    p["_n"] = n
    return out


def case_coap_write(p):
    from vt.env.coaprig import CoapRig

    ids, out, n = p["ids"], [], 0
    rig = CoapRig(seed=p.get("seed", 0))
    try:
        rig.run(rig.pairing.list_accessories_and_characteristics())
        notes = []
        rig.pairing.dispatcher_connect(lambda ev: notes.append(dict(ev)))
        for vec in p["vectors"]:
            n += 1
            rig.acc.script = _script(0x02, ids, vec)
            del notes[:]
            det = {"transport": "coap", "ids": ids, "outcomes": list(vec)}
            try:
                res, exc = rig.run(rig.pairing.put_characteristics([(aid(i), i, VALS[i]) for i in ids])), None
            except Exception as e:  # noqa: BLE001
                res, exc = {}, e
            notified = set()
            for ev in notes:
                notified |= {k[1] for k in ev}
            if exc is not None:
                if all(o == "ok" for o in vec):
                    out.append((f"coap:write-raises-though-nothing-rejected:{type(exc).__name__}", dict(det, err=str(exc)[:200])))
                continue
            for i, o in zip(ids, vec):
                r = res.get((aid(i), i))
                if o.startswith("s"):
                    if r is None or not r.get("status"):
                        out.append(("coap:rejected-write-not-reported", dict(det, key=i)))
                    elif abs(r["status"]) != _st(o):
                        out.append(("coap:rejected-write-reported-with-other-status", dict(det, key=i, got=r["status"])))
                    if i in notified:
                        out.append(("coap:listener-notified-of-rejected-write", dict(det, key=i)))
                elif o == "ok":
                    if r is not None and r.get("status"):
                        out.append(("coap:accepted-write-reported-non-zero", dict(det, key=i, got=repr(r))))
                    if (i in READABLE) != (i in notified):
                        out.append(("coap:listener-notifications-differ-from-accepted-and-readable", dict(det, key=i, notified=sorted(notified))))
                else:
                    # reply for this item unusable (wrong tid / control): must be a per-item error, must not be presented as written
                    if r is None or not r.get("status"):
                        out.append(("coap:unattributable-reply-presented-as-written", dict(det, key=i)))
            if out:
                break
    finally:
        rig.close()
    p["_n"] = n
    return out


CASES = {"coap_read": case_coap_read, "coap_write": case_coap_write}


def plan(tier):
    work = []
    for ids in READ_SETS:
        alph = OUTCOMES if len(ids) <= (2 if tier == "quick" else 3) else ["ok", "s4", "s6b", "tid", "ctl"]
        vecs = list(itertools.product(alph, repeat=len(ids)))
        work.append(("coap_read", {"ids": ids, "replies": vecs[:1], "vectors": vecs}))
    # the same id more than once in one request (callers pass what they have): every occurrence is answered alike by the accessory
    for ids in ([9, 9, 10], [9, 10, 9], [10, 9, 9, 2], [13, 13, 41]):
        vecs = [v for v in itertools.product(["ok", "s4", "s6b", "tid", "empty"], repeat=len(ids)) if all(v[a] == v[b] for a in range(len(ids)) for b in range(len(ids)) if ids[a] == ids[b])]
        work.append(("coap_read", {"ids": ids, "replies": vecs[:1], "vectors": vecs}))
    for ids in WRITE_SETS:
        alph = [o for o in OUTCOMES if o != "empty"] if len(ids) <= (2 if tier == "quick" else 3) else ["ok", "s6", "s6b", "tid", "ctl"]
        vecs = list(itertools.product(alph, repeat=len(ids)))
        work.append(("coap_write", {"ids": ids, "replies": vecs[:1], "vectors": vecs}))
    return work

"""C04 error / out-of-sequence replies: the complete finite cross product step x error x state x field subset x
field order x transport decode style, on the real generators (plus pairing-management calls, see c04_mgmt)."""
from __future__ import annotations

import itertools

from vt import core
from vt.env import pairdrv
from vt.env.setupdrv import SetupRun
from vt.ref import crypto as C
from vt.ref import hap, tlv8

META = dict(
    level="exploration",
    engine="E3",
    technique="complete enumeration of the finite reply space (step x error code x state value x subset of the other fields x field order x decode style) on the real pair-setup / pair-verify generators and the pairing-management calls, with a table oracle from the HAP error table",
    text="every cell of step {setup M2,M4,M6; verify M2,M4; add/remove pairing M2 on IP and BLE} x error {absent, 0x01..0x07, 0x00, 0x08, 0xff, "
    "empty, 2-byte} x state {expected, +1, -1, 0, absent, 2-byte} x every subset of the step's honest other fields x error position is fed "
    "to the real code the way IP/CoAP (expected-filter) and BLE (unfiltered) feed it; an error with expected/absent state must raise "
    "exactly the documented class, a wrong state must raise, neither may ever complete The IP cells also travel over the real HomeKitConnection (pair-verify M2/M4, /pairings) in every legal HTTP spelling of the reply (header-name case, optional whitespace, extra headers, chunked). Also: a CoAP leg (pair-verify / pair-setup cells under 2.04 and 4.xx / 5.xx responses; remove-pairing under every PDU status, foreign tid, missing response bit), remove-pairing through the application-facing Controller, and BLE schedules in which the accessory hangs up right after its error reply. API leg (c04_api.py): through the public discovery API of IP, CoAP and BLE the accessory refuses the next k (1..6) requests of pair-setup step M1 / M3 / M5 with a code, at the first attempt or after one or two failed ones: the operation that got the reply fails with the mapped class, returns nothing, and repeats nothing behind the caller's back. The scripted /pairings endpoint answers list requests honestly (a follow-up look at the list must not turn a refused add / remove into a success). Also the error reply behind a late answer to an earlier request that timed out on the same connection.",
    note="other fields carry the honest values (so an ignored error would otherwise succeed); cells with neither error nor wrong state are not judged",
    design_ref="DESIGN.md §4 C04",
    debug_pass="thorough",
    rule="a case = one cell of the cross product; distinct = distinct cell; non-trivial = cell carries an error or a wrong state",
)

ERRORS = {"absent": None, "01": b"\x01", "02": b"\x02", "03": b"\x03", "04": b"\x04", "05": b"\x05", "06": b"\x06", "07": b"\x07",
          "00": b"\x00", "08": b"\x08", "ff": b"\xff", "empty": b"", "2byte": b"\x02\x00"}
MAPPED = {"02": "AuthenticationError", "03": "BackoffError", "04": "MaxPeersError", "05": "MaxTriesError", "06": "UnavailableError", "07": "BusyError",
          "01": "InvalidError", "00": "InvalidError", "08": "InvalidError", "ff": "InvalidError"}
DOCUMENTED = {"AuthenticationError", "BackoffError", "MaxPeersError", "MaxTriesError", "UnavailableError", "BusyError", "InvalidError"}
STATES = ["expected", "plus1", "minus1", "zero", "absent", "2byte"]
STEPS = {"setup-m2": 2, "setup-m4": 4, "setup-m6": 6, "verify-m2": 2, "verify-m4": 4, "verify-m2-resume": 2}


def _state_val(kind, expected):
    return {"expected": bytes([expected]), "plus1": bytes([expected + 1]), "minus1": bytes([expected - 1]), "zero": b"\x00", "absent": None, "2byte": bytes([expected, 0])}[kind]


def _assemble(state, error, others, errpos, extra=None):
    items = []
    if state is not None:
        items.append((hap.T_STATE, state))
    big = None
    if isinstance(extra, (list, tuple)):
        # (type, length, where): a field whose value fills its last fragment exactly (255, 510 bytes) or nearly, put directly in front of the
        # error item ('before-error') or of the state item ('before-state'): the item behind a full fragment is still its own item
        big, extra = (extra[0], bytes((i * 7 + 1) % 256 for i in range(extra[1])), extra[2]), None
    if extra is not None:
        items.append((extra, b"\x05"))  # e.g. kTLVType_RetryDelay, which HAP sends along with a Backoff error
    items += others
    if big is not None:
        items = [i for i in items if i[0] != big[0]]  # equal-typed neighbours would need a separator: keep one item of that type
        if big[2] == "before-state" and state is not None:
            items.insert(0, (big[0], big[1]))
        else:
            items.append((big[0], big[1]))
    if error is not None:
        e = (hap.T_ERROR, error)
        if errpos == "first":
            items.insert(0, e)
        elif errpos == "afterstate":
            items.insert(1 if state is not None else 0, e)
        else:
            items.append(e)
    return tlv8.encode(items)


def _judge(st, err, state_kind, det):
    """st: Step after feeding the cell."""
    name = type(st.exc).__name__ if st.kind == "raise" else None
    det = dict(det, outcome=st.label)
    wrong_state = state_kind not in ("expected", "absent")
    if err == "absent" and not wrong_state:
        return []  # not judged
    if st.kind != "raise":
        which = "error" if err != "absent" else "wrong-state"
        sa = "state-absent" if state_kind == "absent" else ("state-wrong" if wrong_state else "state-ok")
        ex = ":after-unexpected-field" if det.get("extra") is not None else ""
        return [(f"{det['step']}:{which}-reply-completes:{sa}:{det['style']}{ex}", det)]
    if wrong_state:
        return []  # any exception (weakest reading: either class)
    want = MAPPED.get(err)
    if want is None:  # malformed error value: any documented class
        return [] if name in DOCUMENTED else [(f"{det['step']}:malformed-error-raises-undocumented:{name}:{det['style']}", det)]
    if name != want:
        ex = ":after-unexpected-field" if det.get("extra") is not None else ""
        return [(f"{det['step']}:error-{err}-raises-{name}-not-{want}:{det['style']}{ex}", det)]
    return []


def case_cell(p):
    from aiohomekit.protocol import get_session_keys

    step, err, state_kind, subset, errpos, style = p["step"], p["err"], p["state"], p["subset"], p["errpos"], p["style"]
    seed = p.get("seed", 0)
    expected_state = STEPS[step]
    state = _state_val(state_kind, expected_state)
    error = ERRORS[err]
    det = {k: p[k] for k in ("step", "err", "state", "subset", "errpos", "style")}
    det["extra"] = p.get("extra")
    if step.startswith("setup"):
        run = SetupRun(f"{seed}|c04", style)
        if step == "setup-m2":
            st = run.start()
            honest = run.acc.m2()
            feed = run.feed_m2
        elif step == "setup-m4":
            st = run.honest_until("m3")
            if st.kind != "request":
                return [("honest-prefix-failed", det)]
            honest = run.acc.handle_m3(run.m3)
            feed = run.feed
        else:
            st = run.honest_until("m5")
            if st.kind != "request":
                return [("honest-prefix-failed", det)]
            honest = run.acc.handle_m5(run.m5)
            feed = run.feed
        others = [i for i in honest if i[0] != hap.T_STATE and i[0] in subset]
        st = feed(_assemble(state, error, others, errpos, p.get("extra")))
        return _judge(st, err, state_kind, det)
    # verify
    acc = hap.Identity(f"{seed}|c04", "acc", b"AA:BB:CC:DD:EE:FF")
    ios = hap.Identity(f"{seed}|c04", "ios", b"ios")
    pairing = {"AccessoryPairingID": "AA:BB:CC:DD:EE:FF", "AccessoryLTPK": acc.pk.hex(), "iOSPairingId": "ios", "iOSDeviceLTSK": C.det_bytes(f"{seed}|c04", "ltsk|ios").hex()}
    pin = f"{seed}|c04pv"
    with pairdrv.pinned_keys(pin):
        gen = get_session_keys(pairing)
        st = pairdrv.send(gen, None, None, style)
    ios_pub = C.x_pub_bytes(C.x_priv(C.det_bytes(pin, "x25519|1")))
    items, shared, acc_pub = hap.pv_m2(acc, C.det_bytes(pin, "acc-eph"), ios_pub)
    if step == "verify-m2-resume":
        # second exchange of a controller that holds a resumable session (as BLE does): the accessory's resume reply is authentic
        # (its tag verifies against the old secret) but carries an error and/or a wrong step number
        st0 = pairdrv.send(gen, tlv8.encode(items), st.value[1], style)
        st0 = pairdrv.send(gen, tlv8.encode([(hap.T_STATE, b"\x04")]), st0.value[1], style) if st0.kind == "request" else st0
        if st0.kind != "return":
            return [("honest-prefix-failed", det)]
        sid1, derive1 = st0.value
        with pairdrv.pinned_keys(pin + "|2"):
            gen2 = get_session_keys(pairing, sid1, derive1)
            st2 = pairdrv.send(gen2, None, None, style)
        ios_pub2 = C.x_pub_bytes(C.x_priv(C.det_bytes(pin + "|2", "x25519|1")))
        ritems, _ = hap.resume_m2(ios_pub2, shared, C.det_bytes(pin, "newsid", 8))
        others = [i for i in ritems if i[0] != hap.T_STATE]
        st2 = pairdrv.send(gen2, _assemble(state, error, others, errpos, p.get("extra")), st2.value[1], style)
        return _judge(st2, err, state_kind, det)
    if step == "verify-m2":
        others = [i for i in items if i[0] != hap.T_STATE and i[0] in subset]
        st = pairdrv.send(gen, _assemble(state, error, others, errpos, p.get("extra")), st.value[1], style)
        return _judge(st, err, state_kind, det)
    st = pairdrv.send(gen, tlv8.encode(items), st.value[1], style)
    if st.kind != "request":
        return [("honest-prefix-failed", det)]
    st = pairdrv.send(gen, _assemble(state, error, [], errpos, p.get("extra")), st.value[1], style)
    return _judge(st, err, state_kind, det)


CASES = {"cell": case_cell}
try:
    from vt.props import c04_mgmt

    CASES.update(c04_mgmt.CASES)
except ImportError:
    c04_mgmt = None
from vt.props import c04_coap  # noqa: E402

CASES.update(c04_coap.CASES)
from vt.props import c04_api  # noqa: E402

CASES.update(c04_api.CASES)


def _work(item, seed, tier):
    acc = core.Acc()
    for name, p in item:
        p = dict(p, seed=seed)
        v = CASES[name](p)
        vac = p.pop("_vacuous_style", False)
        nontrivial = p.get("err") != "absent" or p.get("state") not in ("expected", "absent")
        if p["step"] == "coap-remove":
            p = dict(p, err=p["reply"], state="n/a")
        acc.case(key=(name, core.jsonable(p)), outcome=f"{p['step']}:{'honest-fails-under-style:' + str(p.get('wire')) if vac else ('ok' if not v else v[0][0])}", nontrivial=nontrivial,
                 sample={"case": name, "params": p}, symbols=(p["step"], f"err:{p['err']}", f"state:{p['state']}", f"style:{p['style']}"))
        for sig, detail in v:
            acc.violation(sig, name, p, detail)
    return acc


def cells():
    other_fields = {"setup-m2": [hap.T_PK, hap.T_SALT], "setup-m4": [hap.T_PROOF], "setup-m6": [hap.T_ENC], "verify-m2": [hap.T_PK, hap.T_ENC], "verify-m4": [], "verify-m2-resume": ["resume"]}
    for step, fields in other_fields.items():
        subsets = [list(c) for r in range(len(fields) + 1) for c in itertools.combinations(fields, r)]
        if step == "verify-m2-resume":
            subsets = [["resume"]]  # the complete authentic resume reply (method, session id, tag)
        for err in ERRORS:
            for state in STATES:
                for subset in subsets:
                    for errpos in (["last"] if err == "absent" else ["first", "afterstate", "last"]):
                        for style in pairdrv.STYLES:
                            if step == "verify-m2-resume" and style == "ip":
                                continue  # only BLE keeps a resumable session (IP/CoAP never pass one)
                            yield ("cell", dict(step=step, err=err, state=state, subset=subset, errpos=errpos, style=style))
                            if err != "absent" and errpos == "last" and subset == subsets[-1] and state in ("expected", "absent"):
                                # the same cell with a field the step does not expect (RetryDelay 0x08, an unknown type 0x42) in front of the error
                                for extra in (8, 0x42):
                                    yield ("cell", dict(step=step, err=err, state=state, subset=subset, errpos=errpos, style=style, extra=extra))
                                for t in (0x42, hap.T_PK, hap.T_ENC):
                                    for ln in (254, 255, 256, 510, 765):
                                        yield ("cell", dict(step=step, err=err, state=state, subset=subset, errpos=errpos, style=style, extra=[t, ln, "before-error"]))
                            if err == "absent" and subset == subsets[-1] and state in ("plus1", "zero"):
                                for t in (0x42, hap.T_PK):
                                    for ln in (255, 510):
                                        yield ("cell", dict(step=step, err=err, state=state, subset=subset, errpos=errpos, style=style, extra=[t, ln, "before-state"]))


def run(ctx):
    work = list(cells())
    if c04_mgmt is not None:
        work += list(c04_mgmt.cells(ctx.tier))
    work += list(c04_coap.cells(ctx.tier))
    work += c04_api.plan(ctx.tier)
    # cheap cells in bigger chunks, SRP-bound cells in small ones
    chunks, cur = [], []
    for w in work:
        cur.append(w)
        limit = 6 if w[1]["step"] in ("setup-m4", "setup-m6", "coap-setup-m4", "coap-setup-m6") or w[1]["step"].startswith("api-") else 60
        if len(cur) >= limit:
            chunks.append(cur)
            cur = []
    if cur:
        chunks.append(cur)
    ctx.pmap(_work, chunks)
    ctx.exhaustive = True
    ctx.bounds.update(steps=list(STEPS) + (list(c04_mgmt.STEPS) if c04_mgmt else []), errors=list(ERRORS), states=STATES, error_positions=["first", "afterstate", "last"], styles=list(pairdrv.STYLES))
    for s in list(STEPS) + list(c04_coap.STEPS) + ["api-setup-m2", "api-setup-m4", "api-setup-m6"]:
        ctx.require(ctx.acc.symbols[s] > 0, f"step {s} never exercised")

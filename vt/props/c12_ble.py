"""C12, BLE leg: a real BlePairing on the virtual loop against the reference GATT accessory.  Histories over subscribe calls (overlapping sets),
the start-notify debounce timer, value changes announced by (empty) GATT notifications - single, a burst over several characteristics, a storm
on one characteristic -, link drops, reconnects on the next use, one CCCD write that fails while the link stays up, a listener that raises.

Oracle (reference: the accessory's own value history per characteristic, nothing from the library):
  * whenever the pairing is quiescent, connected and its timers have run out, the current GATT connection has notifications enabled for every
    subscribed characteristic (except one whose enabling was made to fail on this very connection);
  * once quiescent, the last value delivered for a characteristic that announced a change over the live link is the accessory's current value;
  * what a listener sees for one characteristic is a subsequence of that characteristic's value history, in order, never a value twice in a row
    for one announced change (a poll coalesces, it never invents), keyed by (1, iid);
  * every listener sees the same deliveries, whether or not another listener raises; nothing reaches the loop's exception handler."""
from __future__ import annotations

from vt import canon as _canon
from vt import core, explore
from vt.env.blerig import BleRig
from vt.ref import bleacc

S = bleacc.UUID_SUFFIX
EV_IIDS = (9, 10, 13, 14)


def _chars():
    return bleacc.default_chars() + [
        bleacc.Char(13, bleacc.SVC_LIGHT, 8, "000000CE" + S, "uint32", ("pr", "pw", "ev"), 200),
        bleacc.Char(14, bleacc.SVC_LIGHT, 8, "00000011" + S, "float", ("pr", "ev"), 20.5),
    ]


SEQ = {9: [True, False], 10: [51, 52, 53, 54, 55, 56], 13: [210, 220, 230, 240, 250, 260], 14: [21.5, 22.5, 23.5, 24.5, 25.5, 26.5]}
ALPH = ["sub:9", "sub:10+13", "sub:9+10+13+14", "timer", "change:9", "change:13", "burst", "storm:10", "drop", "use", "fail-start:13"]


class BleSubH(explore.Harness):
    def __init__(self, p):
        self.p = p
        chars = _chars()
        if p.get("acc") == "no-sig":
            # an accessory without a service-signature characteristic on its protocol-information service (the library supports those)
            chars = [c for c in chars if c.iid != 31]
        self.rig = BleRig(seed=p.get("seed", 0), chars=chars)
        if p.get("acc") == "proto-reject":
            # an accessory that refuses protocol-configuration requests (no broadcast key, no state number to fetch)
            self.rig.acc.script[(bleacc.OP_PROTO_CONFIG, 30)] = 6
        self.loop, self.pairing, self.acc = self.rig.loop, self.rig.pairing, self.rig.acc
        self.alphabet = p.get("alphabet", ALPH)
        self.rig.start_notify_fail = {}
        self.logs = {"A": [], "B": []}
        self.viol = []
        self.subscribed = set()
        self.history = {i: [self.acc.chars[i].value] for i in EV_IIDS}
        self.owed = set()  # characteristics that announced a change over the live link and whose value has not been seen delivered yet
        self.armed = set()  # iids whose enabling was made to fail on the current connection
        self.n = {"drop": 0, "fail": 0, "change": 0}
        self.depth_used = 0
        raiser = p.get("raiser")

        def mk(name):
            def cb(ev, log=self.logs[name]):
                log.append(dict(ev))
                if raiser == name:
                    raise RuntimeError("listener failure")

            return cb

        for name in ("A", "B"):
            self.pairing.dispatcher_connect(mk(name))
        self._call(self.pairing.get_characteristics([(1, 9)]))
        for label in p.get("prelude", ()):
            self.take_label(label)
        self.depth_used = 0

    # ----------------------------------------------------------------
    def _call(self, coro):
        t = self.loop.create_task(coro)
        self.loop.run_until_idle()
        if t.done() and not t.cancelled() and t.exception() is not None:
            exc = t.exception()
            from aiohomekit.exceptions import AccessoryDisconnectedError

            if not isinstance(exc, AccessoryDisconnectedError):
                self.viol.append((f"ble:api-raises:{type(exc).__name__}", {"err": str(exc)[:160]}))
        return t

    def _link(self):
        c = self.rig.client
        return c if c is not None and c.is_connected else None

    def _change(self, iid, announce=True):
        seq = SEQ[iid]
        cur = self.acc.chars[iid].value
        nxt = seq[(seq.index(cur) + 1) % len(seq)] if cur in seq else seq[0]
        self.acc.chars[iid].value = nxt
        self.history[iid].append(nxt)
        link = self._link()
        if announce and link is not None and iid in link.notifying:
            self.owed.add(iid)
            link.notifying[iid](iid, bytearray())

    def menu(self):
        m = []
        link = self._link()
        for a in self.alphabet:
            k, _, arg = a.partition(":")
            if k == "timer":
                if self.loop.next_timer() is not None:
                    m.append(a)
            elif k in ("change", "storm"):
                if link is not None and int(arg) in link.notifying and self.n["change"] < self.p.get("max_changes", 3):
                    m.append(a)
            elif k == "burst":
                if link is not None and len(link.notifying) >= 3 and self.n["change"] < self.p.get("max_changes", 3):
                    m.append(a)
            elif k == "drop":
                if link is not None and self.n["drop"] < self.p.get("max_drops", 1):
                    m.append(a)
            elif k == "fail-start":
                if self.n["fail"] < 1 and int(arg) not in (link.notifying if link else {}):
                    m.append(a)
            elif k == "sub":
                if not {int(x) for x in arg.split("+")} <= self.subscribed:
                    m.append(a)
            else:
                m.append(a)
        return m

    def take(self, i):
        self.take_label(self.menu()[i])

    def take_label(self, label):
        self.depth_used += 1
        k, _, arg = label.partition(":")
        if k == "sub":
            ids = {int(x) for x in arg.split("+")}
            self.subscribed |= ids
            self._call(self.pairing.subscribe({(1, x) for x in ids}))
        elif k == "timer":
            self.loop.fire_next_timer()
        elif k == "change":
            self.n["change"] += 1
            self._change(int(arg))
        elif k == "burst":
            self.n["change"] += 1
            for iid in sorted(self._link().notifying)[:4]:
                self._change(iid)
        elif k == "storm":
            self.n["change"] += 1
            for _ in range(3):
                self._change(int(arg))
        elif k == "drop":
            self.n["drop"] += 1
            self.rig.client.peer_disconnect()
            self.rig.notify.clear()
            self.owed.clear()  # the announcements of a link that is gone oblige nobody: the change is picked up by polling
            self.armed.clear()
            self.rig.start_notify_fail.clear()
        elif k == "use":
            self._call(self.pairing.get_characteristics([(1, 10)]))
        elif k == "fail-start":
            from bleak.exc import BleakError

            self.n["fail"] += 1
            self.armed.add(int(arg))
            self.rig.start_notify_fail[int(arg)] = BleakError("Characteristic write failed")
        self.loop.run_until_idle()
        self._check()

    # ----------------------------------------------------------------
    def _check(self):
        # (1) listeners: same deliveries, keyed by (1, iid), values from the history in order
        a, b = self.logs["A"], self.logs["B"]
        if a != b:
            self.viol.append(("ble:listeners-saw-different-deliveries", {"A": a[-3:], "B": b[-3:], "raiser": self.p.get("raiser")}))
        pos = {i: 0 for i in EV_IIDS}
        for ev in a:
            for key, val in ev.items():
                if not (isinstance(key, tuple) and len(key) == 2 and key[0] == 1 and key[1] in self.acc.chars):
                    self.viol.append(("ble:delivery-under-a-key-that-is-no-characteristic", {"key": repr(key)}))
                    continue
                iid = key[1]
                if iid not in EV_IIDS or "value" not in val:
                    continue
                h = self.history[iid]
                try:
                    j = next(j for j in range(pos[iid], len(h)) if h[j] == val["value"] and type(h[j]) is type(val["value"]))
                except StopIteration:
                    self.viol.append(("ble:delivered-value-not-in-order-of-the-accessory-s-history", {"iid": iid, "value": repr(val["value"]), "history": h, "from": pos[iid]}))
                    continue
                pos[iid] = j
        # (2) once quiescent: the value of a characteristic that announced a change has been delivered
        last = {}
        for ev in a:
            for key, val in ev.items():
                if "value" in val:
                    last[key] = val["value"]
        for iid in sorted(self.owed):
            if last.get((1, iid)) == self.acc.chars[iid].value:
                self.owed.discard(iid)
        if self.owed and self._link() is not None and not self._busy():
            self.viol.append(("ble:announced-change-never-delivered", {"iids": sorted(self.owed), "subscribed": sorted(self.subscribed), "last_delivered": {str(k): v for k, v in last.items()}}))
            self.owed.clear()
        # (3) settled and connected: every subscription has its notifications enabled on this connection
        link = self._link()
        if link is not None and self.loop.next_timer() is None and not self._busy() and self.subscribed:
            missing = self.subscribed - set(link.notifying) - (self.armed - set(self.rig.start_notify_fail))  # (an armed fault that has fired excuses its characteristic)
            if missing:
                self.viol.append(("ble:subscribed-characteristic-without-notifications-on-the-live-connection", {"missing": sorted(missing), "enabled": sorted(link.notifying), "subscribed": sorted(self.subscribed)}))
        if self.loop.unhandled:
            ctx = self.loop.unhandled[0]
            self.viol.append((f"ble:loop-exception-handler-called:{type(ctx.get('exception')).__name__}", {"message": str(ctx.get("message"))[:120], "exc": str(ctx.get("exception"))[:120]}))
            self.loop.unhandled.clear()

    def _busy(self):
        import asyncio

        return any(not t.done() for t in asyncio.all_tasks(self.loop))

    def violations(self):
        v, self.viol = self.viol, []
        out, sigs = [], set()
        for s_, d in v:
            if s_ not in sigs:
                sigs.add(s_)
                out.append((s_, d))
        return out

    def finish(self):
        for _ in range(20):
            if self.loop.next_timer() is None:
                break
            self.loop.fire_next_timer()
            self.loop.run_until_idle()
        self._check()
        return self.violations()

    def canon(self):
        pr = self.pairing
        link = self._link()
        timers = tuple(sorted(round(h._when - self.loop.time(), 6) for h in self.loop._scheduled if not h._cancelled))
        return (tuple(sorted(self.subscribed)), tuple(sorted(pr.subscriptions)), tuple(sorted(pr._notifications)), tuple(sorted(pr._broadcast_notifications)), pr._restore_pending,
                link is not None, tuple(sorted(link.notifying)) if link else (), timers, tuple(sorted(self.rig.start_notify_fail)), tuple(sorted(self.n.items())),
                tuple(self.acc.chars[i].value for i in EV_IIDS), len(self.logs["A"]), tuple(sorted(self.owed)), pr._fetched_gsn_this_session, pr._had_notify_this_session, pr.description.state_num if pr.description else None, _canon.tasks_sig(self.loop))

    def outcome(self):
        link = self._link()
        return f"link={link is not None},enabled={len(link.notifying) if link else 0},subs={len(self.subscribed)},deliveries={min(len(self.logs['A']), 6)}"

    def close(self):
        self.rig.close()

"""C06 nonce uniqueness, no replay, in-order acceptance: E1 depth-bounded exploration per transport with an AEAD spy
on the real cipher objects.  IP: full IpPairing over the simulated network.  CoAP / BLE: see c06_coap / c06_ble."""
from __future__ import annotations

import json

from vt import core, explore
from vt.env import aeadspy
from vt.env.iprig import IpRig, std_handler
from vt.ref import crypto as C
from vt.ref import ipacc

META = dict(
    level="model_checking",
    engine="E1",
    technique="stateless exhaustive depth-bounded exploration of request/deliver/replay/future-counter/corrupt/cancel/timeout histories against the real session code of each transport on a virtual-time loop, with every (key, nonce) use recorded by an AEAD spy wrapped around the real cipher objects",
    text="all histories up to depth D over {request of 1 frame, request of 2 frames, deliver next genuine frame, replay an earlier genuine frame, deliver a genuine frame sealed under a future counter, "
    "corrupted frame, cancel the in-flight request, fire the timeout, (CoAP) genuine / replayed / corrupted event}; after a failure requests keep being issued through the public API so reconnect and a "
    "new pair-verify are inside the explored space; oracle: no two successful encrypt calls with equal (key, nonce); every genuine frame yields plaintext at most once and accepted frame numbers are "
    "strictly increasing per key; replayed, corrupted and injected frames never yield plaintext The IP alphabet includes a read carrying a whole block plus the beginning of the next; the CoAP alphabet an authentic event whose handling raises after decryption, and its replay. Also: CoAP answers changing places (two requests on the wire); BLE: a GATT write refused / its acknowledgement lost while the link stays up. CoAP: also a request answered with a CoAP error code and a plain payload (5.03) after the accessory counted it. IP: also against a peer that has stopped reading (a closed connection reports its loss late; requests in between meet the old protocol object). IP: an authentic block of zero plaintext bytes and its replay. BLE broadcasts (nonce = state number under the broadcast key): the history search of C18 from bases next to the roll-over, replay clause.",
    note="counters are kept concrete (no abstraction); depth bound as reported; AEAD primitives trusted",
    design_ref="DESIGN.md §4 C06",
    rule="state = canonical (counters, buffers, queues, caller states); transition = one history symbol; execution = maximal path",
)


class IpH(explore.Harness):
    ALPH = ["req1", "req2", "deliver", "deliver-1.5", "replay-first", "replay-last", "future", "corrupt", "cancel", "timer", "odd-frame", "replay-odd"]

    def __init__(self, p):
        self.p = p
        self.log = aeadspy.SpyLog()
        self._spy = aeadspy.spy_reusable(self.log)
        self._spy.__enter__()
        self.rig = IpRig(seed=p.get("seed", 0), auto=True)
        self.loop, self.net = self.rig.loop, self.rig.net
        self.rig.acc.handler = self._handler
        self.rig.acc.fixed_eph = bool(p.get("fixed_acc_eph"))
        if p.get("slow_close"):
            # the peer has stopped reading: a connection the controller closes reports its loss only when the harness says so ("close-done"),
            # and until then the old protocol object is still installed
            wire0 = self.rig.wire

            def wire(conn):
                conn.slow_close = True
                return wire0(conn)

            self.rig.wire = wire
            self.ALPH = self.ALPH + ["close-done"]
        self.queue = {}  # cid -> list of genuine frames not yet delivered: (seq, bytes)
        self.delivered = {}  # cid -> list of (seq, bytes)
        self.genuine = {}  # digest(frame[2:]) -> (cid, seq)
        self.bad = set()  # digests of corrupted frames
        self.part = {}  # cid -> bytes of the head-of-queue frame already delivered (a read that ended inside it)
        self.tasks = []
        self.viol = []
        self.depth_used = 0
        self.nreq = 0
        try:
            self.rig.connect()
        except Exception as e:  # noqa: BLE001
            self.viol.append((f"ip:initial-connect-fails:{type(e).__name__}", {}))
        self.loop.run_until_idle()

    def _handler(self, sess, method, target, headers, body):
        if target == "/accessories":
            return std_handler()(sess, method, target, headers, body)
        cid = next(c for c, s in self.rig.sessions.items() if s is sess)
        if method == "GET":
            plain = ipacc.http_response(200, json.dumps({"characteristics": [{"aid": 1, "iid": 9, "value": self.nreq}]}).encode())
        else:
            plain = ipacc.http_response(204, b"", None)
        frames = sess.framer.seal_frames(plain, [max(1, len(plain) // 2 + 1)])
        q = self.queue.setdefault(cid, [])
        for f in frames:
            seq = sess.framer.a2c - len(frames) + frames.index(f)
            q.append((seq, f))
            self.genuine[aeadspy.digest(f[2:])] = (cid, seq)
        return None

    def _cur(self):
        tr = self.rig.conn.transport
        for c in self.net.conns:
            if tr is not None and c.transport is tr and not tr.is_closing():
                return c
        return None

    def menu(self):
        m = []
        cur = self._cur()
        busy = any(not t.done() for t in self.tasks)
        for a in self.ALPH:
            if a in ("req1", "req2"):
                if len([t for t in self.tasks if not t.done()]) < 2:
                    m.append(a)
            elif a == "deliver":
                if cur and self.queue.get(cur.cid):
                    m.append(a)
            elif a == "deliver-1.5":
                # one read carrying a whole frame and the beginning of the next one (a TCP segment boundary inside a frame)
                if cur and len(self.queue.get(cur.cid, [])) >= 2 and not self.part.get(cur.cid):
                    m.append(a)
            elif a in ("replay-first", "replay-last"):
                if cur and self.delivered.get(cur.cid) and (a == "replay-first" or len(self.delivered[cur.cid]) > 1):
                    m.append(a)
            elif a == "future":
                if cur and self.queue.get(cur.cid) and not self.part.get(cur.cid):
                    m.append(a)
            elif a == "corrupt":
                if cur and self.queue.get(cur.cid) and not self.part.get(cur.cid):
                    m.append(a)
            elif a == "cancel":
                if busy:
                    m.append(a)
            elif a == "timer":
                if busy and self.loop.next_timer() is not None:
                    m.append(a)
            elif a == "close-done":
                if any(getattr(c.transport, "_lost_pending", False) for c in self.net.conns):
                    m.append(a)
            elif a == "odd-frame":
                # an authentic frame whose plaintext the HTTP layer cannot take (a response nobody waits for, an unknown start line)
                if cur and not self.queue.get(cur.cid) and not self.part.get(cur.cid) and getattr(self, "n_odd", 0) < 3:
                    m.append(a)
            elif a == "replay-odd":
                if cur and getattr(self, "odd_frames", None):
                    m.append(a)
        return m

    def take(self, i):
        label = self.menu()[i]
        self.depth_used += 1
        cur = self._cur()
        if label == "close-done":
            next(c for c in self.net.conns if getattr(c.transport, "_lost_pending", False)).transport.complete_close()
        elif label == "odd-frame":
            self.n_odd = getattr(self, "n_odd", 0) + 1
            sess = cur.session
            plain = (b"", ipacc.http_response(200, b"{}"), b"BOGUS/9.9 200 OK\r\n\r\n")[(self.n_odd - 1) % 3]
            if plain:
                g = sess.framer.seal_frames(plain)[0]
            else:
                # an authentic block of zero plaintext bytes (length prefix 0 and a tag: legal framing, a keep-alive of sorts)
                fr = sess.framer
                g = b"\x00\x00" + C.seal(fr.a2c_key, C.nonce_ctr(fr.a2c), b"", b"\x00\x00")
                fr.a2c += 1
            self.genuine[aeadspy.digest(g[2:])] = (cur.cid, sess.framer.a2c - 1)
            self.odd_frames = getattr(self, "odd_frames", []) + [g]
            cur.send(g)
        elif label == "replay-odd":
            cur.send(self.odd_frames[-1])
        elif label in ("req1", "req2"):
            self.nreq += 1
            if label == "req1":
                coro = self.rig.pairing.get_characteristics([(1, 9)])
            else:
                coro = self.rig.pairing.put_characteristics([(1, 9, "x" * 1500)])
            self.tasks.append(self.loop.create_task(coro))
        elif label == "deliver":
            seq, f = self.queue[cur.cid].pop(0)
            self.delivered.setdefault(cur.cid, []).append((seq, f))
            cur.send(f[self.part.pop(cur.cid, 0):])
        elif label == "deliver-1.5":
            seq, f = self.queue[cur.cid].pop(0)
            self.delivered.setdefault(cur.cid, []).append((seq, f))
            nxt = self.queue[cur.cid][0][1]
            k = max(2, len(nxt) // 2)
            self.part[cur.cid] = k
            cur.send(f + nxt[:k])
        elif label in ("replay-first", "replay-last"):
            seq, f = self.delivered[cur.cid][0 if label == "replay-first" else -2]
            cur.send(f)
        elif label == "future":
            # the accessory's next frame was lost; the one after it (sealed under the next counter) arrives
            seq, f = self.queue[cur.cid].pop(0)
            sess = cur.session
            plain = ipacc.http_response(204, b"", None)
            g = sess.framer.seal_frames(plain)[0]
            self.genuine[aeadspy.digest(g[2:])] = (cur.cid, sess.framer.a2c - 1)
            cur.send(g)
        elif label == "corrupt":
            seq, f = self.queue[cur.cid].pop(0)
            b = bytearray(f)
            b[5 % len(b)] ^= 0x10
            self.bad.add(aeadspy.digest(bytes(b)[2:]))
            cur.send(bytes(b))
        elif label == "cancel":
            next(t for t in self.tasks if not t.done()).cancel()
        elif label == "timer":
            self.loop.fire_next_timer()
        self.loop.run_until_idle()
        self._check()

    def _check(self):
        r = self.log.nonce_reuse()
        if r:
            self.viol.append(("ip:nonce-reused-under-one-key", {"nonce": r["nonce"]}))
        acc = self.log.accepted()
        seen = set()
        last = {}
        for key, nonce, d in acc:
            if d in self.bad:
                self.viol.append(("ip:corrupted-frame-accepted", {"nonce": nonce}))
            if d in self.genuine:
                if d in seen:
                    self.viol.append(("ip:genuine-frame-accepted-twice", {"frame": self.genuine[d]}))
                seen.add(d)
                cid, seq = self.genuine[d]
                if key in last and seq <= last[key]:
                    self.viol.append(("ip:frames-accepted-out-of-order", {"frame": (cid, seq), "after": last[key]}))
                last[key] = seq

    def violations(self):
        v, self.viol = self.viol, []
        return v

    def finish(self):
        # after whatever happened, issue two more requests through the public API and answer them honestly
        for _ in range(2):
            t = self.loop.create_task(self.rig.pairing.get_characteristics([(1, 9)]))
            for _ in range(60):
                self.loop.run_until_idle()
                cur = self._cur()
                if t.done():
                    break
                if cur and self.queue.get(cur.cid):
                    seq, f = self.queue[cur.cid].pop(0)
                    self.delivered.setdefault(cur.cid, []).append((seq, f))
                    cur.send(f[self.part.pop(cur.cid, 0):])
                elif not self.loop.fire_next_timer():
                    break
            self._check()
        return self.violations()

    def canon(self):
        pr = self.rig.conn.protocol
        st = None
        if pr is not None:
            st = (getattr(pr, "c2a_counter", None), getattr(pr, "a2c_counter", None), bytes(getattr(pr, "_incoming_buffer", b"")), len(pr.result_cbs))
        cur = self._cur()
        from vt import canon as _c

        st = (st, _c.canon(pr, depth=2, skip=("connection", "loop", "transport", "encryptor", "decryptor", "c2a_key", "a2c_key")) if pr is not None else None)
        return (st, cur.cid if cur else None, tuple(sorted(self.part.items())), tuple(len(v) for v in self.queue.values()), tuple((t.done(), t.cancelled()) for t in self.tasks), len(self.net.conns), tuple(bool(getattr(c.transport, "_lost_pending", False)) for c in self.net.conns),
                tuple(sorted(round(h._when - self.loop.time(), 6) for h in self.loop._scheduled if not h._cancelled)), len(self.log.events), _c.tasks_sig(self.loop))

    def outcome(self):
        return f"conns={len(self.net.conns)},accepted={len(self.log.accepted())},tasks={len(self.tasks)}"

    def close(self):
        try:
            self.rig.close()
        finally:
            self._spy.__exit__(None, None, None)


HARNESSES = {"ip": IpH}
for _mod in ("c06_coap", "c06_ble"):
    try:
        _m = __import__(f"vt.props.{_mod}", fromlist=["HARNESSES"])
        HARNESSES.update(_m.HARNESSES)
    except ImportError:
        pass


def make(p):
    return HARNESSES[p["transport"]](p)


def _work_pairing(item, seed, tier):
    from vt.props import c06_coap

    acc = core.Acc()
    for hist in item:
        p = {"history": list(hist), "seed": seed}
        v = c06_coap.case_coap_pairing(p)
        acc.case(key=("coap_pairing", tuple(hist)), outcome=f"coap_pairing:{'ok' if not v else v[0][0]}", sample={"case": "coap_pairing", "params": p}, symbols=("coap_pairing",) + tuple(f"cp:{s_}" for s_ in hist))
        acc.traces += 1
        for sig, detail in v:
            acc.violation(sig, "coap_pairing", p, detail)
    return acc


def case_explore(p):
    h, trace = explore.run_prefix(lambda: make(p), tuple(p.get("choices", ())))
    try:
        v = h.violations()
        if not v:
            v = h.finish()
        return [(s, dict(detail=d, trace=trace)) for s, d in v]
    finally:
        h.close()


def _work_bcast(item, seed, tier):
    """BLE encrypted broadcasts are incoming encrypted messages too (nonce = state number, under the broadcast key): each is accepted at most
    once and only in order - also where the state number is about to roll over.  The history search of C18 from bases next to the roll-over,
    over genuine next / repeated / long-recorded broadcasts; only the replay clause is judged here."""
    from vt.props import c18

    acc = core.Acc()
    sub = c18._bfs(item, seed, tier)
    keep = lambda sig: "stale" in sig or "accepted-though" in sig or "scanner-callback-raises" in sig  # noqa: E731
    sub.viol = [v for v in sub.viol if keep(v["signature"])]
    for k in list(sub.viol_count):
        if not keep(k):
            del sub.viol_count[k]
    acc.merge(sub)
    return acc


def case_history(p):
    from vt.props import c18

    return [(s_, d) for s_, d in c18.case_history(p) if "stale" in s_ or "accepted-though" in s_ or "scanner-callback-raises" in s_]


CASES = {"explore": case_explore, "history": case_history}
try:
    from vt.props import c06_coap as _cc

    CASES["coap_pairing"] = _cc.case_coap_pairing
except ImportError:
    pass


def _work(item, seed, tier):
    acc = core.Acc()
    p, root, depth = item
    known = [k["signature"] for k in core.load_known() if k["property"] == "C06" and k["status"] == "known"]
    explore.explore(lambda: make(p), acc, depth=depth, case="explore", params=p, root=root, prune=True, known=known)
    # (the gated BLE harness also carries C17's attribution clause; it is C17's check that reports it)
    acc.viol = [v for v in acc.viol if not v["signature"].startswith("c17:")]
    for k in list(acc.viol_count):
        if k.startswith("c17:"):
            del acc.viol_count[k]
    return acc


def run(ctx):
    quick = ctx.tier == "quick"
    depth = 4 if quick else 5  # (the deeper bounds of earlier versions - 6 / 9 / 11 - no longer finish within an hour since the alphabets grew in waves 8-12)
    work = []
    for tr in HARNESSES:
        p = dict(transport=tr, seed=ctx.seed)
        d = depth + ((1 if quick else 2) if tr == "coap" else ((1 if quick else 1) if tr == "ble" else 0))
        if tr == "coap" and not quick:
            # the deep CoAP search runs over the alphabet without the error-code reply (each further symbol multiplies it); the full alphabet
            # is searched to the quick tier's depth
            p = dict(p, no_err_reply=True)
            pq = dict(transport=tr, seed=ctx.seed)
            work += [(pq, r, 5) for r in explore.roots(lambda: make(pq), 2)]
        rs = explore.roots(lambda: make(p), 2)
        work += [(p, r, d) for r in rs]
    # the same IP space against an accessory that re-uses its ephemeral key in every session (and so replays its side of pair-verify): the
    # controller's own fresh key has to keep (key, nonce) pairs apart across the reconnects that failures cause
    p = dict(transport="ip", seed=ctx.seed, fixed_acc_eph=True)
    work += [(p, r, depth) for r in explore.roots(lambda: make(p), 2)]
    # ... and against a peer that has stopped reading (a closed connection reports its loss late): requests made in between
    p2 = dict(transport="ip", seed=ctx.seed, slow_close=True)
    work += [(p2, r, 4) for r in explore.roots(lambda: make(p2), 2)]
    ctx.bounds.update(depth=depth, transports=list(HARNESSES))
    ctx.pmap(_work, work)
    import itertools

    from vt.props import c06_coap

    hists = [h for n_ in range(1, (4 if quick else 5) + 1) for h in itertools.product(c06_coap.PAIRING_SYMS, repeat=n_) if any(x in ("endpoint-change", "port-change", "same-endpoint") for x in h)]
    ctx.pmap(_work_pairing, [hists[i : i + 30] for i in range(0, len(hists), 30)])
    BC = ["+1", "+2", "+50", "same", "-1", "old:1", "old:2", "old:40", "old:98", "regular-adv"]
    ctx.pmap(_work_bcast, [(b, 2, BC, f) for b in ([65437, 65500, 65534, 65535, 300] if quick else [1, 300, 65436, 65437, 65438, 65500, 65533, 65534, 65535]) for f in BC])
    ctx.bounds.update(ble_broadcast_histories=dict(alphabet=BC, depth=2 if quick else 3))
    ctx.bounds.update(coap_pairing_histories=len(hists), coap_pairing_alphabet=c06_coap.PAIRING_SYMS)
    ctx.exhaustive = not ctx.acc.capped
    for s in ("req1", "req2", "req", "deliver", "replay-first", "replay", "step", "drop", "future", "corrupt", "cancel", "timer", "ev", "ev-replay", "ev-corrupt", "ev-odd", "ev-replay-last", "deliver-1.5"):
        ctx.require(ctx.acc.symbols[s] > 0, f"symbol {s} never taken")

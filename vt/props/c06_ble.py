"""C06, BLE leg: a real BlePairing against the reference GATT accessory; every GATT read/write on a data characteristic
is suspended at a gate, and the harness decides what each read returns (genuine / replayed / future-counter / corrupted
fragment), whether the caller is cancelled, a timer fires or the link drops."""
from __future__ import annotations

from vt import explore
from vt.env import aeadspy
from vt.env.blerig import BleRig


class BleH(explore.Harness):
    ALPH = ["req1", "req2", "step", "write-fails", "write-ack-lost", "arm-pv-fail", "replay", "future", "corrupt", "cancel", "timer", "drop"]
    # (req3: a read of ANOTHER characteristic - whose answer cannot be mistaken for req1's - for the attribution oracle, see _check_results)

    def __init__(self, p):
        self.p = p
        self.log = aeadspy.SpyLog()
        self._spy = aeadspy.spy_reusable(self.log)
        self._spy.__enter__()
        self.rig = BleRig(seed=p.get("seed", 0), gated=False)
        self.loop = self.rig.loop
        self.rig.acc.resp_fragment = 6
        self.tasks = []
        self.viol = []
        self.depth_used = 0
        self.bad = set()
        self.genuine = {}
        self.delivered = []
        # establish the first session un-gated, then gate data characteristics only
        try:
            self.rig.run(self.rig.pairing.get_characteristics([(1, 10)]))
        except Exception as e:  # noqa: BLE001
            self.viol.append((f"ble:initial-exchange-fails:{type(e).__name__}", {"err": str(e)[:200]}))
        self._index()
        orig_gate = self.rig.gate

        async def gate(kind, iid, data):
            if iid == 22:
                import asyncio

                await asyncio.sleep(0)
                if kind == "write" and getattr(self, "pv_fail_armed", False):
                    # one write of the pair-verify exchange is refused by the stack while the link stays up
                    from bleak.exc import BleakError

                    self.pv_fail_armed = False
                    raise BleakError("Write rejected (adapter busy)")
                return None
            self.rig.gated = True
            try:
                return await orig_gate(kind, iid, data)
            finally:
                self.rig.gated = False

        self.rig.gate = gate

    def _index(self):
        for seq, f in self.rig.acc.frames_out:
            self.genuine.setdefault(aeadspy.digest(f), (id(self.rig.client), seq))

    def _oldest(self):
        for w in self.rig.waiting:
            if not w[0].done():
                return w
        return None

    def menu(self):
        m = []
        w = self._oldest()
        busy = any(not t.done() for t in self.tasks)
        acc = self.rig.acc
        for a in self.p.get("alphabet", self.ALPH):
            if a in ("req1", "req2", "req3"):
                if len([t for t in self.tasks if not t.done()]) < 2:
                    m.append(a)
            elif a == "acc-change":
                if getattr(self, "n_changes", 0) < 2:
                    m.append(a)
            elif a == "step":
                if w:
                    m.append(a)
            elif a == "arm-pv-fail":
                if not getattr(self, "pv_fail_armed", False) and getattr(self, "n_pvfail", 0) < 1:
                    m.append(a)
            elif a in ("write-fails", "write-ack-lost"):
                # one GATT write is refused by the stack / delivered but its acknowledgement lost, while the link stays up
                if w and w[1] == "write" and getattr(self, "n_wfail", 0) < 2:
                    m.append(a)
            elif a == "replay":
                if w and w[1] == "read" and self.delivered:
                    m.append(a)
            elif a == "corrupt":
                if w and w[1] == "read" and acc.out.get(w[2]):
                    m.append(a)
            elif a == "future":
                if w and w[1] == "read" and len(acc.out.get(w[2], [])) >= 2:
                    m.append(a)
            elif a == "cancel":
                if busy:
                    m.append(a)
            elif a == "timer":
                if busy and self.loop.next_timer() is not None:
                    m.append(a)
            elif a == "drop":
                if self.rig.client and self.rig.client.is_connected:
                    m.append(a)
        return m

    def _pop_waiting(self):
        while self.rig.waiting and self.rig.waiting[0][0].done():
            self.rig.waiting.pop(0)

    def take(self, i):
        label = self.menu()[i]
        self.depth_used += 1
        acc = self.rig.acc
        self._pop_waiting()
        self.labels = getattr(self, "labels", [])
        self.vals = getattr(self, "vals", {9: [acc.chars[9].value], 10: [acc.chars[10].value]})  # every value each characteristic has held, in order
        if label in ("req1", "req2", "req3"):
            self.labels.append(label)
            self.started = getattr(self, "started", []) + [{k: len(v) - 1 for k, v in self.vals.items()}]
        if label == "acc-change":
            # the accessory's own state changes (someone pressed the button): a read that STARTS after this can only see the new value
            self.n_changes = getattr(self, "n_changes", 0) + 1
            acc.chars[9].value = not acc.chars[9].value
            acc.chars[10].value = acc.chars[10].value + 1
            self.vals[9].append(acc.chars[9].value)
            self.vals[10].append(acc.chars[10].value)
        if label == "req3":
            self.tasks.append(self.loop.create_task(self.rig.pairing.get_characteristics([(1, 10)])))
        elif label == "req1":
            self.tasks.append(self.loop.create_task(self.rig.pairing.get_characteristics([(1, 9)])))
        elif label == "req2":
            self.tasks.append(self.loop.create_task(self.rig.pairing.put_characteristics([(1, 9, True), (1, 10, 5)])))
        elif label == "step":
            w = self.rig.waiting[0]
            if w[1] == "read" and acc.out.get(w[2]):
                self.delivered.append(acc.out[w[2]][0])
            self.rig.release()
        elif label == "arm-pv-fail":
            self.n_pvfail = getattr(self, "n_pvfail", 0) + 1
            self.pv_fail_armed = True
        elif label in ("write-fails", "write-ack-lost"):
            from bleak.exc import BleakError

            self.n_wfail = getattr(self, "n_wfail", 0) + 1
            if label == "write-fails":
                self.rig.release(exc=BleakError("Write rejected (adapter busy)"))
            else:
                self.rig.release(override="ack-lost")
        elif label == "replay":
            self.rig.release(override=self.delivered[0])
        elif label == "corrupt":
            w = self.rig.waiting[0]
            f = bytearray(acc.out[w[2]].pop(0))
            f[1] ^= 0x04
            self.bad.add(aeadspy.digest(bytes(f)))
            self.rig.release(override=bytes(f))
        elif label == "future":
            w = self.rig.waiting[0]
            acc.out[w[2]].pop(0)  # lost on the air
            f = acc.out[w[2]].pop(0)
            self.delivered.append(f)
            self.rig.release(override=f)
        elif label == "cancel":
            next(t for t in self.tasks if not t.done()).cancel()
        elif label == "timer":
            self.loop.fire_next_timer()
        elif label == "drop":
            self.rig.client.peer_disconnect()
        self.loop.run_until_idle()
        self._index()
        self._check()

    def _check_results(self):
        """C17's clause on this harness: whatever was cancelled, timed out or dropped before, a read that completes carries the value of the
        characteristic it asked for (iid 9: a bool, False until a write of True was accepted; iid 10: 50 until a write of 5) - never the answer
        to another request."""
        wrote = any(lb == "req2" for lb in getattr(self, "labels", []))
        for k, (lb, t) in enumerate(zip(getattr(self, "labels", []), self.tasks)):
            if lb == "req2" or not t.done() or t.cancelled() or t.exception() is not None or k in getattr(self, "judged", set()):
                continue
            self.judged = getattr(self, "judged", set()) | {k}
            res = t.result()
            want_key = (1, 9) if lb == "req1" else (1, 10)
            vals = getattr(self, "vals", {9: [False], 10: [50]})[want_key[1]]
            ok_vals = list(vals[self.started[k][want_key[1]]:]) + (([True] if lb == "req1" else [5]) if wrote else [])  # what the characteristic held from the start of this read on
            got = res.get(want_key, {}).get("value", "absent") if isinstance(res, dict) else "not-a-dict"
            if set(res) - {want_key} or (got != "absent" and not any(got == v and type(got) is type(v) for v in ok_vals)):
                self.viol.append(("c17:ble:read-completed-with-the-answer-to-another-request", {"request": lb, "result": {str(a): b for a, b in res.items()}, "admissible": ok_vals}))

    def _check(self):
        self._check_results()
        r = self.log.nonce_reuse()
        if r:
            self.viol.append(("ble:nonce-reused-under-one-key", {"nonce": r["nonce"]}))
        seen = set()
        last = {}
        for key, nonce, d in self.log.accepted():
            if d in self.bad:
                self.viol.append(("ble:corrupted-fragment-accepted", {"nonce": nonce}))
            if d in self.genuine:
                if d in seen:
                    self.viol.append(("ble:genuine-fragment-accepted-twice", {"frame": self.genuine[d][1]}))
                seen.add(d)
                seq = self.genuine[d][1]
                if key in last and seq <= last[key]:
                    self.viol.append(("ble:fragments-accepted-out-of-order", {"seq": seq, "after": last[key]}))
                last[key] = seq

    def violations(self):
        out, sigs = [], set()
        for s, d in self.viol:
            if s not in sigs:
                sigs.add(s)
                out.append((s, d))
        self.viol = []
        return out

    def finish(self):
        # keep using the public API honestly: reconnect / new pair-verify / session resume are inside the explored space
        for _ in range(2):
            t = self.loop.create_task(self.rig.pairing.get_characteristics([(1, 9)]))
            for _ in range(80):
                self.loop.run_until_idle()
                if t.done():
                    break
                self._pop_waiting()
                if self.rig.waiting:
                    w = self.rig.waiting[0]
                    if w[1] == "read" and self.rig.acc.out.get(w[2]):
                        self.delivered.append(self.rig.acc.out[w[2]][0])
                    self.rig.release()
                elif not self.loop.fire_next_timer():
                    break
            self._index()
            self._check()
        return self.violations()

    def canon(self):
        p = self.rig.pairing
        ek, dk = p._encryption_key, p._decryption_key
        acc = self.rig.acc
        from vt import canon as _c

        generic = _c.canon(p, depth=2, skip=("controller", "_accessories_state", "pairing_data", "_pairing_data", "listeners", "availability_listeners", "config_changed_listeners", "device", "client",
                                            "ble_advertisement", "description", "key", "_derive", "_session_id", "_last_seen", "_broadcast_decryption_key"))
        return (generic, ek.counter if ek else None, dk.counter if dk else None, (acc.secure or {}).get("c2a_ctr"), (acc.secure or {}).get("a2c_ctr"), len(self.rig.clients),
                bool(self.rig.client and self.rig.client.is_connected), tuple((t.done(), t.cancelled()) for t in self.tasks), tuple((w[1], w[2]) for w in self.rig.waiting if not w[0].done()), getattr(self, "pv_fail_armed", False), getattr(self, "n_pvfail", 0), getattr(self, "n_wfail", 0),
                tuple(sorted((k, len(v)) for k, v in acc.out.items() if v)), tuple(sorted(round(h._when - self.loop.time(), 6) for h in self.loop._scheduled if not h._cancelled)), len(self.delivered) > 0, _c.tasks_sig(self.loop))

    def outcome(self):
        return f"links={len(self.rig.clients)},accepted={len(self.log.accepted())},tasks={len(self.tasks)}"

    def close(self):
        try:
            self.rig.close()
        finally:
            self._spy.__exit__(None, None, None)


HARNESSES = {"ble": BleH}

"""C19 device waiters are woken by advertisements; advertisement parsing is robust.
(A) E1 depth-bounded exploration of {waiter starts, advertisement processed (valid/malformed), waiter cancelled, timer fires}
    schedules (with preemptive injection between loop iterations) on the mDNS controllers, the BLE controller and the aggregate.
(B) E3 enumeration of TXT-record / address-list / manufacturer-data contents against an independent reference parser."""
from __future__ import annotations

import ipaddress
import itertools
import struct

from vt import core, explore, vloop

META = dict(
    level="model_checking",
    engine="E1+E3",
    technique="stateless exhaustive depth- and preemption-bounded exploration of waiter/advertisement/cancel/timer schedules against the real async_find and detection callbacks on a virtual-time loop, plus bounded-exhaustive enumeration of advertisement contents against an independent reference parser",
    text="all schedules up to depth D over {waiter k starts with timeout t_k for id x, valid/malformed advertisement for id x processed, waiter cancelled, timer fires} with 1-3 waiters and 1-2 ids on "
    "IpController, CoAPController (real AsyncServiceInfo objects), BleController (_device_detected with real BLEDevice/AdvertisementData; no pairing / pairing with cached state / pairing without cached "
    "state) and the aggregate Controller; oracle: a waiter completes with the discovery iff a valid advertisement for its id was processed while it waited or before it started, at that instant, else "
    "AccessoryNotFoundError exactly at start+timeout; callbacks never raise.  Parsing: every truncation of valid TXT blobs and manufacturer data, key/id casings, address lists mixing link-local, "
    "unspecified, IPv4, IPv6 in every order, out-of-range numeric fields -> lower-cased id, IPv4 first, skipped addresses, reported c#/s#/sf/ci, malformed ignored Re-advertisements differing only in flags / category must show in the controller's discoveries; mDNS state changes also arrive through the zeroconf browser callback (0.5 s debounce, goodbye inside the window, re-announcement) against a model of the debounce. Also: two independent zeroconf controllers in one process, behind separate browsers and behind one shared browser; the aggregate controller with a pairing loaded on one of its transports; two advertisements within one loop iteration while the connector sleeps. Also: a service name whose record is unusable for a while and changes by Updated (not Removed + Added); waiters with timeout 0. Scanner frames also meet pairings loaded over caches with / without broadcast key and state number.",
    note="environment starts at AsyncServiceInfo / BLEDevice+AdvertisementData objects; zeroconf's own wire parsing and bleak are outside",
    design_ref="DESIGN.md §4 C19",
    rule="state = canonical (waiter states, discoveries, registered futures, timers); transition = one schedule event or loop iteration; evaluation = one execution or one parsed advertisement",
)

IDS = ["aa:bb:cc:dd:ee:01", "aa:bb:cc:dd:ee:02"]
DEBOUNCE_MAX = 2.0
START_MAX = 5.0  # start-up may resolve records over the network first (3 s per record in the code)


# ------------------------------------------------------------------ advertisement builders
def svc_info(hap_type, dev_id, addresses=("10.0.0.5",), props=None, raw_txt=None, name="Acc", port=51826):
    from zeroconf.asyncio import AsyncServiceInfo

    p = {"id": dev_id.upper(), "c#": "3", "s#": "7", "sf": "0", "ci": "5", "md": "Model", "pv": "1.1", "ff": "1"} if props is None else props
    packed = []
    for a in addresses:
        ip = ipaddress.ip_address(a)
        packed.append(ip.packed)
    return AsyncServiceInfo(hap_type, f"{name}.{hap_type}", port=port, addresses=packed, properties=raw_txt if raw_txt is not None else p, server="acc.local.")


def ble_adv(dev_id, data=None, gsn=7, cn=3, cat=5, sf=0, name="Acc", address="00:11:22:33:44:55"):
    from bleak.backends.device import BLEDevice
    from bleak.backends.scanner import AdvertisementData

    if data is None:
        data = mfr_data(dev_id, gsn, cn, cat, sf)
    dev = BLEDevice(address, name, {})
    adv = AdvertisementData(local_name=name, manufacturer_data={76: data}, service_data={}, service_uuids=[], tx_power=None, rssi=-60, platform_data=())
    return dev, adv


def mfr_data(dev_id, gsn=7, cn=3, cat=5, sf=0, cv=2, sh=b"\x01\x02\x03\x04"):
    return bytes([0x06, 0x31, sf]) + bytes.fromhex(dev_id.replace(":", "")) + struct.pack("<HHBB", cat, gsn, cn, cv) + sh


def accessories():
    return [{"aid": 1, "services": [{"iid": 1, "type": "3E", "characteristics": [{"iid": 2, "type": "23", "perms": ["pr"], "format": "string", "value": "Acc"}]}]}]


def pairing_data(dev_id, conn):
    d = {"Connection": conn, "AccessoryPairingID": dev_id.upper(), "AccessoryLTPK": "00" * 32, "iOSPairingId": "x", "iOSDeviceLTSK": "00" * 32, "iOSDeviceLTPK": "00" * 32}
    if conn == "BLE":
        d["AccessoryAddress"] = "00:11:22:33:44:55"
    else:
        d.update(AccessoryIP="10.0.0.5", AccessoryIPs=["10.0.0.5"], AccessoryPort=51826)
    return d


class H(explore.Harness):
    def __init__(self, p):
        from aiohomekit.characteristic_cache import CharacteristicCacheMemory

        self.p = p
        self.kind = p["kind"]
        self.mode = p.get("pairing", "none")
        self.P = p.get("P", 1)
        self.loop = vloop.VirtualLoop().install()
        self.net = vloop.SimNet(self.loop)
        self.net.auto = lambda att: ("refuse",)
        self._patch = vloop.patched_network(self.net)
        self._patch.__enter__()
        self.viol = []
        self.waiters = []
        self.discovered = {}
        self.preempt = 0
        self.depth_used = 0
        cache = CharacteristicCacheMemory()
        if self.mode == "cached":
            cache.async_create_or_update_map(IDS[0].upper(), 3, accessories(), None, 5)
        self.nadv, self.last_adv, self.zc_cache, self.model_resolve, self.may_find = {}, {}, {}, {}, set()
        self.ambig = set()
        self.ctrls = {}
        if p.get("browser"):
            import aiohomekit.zeroconf as zmod

            h = self

            class _CachedInfo:
                """Stands in for AsyncServiceInfo(type, name): filled from the harness's zeroconf cache, then behaves like the real record."""

                def __init__(self, type_, name):
                    if name in getattr(h, "bad_names", ()):
                        # (what the real class does for a record whose instance name is unusable: over-long, wrong type suffix)
                        from zeroconf import BadTypeInNameException

                        raise BadTypeInNameException(f"Bad type in service name: {name}")
                    self.type, self.name, self._src = type_, name, None

                def load_from_cache(self, zc, now=None):
                    self._src = h.zc_cache.get(self.name)
                    return self._src is not None

                async def async_request(self, zc, timeout, *a, **k):
                    import asyncio as _a

                    await _a.sleep(getattr(h, "zc_incomplete", {}).get(self.name, 0.0))  # the network round trip for a record known by name only
                    return self.load_from_cache(zc)

                def __getattr__(self, item):
                    if item.startswith("_") or self.__dict__.get("_src") is None:
                        raise AttributeError(item)
                    return getattr(self._src, item)

            self._zmod, self._orig_info = zmod, zmod.AsyncServiceInfo
            zmod.AsyncServiceInfo = _CachedInfo
        if self.kind in ("ip", "agg", "ipcoap", "coapip"):
            from aiohomekit.controller.ip.controller import IpController

            self.ctrls["ip"] = IpController(char_cache=cache, zeroconf_instance=None)
        if self.kind in ("coap", "ipcoap", "coapip"):
            from aiohomekit.controller.coap.controller import CoAPController

            self.ctrls["coap"] = CoAPController(char_cache=cache, zeroconf_instance=None)
        if self.kind in ("ble", "agg"):
            from aiohomekit.controller.ble.controller import BleController

            self.ctrls["ble"] = BleController(cache)
        if self.kind == "agg":
            from aiohomekit.controller.abstract import TransportType
            from aiohomekit.controller.controller import Controller

            self.agg = Controller(char_cache=cache)
            self.agg.transports = {TransportType.IP: self.ctrls["ip"], TransportType.BLE: self.ctrls["ble"]}
            self.target = self.agg
        elif self.kind in ("ipcoap", "coapip"):
            # two independent controllers in one process (each with its own zeroconf type): callers wait on the FIRST one, advertisements arrive
            # at both.  What the neighbour hears is none of this controller's business.
            self.target = self.ctrls[{"ipcoap": "ip", "coapip": "coap"}[self.kind]]
        else:
            self.target = self.ctrls[self.kind]
        self.target_vias = {"agg": {"ip", "ble"}, "ipcoap": {"ip"}, "coapip": {"coap"}}.get(self.kind, {self.kind})
        if p.get("browser"):
            h = self

            class _Signal:
                def __init__(self):
                    self.handlers = []

                def register_handler(self, fn):
                    self.handlers.append(fn)

                def unregister_handler(self, fn):
                    self.handlers.remove(fn)

            class _Browser:
                def __init__(self, hap):
                    self.types = [hap]
                    self.service_state_changed = _Signal()

            class _Rec:
                def __init__(self, alias):
                    self.alias = alias

            class _Cache:
                def async_all_by_details(self_, name, type_, class_):
                    # PTR records of that type known at this instant (complete or not)
                    return [_Rec(n) for n in sorted(set(h.zc_cache) | set(h.zc_incomplete) | set(getattr(h, "bad_names", ()))) if n.endswith(name)]

            class _ZC:
                cache = _Cache()
                listeners = []

            class _AZC:
                zeroconf = _ZC()

            self.browsers = {}
            self.zc_incomplete = {}
            self.started = {}
            shared = None
            for via, c in self.ctrls.items():
                if hasattr(c, "_resolve_later"):
                    c._async_zeroconf_instance = _AZC()
                    if p.get("shared_browser"):
                        # ONE browser for both HAP types (what applications set up): every handler hears about every service type
                        if shared is None:
                            shared = _Browser(c.hap_type)
                        else:
                            shared.types.append(c.hap_type)
                        self.browsers[via] = shared
                    else:
                        self.browsers[via] = _Browser(c.hap_type)
            self._orig_find = self._zmod.find_brower_for_hap_type
            self._zmod.find_brower_for_hap_type = lambda azc, hap: next(b for b in self.browsers.values() if hap in b.types)
            self._orig_isb = None
            if p.get("bad_ptr"):
                # the zeroconf cache also holds a PTR record whose name is unusable; it sorts in front of every accessory's record
                self.bad_names = {f"AAA-unusable.{c.hap_type}" for via, c in self.ctrls.items() if via in self.browsers}
            if p.get("start_event"):
                # another accessory is known to zeroconf by name only: resolving it at start-up takes a network round trip
                for via, c in self.ctrls.items():
                    if via in self.browsers:
                        self.zc_incomplete[f"Slow.{c.hap_type}"] = 0.3
            else:
                for via in self.browsers:
                    self.browsers[via].service_state_changed.register_handler(self.ctrls[via]._handle_service)
                    self.started[via] = "done"
        if self.mode != "none":
            conn = {"ip": "IP", "coap": "CoAP", "ble": "BLE"}[p.get("pairing_via", self.kind)]
            self.target.load_pairing("alias", pairing_data(IDS[0], conn))
        self.loop.run_until_idle()

    # ---- events
    VARIANTS = [dict(sf=1, ci=5, ff=1), dict(sf=0, ci=5, ff=0), dict(sf=0, ci=8, ff=1)]  # same endpoint, c#, s#: only flags / category differ

    def _props(self, dev_id, k):
        v = self.VARIANTS[k % len(self.VARIANTS)] if self.p.get("variants") else dict(sf=0, ci=5, ff=1)
        return {"id": dev_id.upper(), "c#": "3", "s#": "7", "sf": str(v["sf"]), "ci": str(v["ci"]), "md": "Model", "pv": "1.1", "ff": str(v["ff"])}, v

    def _adv(self, dev_id, valid, via):
        if via == "ble":
            if valid and self.p.get("variants"):
                k = self.nadv.get((dev_id, via), 0)
                self.nadv[(dev_id, via)] = k + 1
                v = self.VARIANTS[k % len(self.VARIANTS)]
                dev, adv = ble_adv(dev_id, sf=v["sf"], cat=v["ci"])
                self.last_adv[(dev_id, via)] = dict(sf=v["sf"], ci=v["ci"])
            else:
                dev, adv = ble_adv(dev_id, data=None if valid else mfr_data(dev_id)[:11])
            self.ctrls["ble"]._device_detected(dev, adv)
        else:
            hap = "_hap._tcp.local." if via == "ip" else "_hap._udp.local."
            if valid:
                k = self.nadv.get((dev_id, via), 0)
                self.nadv[(dev_id, via)] = k + 1
                props, v = self._props(dev_id, k)
                info = svc_info(hap, dev_id, props=props)
                if any(d[1] == dev_id and d[2] == via for d in self.model_resolve.values()):
                    # a record announced through the browser is still within its resolution window: which of the two the controller hears
                    # of LAST is the debounce's business (not fixed by the property) - nothing is demanded about the description until the
                    # next advertisement that stands alone
                    self.ambig.add((dev_id, via))
                    self.last_adv.pop((dev_id, via), None)
                else:
                    self.last_adv[(dev_id, via)] = v
            else:
                info = svc_info(hap, dev_id, addresses=("169.254.1.1",))
            self.ctrls[via]._async_handle_loaded_service_info(info)

    def _check_descriptions(self):
        """what the controller reports for an id is what was advertised LAST (flags and category included)"""
        for (dev_id, via), v in self.last_adv.items():
            d = self.ctrls[via].discoveries.get(dev_id)
            if d is None:
                self.viol.append((f"advertised-device-not-among-discoveries:{via}", {"id": dev_id}))
                continue
            desc = d.description
            got = dict(sf=int(desc.status_flags), ci=int(desc.category))
            if hasattr(desc, "feature_flags") and "ff" in v:
                got["ff"] = int(desc.feature_flags)
            if got != {k: v[k] for k in got}:
                self.viol.append((f"discovery-does-not-report-the-last-advertisement:{via}", {"id": dev_id, "advertised": v, "reported": got}))

    # browser path (mDNS): state changes arrive through the zeroconf browser callback, the record sits in the zeroconf cache
    def _zc(self, kind, dev_id, via, address=None):
        from zeroconf import ServiceStateChange

        hap = "_hap._tcp.local." if via == "ip" else "_hap._udp.local."
        name = f"Acc{IDS.index(dev_id)}.{hap}"
        c = self.ctrls[via]
        now = self.loop.time()
        if kind == "zc-bad":
            # what the cache holds under this name is now an unusable record; zeroconf reports a changed record of a known name as Updated.
            # Nothing can be demanded for it - and nothing of it may stay behind: a later usable record under the name counts as any other
            known = name in self.zc_cache
            self.zc_cache[name] = svc_info(hap, dev_id, addresses=("169.254.1.1",), name=f"Acc{IDS.index(dev_id)}")
            self.model_resolve.pop(name, None)
            for fn in list(self.browsers[via].service_state_changed.handlers):
                fn(None, hap, name, ServiceStateChange.Updated if known else ServiceStateChange.Added)
        elif kind == "zc-add":
            props, v = self._props(dev_id, 0)
            known = name in self.zc_cache and self.p.get("zc_bad")
            self.zc_cache[name] = svc_info(hap, dev_id, props=props, name=f"Acc{IDS.index(dev_id)}", **({"addresses": (address,)} if address else {}))
            if via in self.target_vias:
                self.may_find.add(dev_id)  # from now on a waiter may legitimately complete (the record is in the cache)
            if via in self.started:
                self.last_adv.pop((dev_id, via), None)  # (from now until the end of the resolution window the description may show either)
            if name not in self.model_resolve and via in self.started:
                # the browser path may debounce: the record MUST have been processed DEBOUNCE_MAX after the state change (the code uses 0.5 s;
                # the property does not fix the delay, so only an upper bound is demanded and earlier completion is fine).  Only once the
                # controller was started: before that the record just sits in the zeroconf cache and start-up has to pick it up.
                self.model_resolve[name] = (now + DEBOUNCE_MAX, dev_id, via, v)
            for fn in list(self.browsers[via].service_state_changed.handlers):
                fn(None, hap, name, ServiceStateChange.Updated if known else ServiceStateChange.Added)
        else:
            # goodbye: the pending resolution (if any) is dropped; a later Added starts afresh
            self.model_resolve.pop(name, None)
            self.zc_cache.pop(name, None) if via not in self.started else None
            for fn in list(self.browsers[via].service_state_changed.handlers):
                fn(None, hap, name, ServiceStateChange.Removed)

    def _model_resolutions_due(self):
        now = self.loop.time()
        for name, (due, dev_id, via, v) in list(self.model_resolve.items()):
            if due <= now + 1e-9:
                del self.model_resolve[name]
                if name in self.zc_cache and via in self.target_vias:
                    self.discovered.setdefault(dev_id, now)
                    if (dev_id, via) in self.ambig:
                        self.ambig.discard((dev_id, via))
                    else:
                        self.last_adv[(dev_id, via)] = v
                    for w in self.waiters:
                        if w["id"] == dev_id and not w["task"].done() and not w.get("cancel_requested") and "adv_at" not in w:
                            if now >= w["t0"] + w["timeout"] - 1e-9:
                                w["tie"] = True
                            else:
                                w["adv_at"] = now

    def _events(self):
        ev = []
        n = len(self.waiters)
        if n < self.p.get("waiters", 2):
            for i in range(self.p.get("ids", 1)):
                for to in self.p.get("timeouts", (5.0,)):
                    ev.append(f"wait:{i}:{to}")
        vias = [k for k in self.ctrls]
        for i in range(self.p.get("ids", 1)):
            for via in vias:
                ev.append(f"adv:{i}:{via}")
                ev.append(f"bad:{i}:{via}")
        if self.p.get("browser"):
            for via in vias:
                if via != "ble" and via not in self.started:
                    ev.append(f"start:{via}")
            for i in range(self.p.get("ids", 1)):
                for via in vias:
                    if via != "ble":
                        ev.append(f"zc-add:{i}:{via}")
                        ev.append(f"zc-rm:{i}:{via}")
                        if self.p.get("zc_bad"):
                            ev.append(f"zc-bad:{i}:{via}")  # the record of the name becomes an unusable one (no lease yet: link-local address only)
        if self.p.get("disc_connect") and "ble" in self.ctrls and not getattr(self, "disc_connected", False) and IDS[0] in self.ctrls["ble"].discoveries:
            ev.append("disc-connect")  # a connection is opened through the discovery (identify, pair-setup) and stays up: advertisements keep arriving
        if self.p.get("pairing_shutdown") and self.mode != "none" and not getattr(self, "pairing_shut", False):
            ev.append("shutdown-pairing")  # the pairing is shut down (it stays registered with the controller): advertisements keep arriving
        for k, w in enumerate(self.waiters):
            if not w["task"].done() and not w.get("cancel_requested"):
                ev.append(f"cancel:{k}")
        return ev

    def menu(self):
        ready = self.loop.has_ready()
        m = []
        if ready:
            m.append("run1")
            if self.preempt < self.P:
                m += self._events()
        else:
            m += self._events()
            if self.loop.next_timer() is not None and (any(not w["task"].done() for w in self.waiters) or self.model_resolve):
                m.append("timer")
        return m

    def take(self, i):
        label = self.menu()[i]
        if label == "run1":
            self.loop.run_batch()
            self._check()
            return
        if self.loop.has_ready():
            self.preempt += 1
        self.depth_used += 1
        parts = label.split(":")
        k = parts[0]
        now = self.loop.time()
        if k == "wait":
            dev_id = IDS[int(parts[1])]
            to = float(parts[2])
            t = self.loop.create_task(self.target.async_find(dev_id.upper() if len(self.waiters) % 2 else dev_id, to))
            self.waiters.append(dict(task=t, id=dev_id, t0=now, timeout=to, known_at_start=dev_id in self.discovered))
        elif k in ("adv", "bad"):
            dev_id, via = IDS[int(parts[1])], parts[2]
            try:
                self._adv(dev_id, k == "adv", via)
            except Exception as e:  # noqa: BLE001
                self.viol.append((f"detection-callback-raises:{type(e).__name__}:{via}:{'valid' if k == 'adv' else 'malformed'}:pairing={self.mode}", {"err": str(e)[:200], "t": now}))
            if k == "adv" and via in self.target_vias:
                self.discovered.setdefault(dev_id, now)
                for w in self.waiters:
                    if w["id"] == dev_id and not w["task"].done() and not w.get("cancel_requested") and "adv_at" not in w:
                        if now >= w["t0"] + w["timeout"] - 1e-9:
                            w["tie"] = True  # advertisement at the very instant of the timeout: either outcome is legitimate
                        else:
                            w["adv_at"] = now
        elif k == "disc-connect":
            self.disc_connected = True
            self.ctrls["ble"].discoveries[IDS[0]].client = type("Client", (), {"is_connected": True, "address": "00:11:22:33:44:55"})()
        elif k == "shutdown-pairing":
            self.pairing_shut = True
            t = self.loop.create_task(self.target.pairings[IDS[0]].shutdown())
            self.loop.run_until_idle()
            if t.done() and not t.cancelled() and t.exception() is not None:
                self.viol.append((f"pairing-shutdown-raises:{type(t.exception()).__name__}", {"err": str(t.exception())[:160]}))
        elif k == "start":
            via = parts[1]
            self.started[via] = "running"
            # whatever is in the zeroconf cache when start-up begins has to be picked up by it: START_MAX after it at the latest
            for name, info in list(self.zc_cache.items()):
                if name.endswith(self.ctrls[via].hap_type) and name not in self.model_resolve:
                    dev_id = next(i for i in IDS if f"Acc{IDS.index(i)}." in name)
                    self.model_resolve[name] = (now + START_MAX, dev_id, via, self._props(dev_id, 0)[1])
            self.start_tasks = getattr(self, "start_tasks", []) + [self.loop.create_task(self.ctrls[via].async_start())]
        elif k in ("zc-add", "zc-rm", "zc-bad"):
            try:
                self._zc(k, IDS[int(parts[1])], parts[2], address=parts[3] if len(parts) > 3 else None)
            except Exception as e:  # noqa: BLE001
                self.viol.append((f"browser-callback-raises:{type(e).__name__}:{k}", {"err": str(e)[:200], "t": now}))
        elif k == "cancel":
            w = self.waiters[int(parts[1])]
            w["cancel_requested"] = True
            w["task"].cancel()
        elif k == "timer":
            self.loop.fire_next_timer()
            self._model_resolutions_due()  # the model's pending resolutions that fall due at this instant are processed in this timer round
        self._check()
        if not self.loop.has_ready():
            self._check_descriptions()

    # ---- oracle
    def _check(self):
        from aiohomekit.exceptions import AccessoryNotFoundError

        now = self.loop.time()
        idle = not self.loop.has_ready()
        for k, w in enumerate(self.waiters):
            t = w["task"]
            if w.get("judged"):
                continue
            expect_found = (w["known_at_start"] or "adv_at" in w) and not w.get("cancel_requested")
            if t.done() and w.get("tie"):
                w["judged"] = True
                continue
            if t.done():
                w["judged"] = True
                det = {"waiter": k, "id": w["id"], "t0": w["t0"], "timeout": w["timeout"], "now": now, "kind": self.kind, "pairing": self.mode}
                if t.cancelled():
                    if not w.get("cancel_requested"):
                        self.viol.append(("waiter-cancelled-by-library", det))
                    continue
                exc = t.exception()
                if exc is None:
                    d = t.result()
                    if not (w["known_at_start"] or "adv_at" in w or w["id"] in self.may_find):
                        self.viol.append(("waiter-completed-without-advertisement", det))
                    elif getattr(getattr(d, "description", None), "id", None) != w["id"]:
                        self.viol.append(("waiter-completed-with-wrong-discovery", dict(det, got=repr(d)[:100])))
                    elif w["id"] not in self.may_find and now > (w.get("adv_at", w["t0"]) if not w["known_at_start"] else w["t0"]) + 1e-9:
                        self.viol.append(("waiter-completed-late", det))
                elif isinstance(exc, AccessoryNotFoundError):
                    if expect_found:
                        self.viol.append((f"waiter-not-woken-by-advertisement:{self.kind}", det))
                    elif abs(now - (w["t0"] + w["timeout"])) > 1e-6:
                        self.viol.append(("not-found-error-not-at-timeout", det))
                else:
                    self.viol.append((f"waiter-fails-with-{type(exc).__name__}", dict(det, err=str(exc)[:200])))
            elif idle and not w.get("tie"):
                det = {"waiter": k, "id": w["id"], "t0": w["t0"], "timeout": w["timeout"], "now": now, "kind": self.kind, "pairing": self.mode}
                if expect_found:
                    w["judged"] = True
                    self.viol.append((f"waiter-not-woken-by-advertisement:{self.kind}", det))
                elif now > w["t0"] + w["timeout"] + 1e-6:
                    w["judged"] = True
                    self.viol.append(("waiter-still-pending-after-timeout", det))
        for c in self.loop.unhandled:
            exc = c.get("exception")
            if "never retrieved" in str(c.get("message")):
                continue  # GC-timed log noise about an abandoned task, not behaviour of the callbacks (and not deterministic)
            self.viol.append((f"unhandled-exception-in-loop:{type(exc).__name__}", {"msg": str(c.get('message'))[:100], "err": str(exc)[:160]}))
        del self.loop.unhandled[:]

    def violations(self):
        v, self.viol = self.viol, []
        return v

    def finish(self):
        for _ in range(40):
            self.loop.run_until_idle()
            self._check()
            if all(w["task"].done() for w in self.waiters) or self.loop.time() > 40:
                break
            if not self.loop.fire_next_timer():
                break
            self._model_resolutions_due()
        self.loop.run_until_idle()
        self._check()
        self._check_descriptions()
        out = self.violations()
        for k, w in enumerate(self.waiters):
            if not w["task"].done():
                out.append(("waiter-pending-at-horizon", {"waiter": k}))
        return out

    def canon(self):
        ws = tuple((w["id"], round(self.loop.time() - w["t0"], 6), w["timeout"], w["task"].done(), w["task"].cancelled(), w.get("cancel_requested", False), "adv_at" in w) for w in self.waiters)
        timers = tuple(sorted(round(h._when - self.loop.time(), 6) for h in self.loop._scheduled if not h._cancelled))
        regs = tuple(sorted((k, len(v)) for c in self.ctrls.values() for k, v in {**getattr(c, "_waiters", {}), **getattr(c, "_ble_futures", {})}.items()))
        from vt import canon as _c

        generic = tuple(_c.canon(c, depth=2, skip=("_char_cache", "_loop", "_async_zeroconf_instance", "pairings", "aliases", "discoveries", "transports", "_tasks")) for c in self.ctrls.values())
        model = (tuple(sorted(getattr(self, "started", {}).items())), tuple(t.done() for t in getattr(self, "start_tasks", [])), getattr(self, "pairing_shut", False), getattr(self, "disc_connected", False), tuple(sorted(self.may_find)), tuple(sorted((k, v % 3) for k, v in self.nadv.items())), tuple(sorted((k, tuple(sorted(v.items()))) for k, v in self.last_adv.items())), tuple(sorted(self.zc_cache)), tuple(sorted(self.ambig)),
                 tuple(sorted((n, round(d[0] - self.loop.time(), 6)) for n, d in self.model_resolve.items())))
        conns = tuple((pid, getattr(getattr(pr, "connection", None), "_reconnect_future", None) is not None and pr.connection._reconnect_future.done(), getattr(getattr(pr, "connection", None), "closing", None))
                      for c in self.ctrls.values() for pid, pr in sorted(c.pairings.items()))
        return (model, ws, timers, tuple(sorted(self.discovered)), regs, len(self.loop._ready), self.preempt, generic, tuple(sorted(k for c in self.ctrls.values() for k in c.discoveries)),
                _c.tasks_sig(self.loop), conns, len(self.net.attempts), len(self.net.pending()))

    def outcome(self):
        def st(w):
            t = w["task"]
            if not t.done():
                return "pending"
            if t.cancelled():
                return "cancelled"
            return "found" if t.exception() is None else type(t.exception()).__name__
        return ",".join(st(w) for w in self.waiters) or "none"

    def close(self):
        try:
            self.loop.shutdown()
        finally:
            self._patch.__exit__(None, None, None)
            if getattr(self, "_zmod", None) is not None:
                self._zmod.AsyncServiceInfo = self._orig_info
                if getattr(self, "_orig_find", None) is not None:
                    self._zmod.find_brower_for_hap_type = self._orig_find


def case_explore(p):
    h, trace = explore.run_prefix(lambda: H(p), tuple(p.get("choices", ())))
    try:
        v = h.violations()
        if not v:
            v = h.finish()
        return [(s, dict(detail=d, trace=trace)) for s, d in v]
    finally:
        h.close()


# ------------------------------------------------------------------ parsing (E3)
def ref_txt(raw: bytes):
    """Reference TXT parser (RFC 6763 6.x): length-prefixed strings, key=value at first '=', keys case-insensitive, first wins."""
    out = {}
    pos = 0
    while pos < len(raw):
        n = raw[pos]
        s = raw[pos + 1 : pos + 1 + n]
        pos += 1 + n
        if not s:
            continue
        k, sep, v = s.partition(b"=")
        try:
            ks = k.decode("utf-8")
        except UnicodeDecodeError:
            continue
        if ks.lower() in (x.lower() for x in out):
            continue
        out[ks] = v if sep else None
    return out


def case_txt(p):
    """One TXT blob + address list through HomeKitService.from_service_info and the controller callback."""
    from aiohomekit.controller.ip.controller import IpController
    from aiohomekit.characteristic_cache import CharacteristicCacheMemory
    from aiohomekit.zeroconf import HomeKitService

    raw, addrs = bytes(p["txt"]), p["addresses"]
    loop = vloop.VirtualLoop().install()
    out = []
    try:
        info = svc_info("_hap._tcp.local.", IDS[0], addresses=addrs, raw_txt=raw)
        ctrl = IpController(char_cache=CharacteristicCacheMemory(), zeroconf_instance=None)
        try:
            ctrl._async_handle_loaded_service_info(info)
        except Exception as e:  # noqa: BLE001
            return [(f"browser-callback-raises:{type(e).__name__}", {"txt": raw, "addresses": addrs, "err": str(e)[:200]})]
        # reference expectations
        good = []
        for a in addrs:
            ip = ipaddress.ip_address(a)
            if not ip.is_link_local and not ip.is_unspecified:
                good.append(ip)
        props = {k.lower(): v for k, v in ref_txt(raw).items() if v is not None}
        valid = bool(good) and "id" in props
        num = {}
        if valid:
            try:
                dev_id = props["id"].decode("utf-8")
                for key, default in (("c#", 0), ("s#", 0), ("sf", 0), ("ci", 1), ("ff", 0)):
                    num[key] = int(props[key].decode("utf-8")) if key in props else default
            except (ValueError, UnicodeDecodeError):
                valid = None  # malformed numeric/text: either ignored or... must not raise (checked above)
        ds = list(ctrl.discoveries.values())
        if valid is False and ds:
            out.append(("malformed-advertisement-not-ignored", {"txt": raw, "addresses": addrs}))
        if valid and num["ci"] >= 0 and num["sf"] >= 0 and num["ff"] >= 0:
            if not ds:
                out.append(("valid-advertisement-ignored", {"txt": raw, "addresses": addrs}))
            else:
                d = ds[0].description
                det = {"txt": raw, "addresses": addrs}
                if d.id != dev_id.lower():
                    out.append(("id-not-lower-cased", dict(det, got=d.id)))
                got = [ipaddress.ip_address(x) for x in d.addresses]
                if sorted(got, key=str) != sorted(set(good), key=str) and sorted(got, key=str) != sorted(good, key=str):
                    out.append(("address-list-wrong", dict(det, got=d.addresses)))
                v4seen = [x.version for x in got]
                if v4seen != sorted(v4seen):
                    out.append(("ipv4-not-first", dict(det, got=d.addresses)))
                if d.addresses and d.address != d.addresses[0]:
                    out.append(("primary-address-not-first", dict(det, got=d.address)))
                if any(x.is_link_local or x.is_unspecified for x in got):
                    out.append(("link-local-or-unspecified-address-kept", dict(det, got=d.addresses)))
                if (d.config_num, d.state_num, int(d.status_flags), int(d.category)) != (num["c#"], num["s#"], num["sf"], num["ci"]):
                    out.append(("reported-numbers-wrong", dict(det, got=(d.config_num, d.state_num, int(d.status_flags), int(d.category)))))
    finally:
        loop.shutdown()
    return out


def case_mfr(p):
    from aiohomekit.characteristic_cache import CharacteristicCacheMemory
    from aiohomekit.controller.ble.controller import BleController

    data = bytes(p["data"])
    loop = vloop.VirtualLoop().install()
    out = []
    try:
        cache = CharacteristicCacheMemory()
        how = p.get("pairing")
        if isinstance(how, str):
            # what an earlier version of the application left in the cache: the database with / without a broadcast key, with / without a state number
            cache.async_create_or_update_map(IDS[0].upper(), 3, accessories(), ("11" * 32) if "key" in how.split("+") else None, 5 if "gsn" in how.split("+") else None)
        ctrl = BleController(cache)
        if how:
            ctrl.load_pairing("alias", pairing_data(IDS[0], "BLE"))
        dev, adv = ble_adv(IDS[0], data=data)
        try:
            ctrl._device_detected(dev, adv)
        except Exception as e:  # noqa: BLE001
            return [(f"scanner-callback-raises:{type(e).__name__}", {"data": data, "err": str(e)[:200]})]
        ds = list(ctrl.discoveries.values())
        det = {"data": data}
        wellformed = len(data) >= 15 and data[0] == 0x06
        if not wellformed and ds:
            out.append(("malformed-manufacturer-data-not-ignored", det))
        if wellformed and data[0] == 0x06:
            cat, gsn, cn, cv = struct.unpack("<HHBB", data[9:15])
            if ds:
                d = ds[0].description
                want_id = ":".join(f"{b:02x}" for b in data[3:9])
                if d.id != want_id:
                    out.append(("ble-id-wrong-or-not-lower-case", dict(det, got=d.id)))
                if (d.config_num, d.state_num, int(d.status_flags), int(d.category)) != (cn, gsn, data[2], cat):
                    out.append(("ble-reported-numbers-wrong", dict(det, got=(d.config_num, d.state_num, int(d.status_flags), int(d.category)))))
            elif p.get("must_accept"):
                out.append(("valid-manufacturer-data-ignored", det))
    finally:
        loop.shutdown()
    return out


def case_stream(p):
    """A steady stream of browser callbacks for one service name (an accessory that keeps re-announcing changed records, period < debounce window)
    while a caller waits: the record is resolved DEBOUNCE_MAX after the FIRST callback at the latest, however many follow.  p: kind, period, timeout."""
    from aiohomekit.exceptions import AccessoryNotFoundError

    h = H(dict(kind=p["kind"], pairing=p.get("pairing", "none"), browser=True, waiters=1, ids=1, P=0, seed=p.get("seed", 0)))
    out = []
    try:
        via = p["kind"]
        t = h.loop.create_task(h.target.async_find(IDS[0], p["timeout"]))
        h.loop.run_until_idle()
        t0 = h.loop.time()
        n = 0
        while h.loop.time() < t0 + p["timeout"] + 1.0 and not t.done():
            h._zc("zc-add", IDS[0], via)
            n += 1
            h.loop.advance(p["period"])
        h.loop.advance(1.0)
        det = {"kind": via, "period": p["period"], "timeout": p["timeout"], "callbacks": n, "finished_at": round(h.loop.time() - t0, 3)}
        if not t.done():
            out.append(("stream:waiter-still-pending", det))
        elif t.cancelled() or t.exception() is not None:
            if p["timeout"] > DEBOUNCE_MAX + 0.5:
                out.append(("stream:waiter-not-woken-although-the-record-was-announced-all-along", dict(det, err=repr(t.exception())[:120] if not t.cancelled() else "cancelled")))
        if IDS[0] not in h.target.discoveries and p["timeout"] > DEBOUNCE_MAX + 0.5:
            out.append(("stream:announced-device-never-among-discoveries", det))
    finally:
        h.close()
    return out


CASES = {"explore": case_explore, "txt": case_txt, "mfr": case_mfr, "stream": case_stream}


def _work(item, seed, tier):
    acc = core.Acc()
    if item[0] == "explore":
        _, p, root, depth = item
        explore.explore(lambda: H(p), acc, depth=depth, case="explore", params=p, root=root, prune=True)
        return acc
    name, plist = item
    for p in plist:
        v = CASES[name](p)
        acc.case(key=(name, core.jsonable(p)), outcome=f"{name}:{'ok' if not v else v[0][0]}", sample={"case": name, "params": p}, symbols=(name,))
        for sig, detail in v:
            acc.violation(sig, name, p, detail)
    return acc


def txt_blob(props):
    out = b""
    for k, v in props:
        s = (k + "=" + v).encode() if v is not None else k.encode()
        out += bytes([len(s)]) + s
    return out


def run(ctx):
    quick = ctx.tier == "quick"
    depth = 5 if quick else 8
    configs = [
        dict(kind="ip", pairing="none", waiters=2, ids=2 if not quick else 1, P=1),
        dict(kind="ip", pairing="cached", waiters=2, ids=1, P=1),
        dict(kind="coap", pairing="none", waiters=2, ids=1, P=1),
        dict(kind="coap", pairing="nocache", waiters=1, ids=1, P=0),
        dict(kind="ip", pairing="nocache", waiters=1, ids=1, P=0),
        dict(kind="ble", pairing="none", waiters=2, ids=1, P=1),
        dict(kind="ble", pairing="cached", waiters=2, ids=1, P=1),
        dict(kind="ble", pairing="nocache", waiters=1, ids=1, P=0),
        dict(kind="agg", pairing="none", waiters=2 if not quick else 1, ids=1, P=1 if not quick else 0),
        dict(kind="ipcoap", pairing="none", waiters=1, ids=1, P=0),
        dict(kind="coapip", pairing="none", waiters=1, ids=1, P=0),
        # both zeroconf controllers behind ONE browser that reports both service types to every handler
        dict(kind="ipcoap", pairing="none", waiters=1, ids=1, P=0, browser=True, shared_browser=True, timeouts=(5.0,)),
        dict(kind="coapip", pairing="none", waiters=1, ids=1, P=0, browser=True, shared_browser=True, timeouts=(1.0,)),
        # the aggregate controller with a pairing for the id loaded on ONE of its transports: an advertisement on the other one still counts
        dict(kind="agg", pairing="nocache", pairing_via="ip", waiters=1, ids=1, P=0),
        dict(kind="agg", pairing="nocache", pairing_via="ble", waiters=1, ids=1, P=0),
    ]
    configs += [
        # re-advertisements that differ only in flags / category; what the controller reports must follow
        dict(kind="ip", pairing="none", waiters=1, ids=1, P=0, variants=True),
        dict(kind="coap", pairing="cached", waiters=1, ids=1, P=0, variants=True),
        dict(kind="ble", pairing="none", waiters=1, ids=1, P=0, variants=True),
        dict(kind="ble", pairing="none", waiters=1, ids=1, P=0, variants=True, disc_connect=True),
        # a pairing that is shut down while advertisements keep arriving (with and without cached state, every transport)
        dict(kind="ble", pairing="nocache", waiters=1, ids=1, P=0, pairing_shutdown=True),
        dict(kind="ble", pairing="cached", waiters=1, ids=1, P=0, pairing_shutdown=True),
        dict(kind="ip", pairing="nocache", waiters=1, ids=1, P=0, pairing_shutdown=True),
        dict(kind="coap", pairing="cached", waiters=1, ids=1, P=0, pairing_shutdown=True),
        # state changes through the zeroconf browser callback (debounced resolution, goodbye inside the debounce window)
        dict(kind="ip", pairing="none", waiters=1, ids=1, P=0, browser=True, timeouts=(5.0,)),
        dict(kind="coap", pairing="none", waiters=1, ids=1, P=0, browser=True, timeouts=(1.0,)),
        # ... and a name whose record is unusable for a while (Updated, not Removed + Added, when it changes)
        dict(kind="ip", pairing="none", waiters=1, ids=1, P=0, browser=True, zc_bad=True, timeouts=(5.0,)),
        dict(kind="coap", pairing="none", waiters=1, ids=1, P=0, browser=True, zc_bad=True, timeouts=(5.0,)),
        # a waiter that does not want to wait at all (timeout 0: 'is it known right now?')
        dict(kind="ip", pairing="none", waiters=2, ids=1, P=0, timeouts=(0.0, 5.0)),
        dict(kind="coap", pairing="none", waiters=1, ids=1, P=0, timeouts=(0, 1.0)),
        dict(kind="ble", pairing="none", waiters=1, ids=1, P=0, timeouts=(0.0, 1.0)),
        dict(kind="agg", pairing="none", waiters=1, ids=1, P=0, timeouts=(0.0,)),
        # controller start-up as an event: records already in the cache, records announced while start-up resolves another one over the network
        dict(kind="ip", pairing="none", waiters=1, ids=1, P=0, browser=True, start_event=True, timeouts=(20.0,)),
        dict(kind="coap", pairing="none", waiters=1, ids=1, P=0, browser=True, start_event=True, bad_ptr=True, timeouts=(20.0,)),
    ]
    if not quick:
        configs += [dict(kind="ip", pairing="cached", waiters=2, ids=1, P=1, browser=True, variants=True, timeouts=(0.75, 5.0)), dict(kind="agg", pairing="none", waiters=1, ids=1, P=0, variants=True),
                    dict(kind="ip", pairing="none", waiters=1, ids=2, P=0, browser=True)]
    if not quick:
        configs += [dict(kind="ip", pairing="none", waiters=3, ids=1, P=1, timeouts=(5.0, 10.0)), dict(kind="ble", pairing="none", waiters=3, ids=2, P=1), dict(kind="coap", pairing="nocache", waiters=1, ids=1, P=1),
                    dict(kind="ble", pairing="none", waiters=2, ids=1, P=2, timeouts=(5.0, 10.0)), dict(kind="ip", pairing="none", waiters=2, ids=1, P=2), dict(kind="agg", pairing="none", waiters=2, ids=1, P=2)]
    work = []
    for p in configs:
        d = depth - (1 if p["kind"] == "agg" or p.get("ids", 1) > 1 or p.get("waiters", 2) > 2 else 0)
        rs = explore.roots(lambda: H(p), 2)
        work += [("explore", p, r, d) for r in rs]
    ctx.bounds.update(depth=depth, configs=configs)
    # ---- parsing
    base = [("c#", "3"), ("ff", "1"), ("id", IDS[0].upper()), ("md", "Model"), ("pv", "1.1"), ("s#", "7"), ("sf", "0"), ("ci", "5")]
    raw = txt_blob(base)
    txts = [{"txt": raw[:n], "addresses": ["10.0.0.5"]} for n in range(len(raw) + 1)]
    casings = [[("ID", IDS[0].upper())], [("Id", IDS[0]), ("C#", "9"), ("CI", "2")], [("id", "AA:bb:CC:dd:EE:01"), ("s#", "65535"), ("sf", "1")]]
    for c in casings:
        txts.append({"txt": txt_blob(c), "addresses": ["10.0.0.5"]})
    bad_nums = [("c#", "abc"), ("c#", ""), ("s#", "-1"), ("ci", "99999"), ("ci", "-5"), ("sf", "x"), ("c#", "99999999999999999999"), ("ff", "1.5"), ("ci", "0"), ("id", ""), ("id", None)]
    for k, v in bad_nums:
        props = [(a, b) for a, b in base if a != k] + [(k, v)]
        txts.append({"txt": txt_blob(props), "addresses": ["10.0.0.5"]})
    pool = ["10.0.0.5", "192.168.1.9", "169.254.7.7", "0.0.0.0", "fd00::5", "fe80::1", "::"]
    for r in range(0, 4 if quick else 5):
        for combo in itertools.permutations(pool, r) if r <= 2 or not quick else itertools.combinations(pool, r):
            txts.append({"txt": raw, "addresses": list(combo)})
    work += [("txt", txts[i : i + 150]) for i in range(0, len(txts), 150)]
    m = mfr_data(IDS[0])
    mf = [{"data": m[:n], "must_accept": n >= 15} for n in range(1, len(m) + 1)]
    for pos in range(len(m)):
        for val in (0, 1, 0x06, 0x11, 0xFF):
            b = bytearray(m)
            b[pos] = val
            mf.append({"data": bytes(b)})
    mf.append({"data": mfr_data("AA:BB:CC:DD:EE:01".lower(), gsn=65535, cn=255, cat=33, sf=1), "must_accept": True})
    # every kind byte x every length: the neighbouring parsers (0x11 = encrypted notification) see truncated data too
    note = bytes([0x11, 0x36]) + bytes.fromhex(IDS[0].replace(":", "")) + bytes(range(16))
    for first in (0x06, 0x11, 0x00, 0x01, 0x10, 0x12, 0xFF):
        for src in (m, note):
            for n in range(1, len(src) + 1):
                for with_pairing in (False, True, "key", "key+gsn", "gsn", "db-only"):
                    if isinstance(with_pairing, str) and n not in (len(src), len(src) - 1, 9, 12) and first not in (0x11, 0x06):
                        continue
                    mf.append({"data": bytes([first]) + src[1:n], "pairing": with_pairing, **({"must_accept": True} if first == 0x06 and src is m and n >= 15 else {})})
    work += [("mfr", mf[i : i + 150]) for i in range(0, len(mf), 150)]
    streams = [{"kind": k_, "period": per, "timeout": to, "pairing": pm} for k_ in ("ip", "coap") for per in (0.05, 0.1, 0.25, 0.3, 0.45, 0.49, 0.5, 0.6, 1.0) for to in (3.0, 5.0, 10.0) for pm in ("none", "cached")]
    work += [("stream", streams[i : i + 12]) for i in range(0, len(streams), 12)]
    ctx.pmap(_work, work)
    ctx.exhaustive = not ctx.acc.capped
    for s in ("wait", "adv", "bad", "cancel", "timer", "run1", "txt", "mfr"):
        ctx.require(ctx.acc.symbols[s] > 0, f"{s} never exercised")

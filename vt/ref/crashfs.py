"""E4 crash-point machinery: a recorder for the file operations a piece of code performs below one directory, and an
independent crash model that turns every prefix of the recorded history into the directories a crash could leave.
Imports nothing from aiohomekit.

Recorder (seams: builtins.open / io.open, os.open, os.write, os.close, os.fsync, os.fdatasync, os.replace, os.rename,
os.unlink / os.remove, os.link, os.truncate, os.ftruncate; file objects are proxied so write / flush / close / truncate
are seen; os.fdopen, pathlib.Path.open / write_text / replace and tempfile.* reach these through module attributes).
The operations are also executed for real, so the code under test sees a consistent directory.

Crash model (what survives when the machine stops after a prefix of the history):
  * creating, truncating (open(..., 'w'), O_TRUNC, truncate), renaming, linking and unlinking a name are atomic and
    durable at once;
  * bytes are durable once an fsync/fdatasync of that file completed AFTER they reached the operating system: bytes written
    through a file object reach it at flush() / close() (fsync of a file whose bytes still sit in the process buffer makes
    nothing durable; automatic flushes of a full buffer are not relied upon), bytes written with os.write at once;
    everything else persists as ANY prefix (0..all of it) - this subsumes a crash in the middle of a write(), in the
    process buffer before flush(), or in the page cache after close();
  * a rename is durable even when the data of its source is not: the new name may then show any such prefix;
  * directory fsyncs are not needed (lenient toward the code under test).
"""
from __future__ import annotations

import builtins
import io
import itertools
import os


class Unsupported(Exception):
    """The recorded history uses something the crash model does not cover (seek-and-overwrite, paths outside the root...)."""


# ---------------------------------------------------------------- recorder
class _File:
    """Proxy around a real file object that logs what is done to it."""

    def __init__(self, rec, real, hid):
        object.__setattr__(self, "_rec", rec)
        object.__setattr__(self, "_real", real)
        object.__setattr__(self, "_hid", hid)

    def write(self, data):
        real = self._real
        if isinstance(data, str):
            raw = data.encode(getattr(real, "encoding", None) or "utf-8", getattr(real, "errors", None) or "strict")
        else:
            raw = bytes(data)
        # a write to a (buffered) file object: the bytes sit in the process until flush() / close() hands them to the operating system
        self._rec.log.append(("write", self._hid, raw, "buffered"))
        return real.write(data)

    def writelines(self, lines):
        for line in lines:
            self.write(line)

    def flush(self):
        if not self._real.closed:
            self._rec.log.append(("flush", self._hid))
        return self._real.flush()

    def truncate(self, size=None):
        r = self._real.truncate(size)
        self._rec.log.append(("truncate", self._hid, r))
        return r

    def seek(self, *a):
        r = self._real.seek(*a)
        self._rec.log.append(("seek", self._hid))
        return r

    def close(self):
        real = self._real
        if not real.closed:
            try:
                fd = real.fileno()
            except Exception:  # noqa: BLE001
                fd = None
            self._rec.log.append(("close", self._hid))
            if fd is not None and self._rec._fds.get(fd) == self._hid:
                del self._rec._fds[fd]
        return real.close()

    def __enter__(self):
        self._real.__enter__()
        return self

    def __exit__(self, *exc):
        self.close()
        return False

    def __iter__(self):
        return iter(self._real)

    def __getattr__(self, name):
        return getattr(self._real, name)

    def __setattr__(self, name, value):
        setattr(self._real, name, value)


class Recorder:
    """with Recorder(root) as rec: <code under test> ; rec.log is the history of file operations below root."""

    def __init__(self, root):
        self.root = os.path.realpath(root)
        self.log = []
        self._fds = {}
        self._next = 0
        self._saved = None

    # -- helpers
    def _rel(self, path):
        try:
            p = os.fspath(path)
        except TypeError:
            return None
        if isinstance(p, bytes):
            p = os.fsdecode(p)
        full = os.path.normpath(os.path.join(os.getcwd(), p))
        head, tail = os.path.split(full)
        full = os.path.join(os.path.realpath(head), tail)
        if full == self.root:
            return "."
        if full.startswith(self.root + os.sep):
            return full[len(self.root) + 1 :]
        return None

    def _new(self):
        self._next += 1
        return self._next

    def _fd_of(self, fd):
        if not isinstance(fd, int):
            try:
                fd = fd.fileno()
            except Exception:  # noqa: BLE001
                return None
        return self._fds.get(fd)

    # -- patches
    def __enter__(self):
        o = {
            "open": builtins.open, "io_open": io.open, "os_open": os.open, "write": os.write, "close": os.close, "fsync": os.fsync,
            "fdatasync": os.fdatasync, "replace": os.replace, "rename": os.rename, "unlink": os.unlink, "remove": os.remove,
            "link": os.link, "truncate": os.truncate, "ftruncate": os.ftruncate,
        }
        self._saved = o
        rec = self
        import shutil as _sh

        # (copies go through write(), where the recorder sees them - not through sendfile / copy_file_range on raw descriptors)
        self._sh_flags = {n: getattr(_sh, n) for n in ("_USE_CP_SENDFILE", "_USE_CP_COPY_FILE_RANGE", "_HAS_FCOPYFILE") if hasattr(_sh, n)}
        for n in self._sh_flags:
            setattr(_sh, n, False)

        def p_open(file, mode="r", buffering=-1, encoding=None, errors=None, newline=None, closefd=True, opener=None):
            if isinstance(file, int):
                hid = rec._fds.get(file)
                real = o["open"](file, mode, buffering, encoding, errors, newline, closefd, opener)
                return real if hid is None else _File(rec, real, hid)
            rel = rec._rel(file)
            if rel is None:
                return o["open"](file, mode, buffering, encoding, errors, newline, closefd, opener)
            existed = os.path.exists(file)
            real = o["open"](file, mode, buffering, encoding, errors, newline, closefd, opener)
            fd = real.fileno()
            if opener is not None and fd in rec._fds:
                return _File(rec, real, rec._fds[fd])  # the opener went through os.open: already logged
            flags = set()
            if "w" in mode:
                flags |= {"write", "create", "trunc"}
            if "x" in mode:
                flags |= {"write", "create", "excl"}
            if "a" in mode:
                flags |= {"write", "create", "append"}
            if "+" in mode:
                flags.add("write")
            if "r" in mode and "+" not in mode:
                flags.add("read")
            if not existed:
                flags.add("created")
            hid = rec._new()
            rec._fds[fd] = hid
            rec.log.append(("open", hid, rel, sorted(flags)))
            return _File(rec, real, hid)

        def p_os_open(path, flags, mode=0o777, *, dir_fd=None):
            rel = rec._rel(path) if dir_fd is None else None
            if rel is None:
                return o["os_open"](path, flags, mode, dir_fd=dir_fd)
            existed = os.path.exists(path)
            fd = o["os_open"](path, flags, mode)
            fl = set()
            if os.path.isdir(path):
                fl.add("dir")
            if flags & (os.O_WRONLY | os.O_RDWR):
                fl.add("write")
            for bit, name in ((os.O_CREAT, "create"), (os.O_TRUNC, "trunc"), (os.O_EXCL, "excl"), (os.O_APPEND, "append")):
                if flags & bit:
                    fl.add(name)
            if not existed:
                fl.add("created")
            hid = rec._new()
            rec._fds[fd] = hid
            rec.log.append(("open", hid, rel, sorted(fl)))
            return fd

        def p_write(fd, data):
            hid = rec._fds.get(fd)
            n = o["write"](fd, data)
            if hid is not None:
                rec.log.append(("write", hid, bytes(data)[:n]))
            return n

        def p_close(fd):
            hid = rec._fds.pop(fd, None)
            if hid is not None:
                rec.log.append(("close", hid))
            return o["close"](fd)

        def p_fsync(fd):
            hid = rec._fd_of(fd)
            r = o["fsync"](fd)
            if hid is not None:
                rec.log.append(("fsync", hid))
            return r

        def p_fdatasync(fd):
            hid = rec._fd_of(fd)
            r = o["fdatasync"](fd)
            if hid is not None:
                rec.log.append(("fsync", hid))
            return r

        def _two(name):
            def f(src, dst, *, src_dir_fd=None, dst_dir_fd=None, **kw):
                a = rec._rel(src) if src_dir_fd is None else None
                b = rec._rel(dst) if dst_dir_fd is None else None
                if (a is None) != (b is None) and src_dir_fd is None and dst_dir_fd is None:
                    # the modelled directory is a filesystem of its own (a data directory on another volume than the system's temporary
                    # directory - the worst legal case for a name moved in from elsewhere): the kernel refuses, whoever falls back to copying
                    # does so through open / write, which are recorded
                    import errno

                    raise OSError(errno.EXDEV, "Invalid cross-device link", os.fspath(src), None, os.fspath(dst))
                r = o[name](src, dst, src_dir_fd=src_dir_fd, dst_dir_fd=dst_dir_fd, **kw)
                if a is not None or b is not None:
                    rec.log.append(("rename" if name != "link" else "link", a, b))
                return r

            return f

        def _one(name):
            def f(path, *, dir_fd=None):
                rel = rec._rel(path) if dir_fd is None else None
                r = o[name](path, dir_fd=dir_fd)
                if rel is not None:
                    rec.log.append(("unlink", rel))
                return r

            return f

        def p_truncate(path, length):
            if isinstance(path, int):
                return p_ftruncate(path, length)
            rel = rec._rel(path)
            r = o["truncate"](path, length)
            if rel is not None:
                rec.log.append(("truncate-path", rel, length))
            return r

        def p_ftruncate(fd, length):
            hid = rec._fds.get(fd)
            r = o["ftruncate"](fd, length)
            if hid is not None:
                rec.log.append(("truncate", hid, length))
            return r

        builtins.open = p_open
        io.open = p_open
        os.open = p_os_open
        os.write = p_write
        os.close = p_close
        os.fsync = p_fsync
        os.fdatasync = p_fdatasync
        os.replace = _two("replace")
        os.rename = _two("rename")
        os.link = _two("link")
        os.unlink = _one("unlink")
        os.remove = _one("remove")
        os.truncate = p_truncate
        os.ftruncate = p_ftruncate
        return self

    def __exit__(self, *exc):
        o = self._saved
        builtins.open = o["open"]
        io.open = o["io_open"]
        os.open = o["os_open"]
        os.write = o["write"]
        os.close = o["close"]
        os.fsync = o["fsync"]
        os.fdatasync = o["fdatasync"]
        os.replace = o["replace"]
        os.rename = o["rename"]
        os.link = o["link"]
        os.unlink = o["unlink"]
        os.remove = o["remove"]
        os.truncate = o["truncate"]
        os.ftruncate = o["ftruncate"]
        import shutil as _sh

        for n, v_ in getattr(self, "_sh_flags", {}).items():
            setattr(_sh, n, v_)
        return False


# ---------------------------------------------------------------- directory snapshots
def snapshot(root):
    """-> {relative path: bytes} of the regular files below root."""
    out = {}
    for d, _, files in os.walk(root):
        for f in files:
            p = os.path.join(d, f)
            with open(p, "rb") as fh:
                out[os.path.relpath(p, root)] = fh.read()
    return out


def materialise(files, root):
    """Write {relative path: bytes} below the (empty, existing) directory root."""
    for rel, data in files.items():
        p = os.path.join(root, rel)
        os.makedirs(os.path.dirname(p), exist_ok=True)
        with open(p, "wb") as fh:
            fh.write(data)


# ---------------------------------------------------------------- crash model
class _Inode:
    __slots__ = ("ino", "gen", "content", "synced", "in_os")

    def __init__(self, ino, content=b"", synced=0):
        self.ino, self.gen, self.content, self.synced = ino, 0, bytearray(content), synced
        self.in_os = len(self.content)  # how much of the content has left the writing process


class Model:
    def __init__(self, initial):
        self.names = {}
        self.handles = {}
        self._n = 0
        for rel, data in sorted(initial.items()):
            self.names[rel] = self._inode(data, len(data))

    def _inode(self, content=b"", synced=0):
        self._n += 1
        return _Inode(self._n, content, synced)

    def apply(self, op):
        kind = op[0]
        if kind == "open":
            _, hid, rel, flags = op
            if "dir" in flags:
                self.handles[hid] = None
                return
            node = self.names.get(rel)
            if node is None:
                if "create" not in flags:
                    raise Unsupported(f"open of a missing file without create: {rel}")
                node = self.names[rel] = self._inode()
            elif "trunc" in flags:
                node.content = bytearray()
                node.synced = 0
                node.in_os = 0
                node.gen += 1
            self.handles[hid] = [node, len(node.content) if "append" in flags else 0, "append" in flags, False]
        elif kind == "write":
            h = self.handles.get(op[1])
            if h is None:
                raise Unsupported("write to an untracked handle")
            node, pos, append, moved = h
            if moved or (pos != len(node.content) and not append):
                raise Unsupported("write that is not an append (seek / overwrite)")
            node.content += op[2]
            h[1] = len(node.content)
            if not (len(op) > 3 and op[3] == "buffered"):
                node.in_os = len(node.content)
        elif kind == "seek":
            h = self.handles.get(op[1])
            if h is not None:
                h[3] = True
        elif kind == "truncate":
            h = self.handles.get(op[1])
            if h is None:
                raise Unsupported("truncate of an untracked handle")
            node = h[0]
            if op[2] > len(node.content):
                raise Unsupported("truncate that extends the file")
            del node.content[op[2] :]
            node.synced = min(node.synced, op[2])
            node.in_os = min(node.in_os, op[2])
            node.gen += 1
            h[1] = min(h[1], op[2])
        elif kind == "truncate-path":
            node = self.names.get(op[1])
            if node is None or op[2] > len(node.content):
                raise Unsupported("truncate-path")
            del node.content[op[2] :]
            node.synced = min(node.synced, op[2])
            node.in_os = min(node.in_os, op[2])
            node.gen += 1
        elif kind == "fsync":
            h = self.handles.get(op[1])
            if h is not None:
                h[0].synced = max(h[0].synced, h[0].in_os)
        elif kind in ("flush", "close"):
            h = self.handles.get(op[1])
            if h is not None:
                h[0].in_os = len(h[0].content)
            if kind == "close":
                self.handles.pop(op[1], None)
        elif kind == "rename":
            _, a, b = op
            if a is None or b is None or a not in self.names:
                raise Unsupported(f"rename across the root or of a missing name: {a} -> {b}")
            self.names[b] = self.names.pop(a)
        elif kind == "link":
            _, a, b = op
            if a is None or b is None or a not in self.names:
                raise Unsupported("link across the root")
            self.names[b] = self.names[a]
        elif kind == "unlink":
            self.names.pop(op[1], None)
        else:
            raise Unsupported(f"unknown operation {kind}")

    def variants(self):
        """Every directory a crash right now could leave: list of (key, persist, files);
        persist = {rel: number of bytes that survived} for the files with unsynced data."""
        rels = sorted(self.names)
        nodes = {}
        for rel in rels:
            nodes.setdefault(self.names[rel].ino, self.names[rel])
        inos = sorted(nodes)
        ranges = [range(nodes[i].synced, len(nodes[i].content) + 1) for i in inos]
        out = []
        for combo in itertools.product(*ranges):
            m = dict(zip(inos, combo))
            key = tuple((rel, self.names[rel].ino, self.names[rel].gen, m[self.names[rel].ino]) for rel in rels)
            out.append((key, m))
        return out

    def files(self, m):
        return {rel: bytes(node.content[: m[node.ino]]) for rel, node in self.names.items()}

    def persist_of(self, m):
        return {rel: m[node.ino] for rel, node in self.names.items() if node.synced != len(node.content)}


def describe(op):
    if op[0] == "write":
        return f"write(h{op[1]}, {len(op[2])} bytes)"
    if op[0] == "open":
        return f"open(h{op[1]}, {op[2]!r}, {'+'.join(op[3])})"
    return f"{op[0]}({', '.join(('h%d' % x) if isinstance(x, int) and i == 0 else repr(x) for i, x in enumerate(op[1:]))})"


def crash_states(initial, log):
    """Every distinct post-crash directory over every prefix of the history.

    -> (states, stats); a state = dict(point=number of completed operations, after=description of the last completed
    operation, persist={rel: surviving byte count of a file with unsynced data}, files={rel: bytes});
    stats = dict(points=..., byte_points=..., pairs=...) where byte_points counts every byte of every write as its own
    crash point (each of them is one of the `persist` variants of the completed write) and pairs = (point, variant) pairs."""
    model = Model(initial)
    seen = set()
    states = []
    stats = {"points": 0, "byte_points": 0, "pairs": 0}

    def emit(point, after):
        stats["points"] += 1
        for key, m in model.variants():
            stats["pairs"] += 1
            if key in seen:
                continue
            seen.add(key)
            states.append({"point": point, "after": after, "persist": model.persist_of(m), "files": model.files(m)})

    emit(0, "save not started")
    for i, op in enumerate(log):
        model.apply(op)
        if op[0] == "write":
            stats["byte_points"] += max(0, len(op[2]) - 1)
        emit(i + 1, describe(op))
    stats["byte_points"] += stats["points"]
    return states, stats


def state_at(initial, log, point, persist):
    """Re-create one crash state from its coordinates (used by replay)."""
    model = Model(initial)
    for op in log[:point]:
        model.apply(op)
    m = {node.ino: len(node.content) for node in model.names.values()}
    for rel, n in persist.items():
        if rel in model.names:
            node = model.names[rel]
            if not node.synced <= n <= len(node.content):
                raise Unsupported(f"persist count {n} outside [{node.synced}, {len(node.content)}] for {rel}")
            m[node.ino] = n
    return model.files(m)

"""Reference HAP-over-CoAP (Thread) accessory, as far as the controller side exercises it: pair-verify on resource /2,
then encrypted PDU batches on resource / (request PDU: control, opcode, tid, iid(2), len(2), body; response PDU: control
0x02, tid, status, len(2), body), per-direction message counters, event PUTs, accessory database (opcode 0x09).
Imports nothing from aiohomekit."""
from __future__ import annotations

import struct

from vt.ref import crypto as C
from vt.ref import hap, tlv8

FMT_CODE = {"bool": 0x01, "uint8": 0x04, "uint16": 0x06, "uint32": 0x08, "uint64": 0x0A, "int": 0x10, "float": 0x14, "string": 0x19, "data": 0x1B}
PACK = {"bool": "<B", "uint8": "<B", "uint16": "<H", "uint32": "<L", "uint64": "<Q", "int": "<l", "float": "<f"}


def nonce(ctr):
    return b"\x00" * 4 + struct.pack("<Q", ctr)


def pack_value(fmt, v):
    if fmt in PACK:
        return struct.pack(PACK[fmt], int(v) if fmt != "float" else v)
    if fmt == "string":
        return v.encode()
    return bytes(v)


def seq(tag, items):
    """A TLV8 list field: items joined by zero-length separators (00 00), the whole as one (fragmented) value."""
    return (tag, b"\x00\x00".join(items))


class Ch:
    def __init__(self, iid, ctype, fmt, props, value):
        self.iid, self.type, self.format, self.props, self.value = iid, ctype, fmt, props, value


# property bits: 0x10 secure read, 0x20 secure write, 0x08 timed write, 0x80 notifies connected
def default_db():
    return [
        (1, [
            (1, 0x3E, [Ch(2, 0x23, "string", 0x10, "Acc"), Ch(3, 0x14, "bool", 0x20, False)], []),
            (8, 0x43, [Ch(9, 0x25, "bool", 0x10 | 0x20 | 0x80, False), Ch(10, 0x08, "int", 0x10 | 0x20 | 0x80, 50), Ch(12, 0x2F, "int", 0x20, 0)], [1]),
            (20, 0x55, [Ch(24, 0x50, "data", 0x10 | 0x20, b"")], []),
        ]),
        # a bridged second accessory: instance ids are unique across the whole database (the PDU carries no accessory id)
        (2, [
            (40, 0x3E, [Ch(41, 0x23, "string", 0x10, "Sub")], []),
            (48, 0x43, [Ch(13, 0x25, "bool", 0x10 | 0x20 | 0x80, True), Ch(14, 0x2F, "int", 0x20, 0)], []),
        ]),
    ]


def encode_db(db):
    accs = []
    for aid, services in db:
        svcs = []
        for siid, stype, chars, linked in services:
            cs = []
            for c in chars:
                pf = struct.pack("<BBHBH", FMT_CODE[c.format], 0, 0x2700, 1, 0)
                body = tlv8.encode([(0x04, stype_bytes(c.type)), (0x05, struct.pack("<H", c.iid)), (0x0A, struct.pack("<H", c.props)), (0x0C, pf)])
                cs.append(tlv8.encode([(0x13, body)]))
            sbody = [(0x06, stype_bytes(stype)), (0x07, struct.pack("<H", siid)), seq(0x14, cs), (0x0F, struct.pack("<H", 1 if siid == 8 else 0))]
            if linked:
                sbody.append((0x10, b"".join(struct.pack("<H", x) for x in linked)))
            svcs.append(tlv8.encode([(0x15, tlv8.encode(sbody))]))
        abody = tlv8.encode([(0x1A, struct.pack("<H", aid)), seq(0x16, svcs)])
        accs.append(tlv8.encode([(0x19, abody)]))
    return tlv8.encode([seq(0x18, accs)])


def stype_bytes(t):
    """Apple-defined types travel in their short form (as few little-endian bytes as the number needs), as real accessories send them."""
    return int(t).to_bytes(max(1, (int(t).bit_length() + 7) // 8), "little")


class CoapAccessory:
    def __init__(self, seed, acc_id=b"AA:BB:CC:DD:EE:FF", db=None):
        self.seed = seed
        self.ident = hap.Identity(seed, "acc", acc_id)
        self.ios = hap.Identity(seed, "ios", b"decc6fa3-de3e-41c9-adba-ef7409821bfc")
        self.controllers = {self.ios.id: self.ios.pk}
        self.db = db or default_db()
        self.chars = {c.iid: c for _, svcs in self.db for _, _, cs, _ in svcs for c in cs}
        self.script = {}  # (opcode, iid) -> dict(status=.., tid_delta=.., control=..)
        self.writes = []
        self.n_sessions = 0
        self.session = None
        self.pv = None
        self.m3_ok = None
        self.errors = []
        self.requests = []
        self.setup = hap.SetupService(self.ident, "111-22-333", seed)
        self.setup.controllers = self.controllers

    def pairing_data(self):
        return {
            "AccessoryPairingID": self.ident.id.decode(), "AccessoryLTPK": self.ident.pk.hex(), "iOSPairingId": self.ios.id.decode(),
            "iOSDeviceLTSK": C.det_bytes(self.seed, "ltsk|ios").hex(), "iOSDeviceLTPK": self.ios.pk.hex(), "AccessoryIP": "fd00::5", "AccessoryPort": 5683, "Connection": "CoAP",
        }

    # ---- resources
    def post(self, path: str, payload: bytes):
        """-> (code, payload) with code in {'changed', 'notfound'}."""
        if path.endswith("/2") or path.endswith("/1"):
            reply = self.pair_verify(payload) if path.endswith("/2") else tlv8.encode(self.setup.handle(payload))
            f = getattr(self, "pair_fault", None)  # {"verify-m2": items, ..., "code": "changed" | "badreq" | "unauth" | "unavail"}: scripted answer to one step
            if f:
                try:
                    st = dict(tlv8.decode(payload)).get(hap.T_STATE, b"\x00")[0]
                except Exception:  # noqa: BLE001
                    st = 0
                key = ("verify" if path.endswith("/2") else "setup") + f"-m{st + 1}"
                if key in f:
                    return f.get("code", "changed"), tlv8.encode(f[key])
            return "changed", reply
        if self.session is None:
            return "notfound", b""
        pt = C.open_(self.session["c2a"], nonce(self.session["c2a_ctr"]), payload)
        if pt is None:
            self.errors.append(f"request does not authenticate under counter {self.session['c2a_ctr']}")
            return "notfound", b""
        self.session["c2a_ctr"] += 1
        out = b""
        off = 0
        while off < len(pt):
            control, opcode, tid, iid, ln = struct.unpack("<BBBHH", pt[off : off + 7])
            body = pt[off + 7 : off + 7 + ln]
            off += 7 + ln
            self.requests.append((opcode, tid, iid, body))
            status, rbody = self.process(opcode, iid, body)
            sc = self.script.get((opcode, iid), {})
            status = sc.get("status", status)
            if status != 0 or sc.get("empty"):
                rbody = sc.get("body", b"") if status != 0 else b""  # (an error response may carry a body too: the length field says how long it is)
            out += struct.pack("<BBBH", sc.get("control", 0x02), (tid + sc.get("tid_delta", 0)) & 0xFF, status, len(rbody)) + rbody
        ct = C.seal(self.session["a2c"], nonce(self.session["a2c_ctr"]), out)
        self.session["a2c_ctr"] += 1
        return "changed", ct

    def event(self, items):
        """items: [(iid, value bytes)] -> encrypted event payload."""
        pt = b""
        for iid, v in items:
            body = tlv8.encode([(1, v)]) if v is not None else b""
            pt += struct.pack("<BHH", 0, iid, len(body)) + body
        ct = C.seal(self.session["event"], nonce(self.session["ev_ctr"]), pt)
        self.session["ev_ctr"] += 1
        return ct

    def process(self, opcode, iid, body):
        if opcode == 0x09:
            return 0, encode_db(self.db)
        ch = self.chars.get(iid)
        if ch is None:
            return 4, b""
        if opcode == 0x03:
            return 0, tlv8.encode([(1, pack_value(ch.format, ch.value))])
        if opcode == 0x02:
            d = dict(tlv8.decode(body)) if body else {}
            self.writes.append((iid, d.get(1, b"")))
            return 0, b""
        if opcode in (0x0B, 0x0C):
            # event registrations belong to the session (a new pair-verify starts without any)
            if self.session is not None:
                subs = self.session.setdefault("subs", set())
                (subs.add if opcode == 0x0B else subs.discard)(iid)
            return 0, b""
        return 1, b""

    def pair_verify(self, payload):
        try:
            req = dict(tlv8.decode(payload))
        except tlv8.Malformed:
            return tlv8.encode([(hap.T_STATE, b"\x02"), (hap.T_ERROR, b"\x01")])
        st = req.get(hap.T_STATE)
        if st == b"\x01":
            ios_pub = bytes(req.get(hap.T_PK, b""))
            self.n_sessions += 1
            items, shared, acc_pub = hap.pv_m2(self.ident, C.det_bytes(self.seed, f"acc-eph|{self.n_sessions}"), ios_pub)
            self.pv = (shared, acc_pub, ios_pub)
            if getattr(self, "verify_reply_edit", None):
                items = self.verify_reply_edit(items)
            return tlv8.encode(items)
        if st == b"\x03" and self.pv:
            shared, acc_pub, ios_pub = self.pv
            self.m3_ok = hap.pv_check_m3(req, shared, acc_pub, ios_pub, self.controllers)
            if not self.m3_ok:
                return tlv8.encode([(hap.T_STATE, b"\x04"), (hap.T_ERROR, b"\x02")])
            k = hap.session_keys(shared)
            self.session = dict(c2a=k["c2a"], a2c=k["a2c"], event=k["event"], c2a_ctr=0, a2c_ctr=0, ev_ctr=0)
            return tlv8.encode([(hap.T_STATE, b"\x04")])
        return tlv8.encode([(hap.T_STATE, b"\x02"), (hap.T_ERROR, b"\x01")])
